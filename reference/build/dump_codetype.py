# Design-time builder: per host interpreter, types.CodeType positional parameters (from its docstring / replace signature),
# which line-table / 3.11 attributes a native code object has, and the probe order of dis._get_code_object.
import sys, types, json, inspect, ast, dis, textwrap
def f(): pass
co = f.__code__
doc = types.CodeType.__doc__
# code(argcount, posonlyargcount, kwonlyargcount, nlocals, stacksize, flags, codestring, constants, names, varnames, filename, name, [qualname,] firstlineno, linetable|lnotab, [exceptiontable,] freevars, cellvars)
try:
    params = [p for p in inspect.signature(types.CodeType).parameters]
except ValueError:
    sig = doc.split("(", 1)[1].split(")")[0].replace("[", "").replace("]", "")
    params = [p.strip() for p in sig.replace("\n", " ").split(",") if p.strip()]
attrs = {a: hasattr(co, a) for a in ("co_lnotab", "co_linetable", "co_lines", "co_positions", "co_exceptiontable", "co_qualname", "co_posonlyargcount")}
src = textwrap.dedent(inspect.getsource(dis._get_code_object))
probes = []
for n in ast.walk(ast.parse(src)):
    if isinstance(n, ast.Call) and getattr(n.func, "id", "") == "hasattr" and isinstance(n.args[1], ast.Constant):
        probes.append(("hasattr", n.args[1].value, n.lineno))
    if isinstance(n, ast.Call) and getattr(n.func, "id", "") == "isinstance" and isinstance(n.args[1], ast.Name):
        probes.append(("isinstance", n.args[1].id, n.lineno))
probes.sort(key=lambda t: t[2])
json.dump({"version": list(sys.version_info[:3]), "codetype_params": params, "native_attrs": attrs, "get_code_object_probes": [[a, b] for a, b, c in probes]}, sys.stdout)
