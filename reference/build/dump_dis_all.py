"""Design-time: dump dis.__all__ of each installed CPython into reference/dis_all.json.
usage: for each interpreter  <python> dump_dis_all.py >> lines ; merged by hand (see PROVENANCE.md)"""
import dis, json, sys
print(json.dumps({"%d.%d" % sys.version_info[:2]: sorted(dis.__all__)}))
