# Design-time builder (py2/py3 compatible): dump this interpreter's opcode module as JSON on stdout.
# Run by build_all.sh with every interpreter under /root/.pyenv/versions; the checks only read the JSON.
import json, sys, opcode, dis
d = {
    "version": list(sys.version_info[:3]),
    "opmap": dict(opcode.opmap),
    "HAVE_ARGUMENT": opcode.HAVE_ARGUMENT,
    "EXTENDED_ARG": opcode.EXTENDED_ARG,
}
for k in ("hasjrel", "hasjabs", "hasconst", "hasname", "haslocal", "hasfree", "hascompare", "hasarg", "hasexc"):
    if hasattr(opcode, k):
        d[k] = sorted(getattr(opcode, k))
d["cmp_op"] = list(opcode.cmp_op)
caches = getattr(opcode, "_inline_cache_entries", None)
if caches is not None:
    if isinstance(caches, dict):
        d["caches"] = {k: v for k, v in caches.items() if v}
    else:
        d["caches"] = {opcode.opname[i]: n for i, n in enumerate(caches) if n}
try:
    import importlib.util
    d["magic"] = int.from_bytes(importlib.util.MAGIC_NUMBER[:2], "little")
except Exception:
    import imp, struct
    d["magic"] = struct.unpack("<H", imp.get_magic()[:2])[0]
json.dump(d, sys.stdout, indent=1, sort_keys=True)
