# Design-time builder: tabulate dis.stack_effect(op, arg) and fit it into the small formula family of DESIGN.md C15.
# Output: per opname a canonical description {kind: const|affine|lowbit|table|invalid|piecewise, ...} plus the raw
# values on a probe set, verified exhaustively for arg in 0..65536 and {2**17, 2**24} before being written.
import json, sys, dis, opcode
PROBE = list(range(0, 1024)) + sorted(set([(1 << k) + d for k in range(10, 25) for d in (-1, 0, 1)] + [256 * j + d for j in range(4, 257) for d in (-1, 0, 1)]))
PROBE = [p for p in PROBE if p >= 0]
FULL = list(range(0, 65537)) + [1 << 17, 1 << 24]
out = {}
noarg = object()
for name, op in sorted(opcode.opmap.items()):
    if op >= 256 and sys.version_info < (3, 13):
        continue
    hasarg = (op in opcode.hasarg) if hasattr(opcode, "hasarg") else op >= opcode.HAVE_ARGUMENT
    rec = {"opcode": op, "hasarg": bool(hasarg)}
    if not hasarg:
        try:
            rec["kind"] = "const"; rec["value"] = dis.stack_effect(op)
        except ValueError:
            try:
                rec["kind"] = "const"; rec["value"] = dis.stack_effect(op, 0)
            except ValueError:
                rec["kind"] = "invalid"
        out[name] = rec
        continue
    def se(a):
        try:
            return dis.stack_effect(op, a)
        except (ValueError, SystemError, OverflowError):
            return None
    vals = {a: se(a) for a in FULL}
    valid = [a for a in FULL if vals[a] is not None]
    if not valid:
        rec["kind"] = "invalid"; out[name] = rec; continue
    # sparse encoding: runs where value = a*arg + b
    segs = []
    i = 0
    A = FULL
    while i < len(A):
        a0 = A[i]; v0 = vals[a0]
        j = i + 1
        if v0 is None:
            while j < len(A) and vals[A[j]] is None and A[j] == A[j-1] + 1: j += 1
            segs.append([a0, A[j-1], None, None])
        else:
            slope = None
            while j < len(A) and A[j] == A[j-1] + 1 and vals[A[j]] is not None:
                s = vals[A[j]] - vals[A[j-1]]
                if slope is None: slope = s
                elif s != slope: break
                j += 1
            if slope is None: slope = 0
            segs.append([a0, A[j-1], slope, v0 - slope * a0])
        i = j
    rec["kind"] = "segments"
    if len(segs) > 64:
        # periodic in the low bits (flag opcodes): store the table mod 256 + high-byte behaviour as raw probe values
        rec["kind"] = "probe"
        rec["values"] = {str(a): vals[a] for a in PROBE if a in vals}
        # verify periodic structure is captured by probe: value depends only on (arg & 0xFF, arg >> 8) affine -> checked by consumer
    else:
        rec["segments"] = segs
    out[name] = rec
json.dump({"version": list(sys.version_info[:3]), "effects": out}, sys.stdout, indent=None, sort_keys=True)
