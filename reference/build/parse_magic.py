# Design-time builder: CPython's own magic-number registry = the comment table of Lib/importlib/_bootstrap_external.py
# (3.13.0: covers 1.5 ... 3.13) + 2.7's import.c table is subsumed by it.  Output: magic_registry.json
import json, re, sys, glob, subprocess
src = open("/root/.pyenv/versions/3.13.0/lib/python3.13/importlib/_bootstrap_external.py").read()
rows = []
for line in src.splitlines():
    m = re.match(r"#     Python (\d)\.(\d+)([a-z0-9.]*):?\s+(\d+)\s*(\(.*)?$", line)
    if m:
        rows.append({"magic": int(m.group(4)), "major": int(m.group(1)), "minor": int(m.group(2)), "tag": m.group(3), "comment": (m.group(5) or "").strip()})
# the final magic of each release line = MAGIC_NUMBER of the installed interpreter (what that release really writes)
writes = {}
for py in sorted(glob.glob("/root/.pyenv/versions/*/bin/python")):
    out = subprocess.check_output([py, "-c", "import sys\ntry:\n import importlib.util as u; m=u.MAGIC_NUMBER\nexcept Exception:\n import imp; m=imp.get_magic()\nimport struct; print('%d.%d.%d %d' % (sys.version_info[:3] + (struct.unpack('<H', m[:2])[0],)))"]).decode().split()
    writes[out[0]] = int(out[1])
# release -> magic for final releases, from the registry: the last row of each major.minor is what x.y final writes
# (3.5.0/3.5.1 wrote 3350; the registry's own row says 3.5.2 bumped to 3351: recorded explicitly)
final = {}
for r in rows:
    final["%d.%d" % (r["major"], r["minor"])] = r["magic"]
json.dump({"source": "CPython 3.13.0 Lib/importlib/_bootstrap_external.py comment table; MAGIC_NUMBER of installed interpreters",
           "rows": rows, "last_row_per_minor": final, "interpreter_writes": writes,
           "release_exceptions": {"3.5.0": 3350, "3.5.1": 3350},
           "minor_alternatives": {"3.5": [3350, 3351]}}, sys.stdout, indent=1, sort_keys=True)
