# -*- coding: utf-8 -*-
"""Design-time: run the table-driven reference reader over every .pyc shipped in /repo/test*.  A full parse to
EOF validates code_layout() and the header spec for that file's version (NOT part of any check)."""
import glob, struct, sys, collections
sys.path.insert(0, "/verif/reference/build")
import validate_marshal as R

# magic -> (major, minor): CPython registry knowledge (independent of xdis)
def version_of(m):
    table = {39170: (1,0), 39171: (1,1), 11913: (1,3), 5892: (1,4), 20121: (1,5), 50428: (1,6), 50823: (2,0), 60202: (2,1), 60717: (2,2),
             62011: (2,3), 62021: (2,3), 62041: (2,4), 62051: (2,4), 62061: (2,4), 62131: (2,5), 62151: (2,6), 62161: (2,6), 62211: (2,7), 62218: (2,7)}
    if m in table: return table[m]
    if 3000 <= m <= 3131: return (3,0)
    if 3141 <= m <= 3151: return (3,1)
    if 3160 <= m <= 3180: return (3,2)
    if 3190 <= m <= 3230: return (3,3)
    if 3250 <= m <= 3310: return (3,4)
    if 3320 <= m <= 3351: return (3,5)
    if 3360 <= m <= 3379: return (3,6)
    if 3390 <= m <= 3394: return (3,7)
    if 3400 <= m <= 3413: return (3,8)
    if 3420 <= m <= 3425: return (3,9)
    if 3430 <= m <= 3439: return (3,10)
    if 3450 <= m <= 3495: return (3,11)
    if 3500 <= m <= 3531: return (3,12)
    if 3550 <= m <= 3571: return (3,13)
    return None

res = collections.defaultdict(lambda: [0, 0, []])
for f in sorted(glob.glob("/repo/**/*.py[co]", recursive=True)):
    b = open(f, "rb").read()
    m = struct.unpack("<H", b[:2])[0]
    v = version_of(m)
    if v is None:
        res[("?", m)][1] += 1; continue
    # header
    if v >= (3, 7):
        flags = struct.unpack("<I", b[4:8])[0]; off = 16
    elif v >= (3, 3) and m >= 3210: off = 12
    else: off = 8
    r = R.Reader(b[off:], v)
    # 3.8 alphas before posonly (3400, 3401) use the 3.7 layout
    if m in (3400, 3401): r.v = (3, 7)
    try:
        o = r.obj()
        ok = isinstance(o, R.Code) and r.p == len(b) - off
        why = "" if ok else "consumed %d of %d" % (r.p, len(b) - off)
    except Exception as e:
        ok = False; why = "%s %s" % (type(e).__name__, e)
    k = (v, m)
    res[k][0 if ok else 1] += 1
    if not ok: res[k][2].append((f.replace("/repo/", ""), why))
for k in sorted(res, key=str):
    print(k, "ok", res[k][0], "bad", res[k][1], res[k][2][:2])
