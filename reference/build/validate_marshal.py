# -*- coding: utf-8 -*-
"""Design-time validation of the hand-written marshal spec (NOT part of any check).
A table-driven reference reader: the only knowledge it has is MARSHAL_SPEC and CODE_LAYOUT below.
Run under any interpreter: parses that interpreter's own marshal.dumps output and compares with the value."""
from __future__ import print_function
import struct, sys, marshal

PY3 = sys.version_info[0] >= 3
FLAG_REF = 0x80

# code -> (name, layout, kind, ref)   layout items: ("u8"|"i32"|"i64"|"f64", ) reads; see reader below
#   ref: "never" (singletons / refs), "leaf" (register after construction), "reserve" (slot reserved before children)
MARSHAL_SPEC = {
    "0": ("NULL", "none", "null", "never"),
    "N": ("NONE", "none", "None", "never"),
    "F": ("FALSE", "none", "False", "never"),
    "T": ("TRUE", "none", "True", "never"),
    "S": ("STOPITER", "none", "StopIteration", "never"),
    ".": ("ELLIPSIS", "none", "Ellipsis", "never"),
    "i": ("INT", "i32", "int", "leaf"),
    "I": ("INT64", "i64", "int", "leaf"),            # written only by 64-bit py2 (<3.4 readers accept)
    "f": ("FLOAT", "u8 n; ascii[n]", "float", "leaf"),  # marshal version 0/1
    "g": ("BINARY_FLOAT", "f64", "float", "leaf"),      # marshal version >= 2
    "x": ("COMPLEX", "u8 n; ascii[n]; u8 m; ascii[m]", "complex", "leaf"),
    "y": ("BINARY_COMPLEX", "f64; f64", "complex", "leaf"),
    "l": ("LONG", "i32 n; i16[|n|] 15-bit digits little-endian, sign of n", "int", "leaf"),
    "s": ("STRING", "i32 n; bytes[n]", "bytes(py3)/str(py2)", "leaf"),
    "t": ("INTERNED", "i32 n; bytes[n]", "py2: interned str appended to string table; py3(v3+): utf8 text, interned", "leaf"),
    "R": ("STRINGREF", "i32 index into interned-string table", "str", "never"),
    "u": ("UNICODE", "i32 n; utf8[n] (py3: errors=surrogatepass)", "text", "leaf"),
    "a": ("ASCII", "i32 n; ascii[n]", "text", "leaf"),
    "A": ("ASCII_INTERNED", "i32 n; ascii[n]", "text", "leaf"),
    "z": ("SHORT_ASCII", "u8 n; ascii[n]", "text", "leaf"),
    "Z": ("SHORT_ASCII_INTERNED", "u8 n; ascii[n]", "text", "leaf"),
    "(": ("TUPLE", "i32 n; obj[n]", "tuple", "reserve"),
    ")": ("SMALL_TUPLE", "u8 n; obj[n]", "tuple", "reserve"),
    "[": ("LIST", "i32 n; obj[n]", "list", "reserve"),
    "{": ("DICT", "(key obj, value obj)* until key is NULL", "dict", "reserve"),
    "<": ("SET", "i32 n; obj[n]", "set", "reserve*"),       # CPython: set built, then registered (slot reserved via idx)
    ">": ("FROZENSET", "i32 n; obj[n]", "frozenset", "reserve*"),
    "c": ("CODE", "per CODE_LAYOUT", "code", "reserve"),
    "C": ("CODE_OLD", "per CODE_LAYOUT (1.0-1.2)", "code", "reserve"),
    "r": ("REF", "i32 index into reference table", "object", "never"),
    "?": ("UNKNOWN", "-", "error", "never"),
}

# field: (name, kind) kind in i16|i32|obj
def code_layout(v):
    """v = (major, minor) of the *producing* Python."""
    L = []
    w = "i32" if v >= (2, 3) else "i16"
    if v >= (1, 3): L.append(("co_argcount", w))
    if v >= (3, 8): L.append(("co_posonlyargcount", w))
    if v >= (3, 0): L.append(("co_kwonlyargcount", w))
    if (1, 3) <= v < (3, 11): L.append(("co_nlocals", w))
    if v >= (1, 5): L.append(("co_stacksize", w))
    if v >= (1, 3): L.append(("co_flags", w))
    L += [("co_code", "obj"), ("co_consts", "obj"), ("co_names", "obj")]
    if v >= (3, 11):
        L += [("co_localsplusnames", "obj"), ("co_localspluskinds", "obj")]
    else:
        if v >= (1, 3): L.append(("co_varnames", "obj"))
        if v >= (2, 1): L += [("co_freevars", "obj"), ("co_cellvars", "obj")]
    L += [("co_filename", "obj"), ("co_name", "obj")]
    if v >= (3, 11): L.append(("co_qualname", "obj"))
    if v >= (1, 5): L += [("co_firstlineno", w), ("co_lnotab/linetable", "obj")]
    if v >= (3, 11): L.append(("co_exceptiontable", "obj"))
    return L


class NULLT(object):
    pass


NULL = NULLT()


class Code(object):
    def __init__(self, d):
        self.__dict__.update(d)


class Reader(object):
    def __init__(self, data, pyver):
        self.b = data; self.p = 0; self.refs = []; self.strs = []; self.v = pyver

    def rd(self, n):
        s = self.b[self.p:self.p + n]
        assert len(s) == n, "EOF"
        self.p += n
        return s

    def u8(self): return struct.unpack("<B", self.rd(1))[0]
    def i16(self): return struct.unpack("<h", self.rd(2))[0]
    def i32(self): return struct.unpack("<i", self.rd(4))[0]
    def i64(self): return struct.unpack("<q", self.rd(8))[0]
    def f64(self): return struct.unpack("<d", self.rd(8))[0]

    def obj(self):
        c = self.u8()
        flag = c & FLAG_REF
        t = chr(c & 0x7F)
        assert t in MARSHAL_SPEC, "unknown type %r" % t
        refkind = MARSHAL_SPEC[t][3]
        if t == "0": return NULL
        if t == "N": return None
        if t == "F": return False
        if t == "T": return True
        if t == "S": return StopIteration
        if t == ".": return Ellipsis
        if t == "r": return self.refs[self.i32()]
        if t == "R": return self.strs[self.i32()]
        idx = None
        if flag and refkind.startswith("reserve"):
            idx = len(self.refs); self.refs.append(None)
        if t == "i": v = self.i32()
        elif t == "I": v = self.i64()
        elif t == "f": v = float(self.rd(self.u8()))
        elif t == "g": v = self.f64()
        elif t == "x": v = complex(float(self.rd(self.u8())), float(self.rd(self.u8())))
        elif t == "y": v = complex(self.f64(), self.f64())
        elif t == "l":
            n = self.i32(); v = 0
            for k in range(abs(n)): v += self.i16() << (15 * k)
            if n < 0: v = -v
        elif t == "s": v = self.rd(self.i32())
        elif t == "t":
            v = self.rd(self.i32())
            if self.v >= (3, 0): v = v.decode("utf-8", "surrogatepass")
            else: self.strs.append(v)
        elif t == "u":
            raw = self.rd(self.i32())
            v = raw.decode("utf-8", "surrogatepass") if PY3 else raw.decode("utf-8")
        elif t in "aA": v = self.rd(self.i32()).decode("ascii")
        elif t in "zZ": v = self.rd(self.u8()).decode("ascii")
        elif t in "()":
            n = self.i32() if t == "(" else self.u8()
            v = tuple(self.obj() for _ in range(n))
        elif t == "[":
            n = self.i32(); v = [self.obj() for _ in range(n)]
        elif t == "{":
            v = {}
            while True:
                k = self.obj()
                if k is NULL: break
                v[k] = self.obj()
        elif t in "<>":
            n = self.i32(); items = [self.obj() for _ in range(n)]
            v = set(items) if t == "<" else frozenset(items)
        elif t in "cC":
            d = {}
            for name, kind in code_layout(self.v):
                d[name] = getattr(self, kind)() if kind != "obj" else self.obj()
            v = Code(d)
        else:
            raise AssertionError(t)
        if flag:
            if idx is not None: self.refs[idx] = v
            else: self.refs.append(v)
        return v


def same(a, b):
    if isinstance(b, float) and isinstance(a, float):
        return struct.pack("<d", a) == struct.pack("<d", b)
    if isinstance(b, complex) and isinstance(a, complex):
        return same(a.real, b.real) and same(a.imag, b.imag)
    if type(a) != type(b): return False
    if isinstance(b, (tuple, list)):
        return len(a) == len(b) and all(same(x, y) for x, y in zip(a, b))
    if isinstance(b, dict):
        return len(a) == len(b) and all(k in a and same(a[k], b[k]) for k in b)
    if isinstance(b, (set, frozenset)):
        return a == b
    return a == b


def code_same(c, co):
    for name, kind in code_layout(sys.version_info[:2]):
        v = getattr(c, name)
        if name == "co_lnotab/linetable":
            exp = co.co_linetable if hasattr(co, "co_linetable") and sys.version_info[:2] >= (3, 10) else co.co_lnotab
        elif name == "co_localsplusnames":
            continue
        elif name == "co_localspluskinds":
            continue
        else:
            exp = getattr(co, name)
        if name == "co_consts":
            if len(v) != len(exp): return name
            for x, y in zip(v, exp):
                if isinstance(x, Code):
                    r = code_same(x, y)
                    if r: return name + "/" + r
                elif not same(x, y): return name
        elif not same(v, exp):
            return name
    return None


if __name__ == "__main__":
    inf = float("inf"); nan = float("nan")
    big = tuple(range(300))
    s1 = "shared-string-%d" % 7
    vals = [None, True, False, Ellipsis, StopIteration, 0, 1, -1, 2**31 - 1, -2**31, 2**31, 2**40, -2**63, 2**63 - 1, 2**100, -2**100,
            0.0, -0.0, 1.5, inf, -inf, nan, 1e308, 5e-324, 1 + 2j, complex(-0.0, nan),
            b"", b"abc\x00\xff", "", "abc", u"\xe9", u"\u20ac", u"\U0001F600", "x" * 300,
            (), (1,), big, (big, big), [1, [2, [3]]], {None: 1, 2: None, "k": (1, 2)}, {}, set([1, 2]), frozenset([1, "a"]), frozenset(),
            (s1, s1, (s1,)), [s1, s1], {"a": s1, "b": s1}]
    if PY3:
        vals.append("\udc80")
    maxv = marshal.version
    bad = 0; n = 0
    for ver in range(0, maxv + 1):
        for v in vals:
            try:
                data = marshal.dumps(v, ver)
            except ValueError:
                continue
            r = Reader(data, sys.version_info[:2])
            try:
                got = r.obj()
                ok = same(got, v) and r.p == len(data)
                if not PY3 and isinstance(v, str):
                    ok = (got == v) and r.p == len(data)
            except Exception as e:
                ok = False; got = "EXC %s %s" % (type(e).__name__, e)
            n += 1
            if not ok:
                bad += 1; print("MISMATCH ver", ver, repr(v)[:40], repr(got)[:60], repr(data[:24]))
    # code objects
    import io; src = io.open(__file__, encoding="utf-8").read().replace(u"# -*- coding: utf-8 -*-", u"")
    co = compile(src, "refmarshal.py", "exec")
    for ver in range(2 if PY3 else 0, maxv + 1):
        data = marshal.dumps(co, ver)
        r = Reader(data, sys.version_info[:2])
        try:
            c = r.obj()
            res = code_same(c, co)
            if res or r.p != len(data):
                bad += 1; print("CODE MISMATCH ver", ver, res, r.p, len(data))
        except Exception as e:
            bad += 1; print("CODE EXC ver", ver, type(e).__name__, e)
        n += 1
    print(sys.version_info[:3], "cases", n, "bad", bad, "marshal.version", maxv)
