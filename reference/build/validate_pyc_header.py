# Design-time validation of pyc_header.json: compile a module with every installed interpreter in every invalidation
# mode and check the header against the layout rules.
import glob, subprocess, struct, os, tempfile, json
spec = json.load(open(os.path.join(os.path.dirname(__file__), "..", "pyc_header.json")))
src = tempfile.mktemp(suffix=".py"); open(src, "w").write("x = 1\n")
ok = bad = 0
for py in sorted(glob.glob("/root/.pyenv/versions/3.*/bin/python")):
    ver = tuple(int(x) for x in py.split("/")[-3].split(".")[:2])
    modes = ["TIMESTAMP"] + (["CHECKED_HASH", "UNCHECKED_HASH"] if ver >= (3, 7) else [])
    for mode in modes:
        out = tempfile.mktemp(suffix=".pyc")
        if ver >= (3, 7):
            code = "import py_compile; py_compile.compile(%r, cfile=%r, invalidation_mode=py_compile.PycInvalidationMode.%s)" % (src, out, mode)
        else:
            code = "import py_compile; py_compile.compile(%r, cfile=%r)" % (src, out)
        subprocess.check_call([py, "-c", code])
        data = open(out, "rb").read(); os.unlink(out)
        magic = struct.unpack("<H", data[:2])[0]
        lay = "ts" if magic < 3210 else ("ts_size" if magic < 3392 else "pep552")
        if lay == "pep552":
            flags = struct.unpack("<I", data[4:8])[0]
            want = {"TIMESTAMP": 0, "CHECKED_HASH": 3, "UNCHECKED_HASH": 1}[mode]
            good = flags == want and data[16:17] in (b"\xe3", b"c")
            if flags & 1: good = good and len(data) > 16
            else: good = good and struct.unpack("<I", data[12:16])[0] == 6
        else:
            good = struct.unpack("<I", data[8:12])[0] == 6 and data[12:13] in (b"\xe3", b"c")
        print(py.split("/")[-3], mode, magic, lay, "OK" if good else "BAD"); ok += good; bad += (not good)
print("ok", ok, "bad", bad)
