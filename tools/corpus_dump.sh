#!/bin/sh
# Design-time regression harness (NOT a check): disassemble every .pyc of a tree's corpus with that tree's xdis and
# write one md5 per (file, format) to $2.  usage: corpus_dump.sh <repo-tree> <outfile>
TREE="$1"; OUT="$2"
cd "$TREE" || exit 1
find test pytest test_unit -name '*.py[co]' 2>/dev/null | sort | xargs -P 16 -I{} sh -c 'for f in classic extended; do h=$(PYTHONPATH='"$TREE"' /venv/bin/python -m xdis.bin.pydisasm -F $f "{}" 2>&1 | sed -e "s/ at 0x[0-9a-f]*//g" | grep -v "^# Disassembled from\|^# pydisasm version\|DeprecationWarning\|click.__version__" | md5sum | cut -c1-12); echo "{} $f $h"; done' | sort > "$OUT"
wc -l "$OUT"
