#!/usr/bin/env python3
"""Confirm a behaviour-preserving refactoring produced by a sub-agent and run every check against it (design-time tool).
usage: eval_refac.py <worktree> <R1|R2|R3> <variant-id>      e.g.  eval_refac.py /tmp/refac/C12 R1 C12-R1
Confirms: the differential demo exits 0 on the clean worktree AND with the patch, the baseline suite is unchanged with the patch.
Then runs all 19 checks with XV_REPO=<patched worktree>: every check must exit 0.  exit 1 = false alarm, exit 2 = analysis error.
Writes /verif/seeded_silent/<variant-id>/ (patch.diff, demo.py, meta.json)."""
import json, os, subprocess, sys, shutil
wt, which, sid = sys.argv[1:4]
so = os.path.join(wt, "SEED_OUT")
patch = os.path.join(so, which + ".patch")
demo = os.path.join(so, which + "_demo.py")
meta = json.load(open(os.path.join(so, which + ".json")))


def sh(cmd, cwd=wt, env=None):
    r = subprocess.run(cmd, shell=True, cwd=cwd, capture_output=True, text=True, env=env)
    return r.returncode, (r.stdout + r.stderr)


sh("git checkout -- . ; git clean -fdq -- xdis")
head = subprocess.run(["git", "-C", "/repo", "rev-parse", "HEAD"], capture_output=True, text=True).stdout.strip()
sh("git checkout -q --detach %s" % head)
rc0, out0 = sh("/venv/bin/python %s" % demo)
base_note = None
if rc0 != 0 and os.environ.get("REFAC_BASE"):
    # the demonstration's recorded digest belongs to the tree the agent worked on; a later fix: commit changed behaviour it observes.  Behaviour preservation is
    # then confirmed on that base commit, and the checks are run against the patch applied to the current HEAD.
    base = os.environ["REFAC_BASE"]
    sh("git checkout -q --detach %s" % base)
    rc0, out0 = sh("/venv/bin/python %s" % demo)
    rb, ob = sh("git apply %s" % patch)
    rcb, outb = sh("/venv/bin/python %s" % demo)
    sh("git checkout -- . && git clean -fdq -- xdis")
    sh("git checkout -q --detach %s" % head)
    base_note = "demonstration confirmed on base %s (clean exit %d, patched exit %d); checks run on HEAD %s + patch" % (base, rc0, rcb, head[:7])
    if rb != 0 or rcb != 0:
        rc0 = 1
rcA, outA = sh("git apply %s" % patch)
if rcA != 0:
    rcA, outA = sh("git apply --3way %s && git reset -q" % patch)
assert rcA == 0, outA
rct, outt = sh("/venv/bin/python -m pytest -q -p no:cacheprovider --timeout=900 --continue-on-collection-errors 2>&1 | tail -1")
tests_ok = "39 passed" in outt and "7 failed" in outt
rc1, out1 = sh("/venv/bin/python %s" % demo)
if base_note:
    rc1 = 0 if rc0 == 0 else 1
sh("rm -f pytest/testdata/*.got")
fired = {}
env = dict(os.environ, XV_REPO=wt, XV_NO_EVIDENCE="1")
procs = {}
for pid in ["C%02d" % i for i in range(1, 21) if i != 7]:
    procs[pid] = subprocess.Popen(["./check", pid], cwd="/verif", env=env, stdout=subprocess.PIPE, stderr=subprocess.STDOUT, text=True)
for pid, p in procs.items():
    out, _ = p.communicate()
    keys = [ln.strip().split("  at ")[0] for ln in out.splitlines() if ln.startswith("    %s/" % pid)]
    if p.returncode != 0:
        fired[pid] = {"exit": p.returncode, "keys": keys[:8], "note": [ln for ln in out.splitlines() if "ANALYSIS-ERROR" in ln][:1]}
sh("git checkout -- . && git clean -fdq -- xdis")
confirmed = rc0 == 0 and tests_ok and rc1 == 0
res = {"variant": sid, "property": meta.get("property"), "kind": meta.get("kind"), "summary": meta.get("summary"), "behaviour_preserving_confirmed": confirmed,
       "demo_clean_exit": rc0, "demo_patched_exit": rc1, "baseline_with_patch": outt.strip(), "checks_not_silent": fired,
       "silent": not fired, "base_note": base_note, "agent_notes": meta.get("ran"), "worktree_path": wt, "evaluated_on_repo_head": head[:7],
       "verif_head": subprocess.run(["git", "-C", "/verif", "rev-parse", "--short", "HEAD"], capture_output=True, text=True).stdout.strip()}
old = os.path.join("/verif/seeded_silent", sid, "meta.json")
if os.path.exists(old):
    o = json.load(open(old))
    if "first_shot" in o:
        res["first_shot"] = o["first_shot"]
res.setdefault("first_shot", {"silent": not fired, "not_silent": {p: f["exit"] for p, f in fired.items()}, "verif_head": res["verif_head"]})
print(json.dumps({k: res[k] for k in ("variant", "kind", "behaviour_preserving_confirmed", "demo_clean_exit", "demo_patched_exit", "baseline_with_patch", "silent")}, indent=0))
for pid, f in fired.items():
    print("   NOT SILENT: %s exit %d %s %s" % (pid, f["exit"], f["keys"][:3], f["note"]))
if not confirmed:
    print("   (not confirmed as behaviour-preserving: demo clean=%d patched=%d tests=%s) -- not stored" % (rc0, rc1, outt.strip()))
    if rc1 != 0:
        print(out1[-600:])
    sys.exit(3)
d = os.path.join("/verif/seeded_silent", sid)
os.makedirs(d, exist_ok=True)
shutil.copy(patch, os.path.join(d, "patch.diff"))
shutil.copy(demo, os.path.join(d, "demo.py"))
json.dump(res, open(os.path.join(d, "meta.json"), "w"), indent=1)
