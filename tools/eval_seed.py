#!/usr/bin/env python3
"""Confirm a seeded change produced by a sub-agent and run the checks against it (design-time tool).
usage: eval_seed.py <worktree> <A|B> <seed-id>   e.g.  eval_seed.py /tmp/seed/C01 A C01-A
Confirms: demo passes on the clean worktree, the 39 baseline tests pass with the patch, the demo fails with the patch.
Then runs every check against the patched worktree (XV_REPO) and records which fire.  Writes /verif/seeded/<seed-id>/."""
import json, os, subprocess, sys, shutil
wt, which, sid = sys.argv[1:4]
so = os.path.join(wt, "SEED_OUT")
patch = os.path.join(so, which + ".patch")
demo = os.path.join(so, which + "_demo.py")
meta = json.load(open(os.path.join(so, which + ".json")))
def sh(cmd, cwd=wt, env=None):
    r = subprocess.run(cmd, shell=True, cwd=cwd, capture_output=True, text=True, env=env)
    return r.returncode, (r.stdout + r.stderr)
sh("git checkout -- .")
head = subprocess.run(["git", "-C", "/repo", "rev-parse", "HEAD"], capture_output=True, text=True).stdout.strip()
sh("git checkout -q --detach %s" % head)  # evaluate on top of /repo's current HEAD (SEED_OUT is untracked and stays)
rc0, out0 = sh("/venv/bin/python %s" % demo)
if os.path.basename(demo).startswith("test_") or "def test_" in open(demo).read() and "__main__" not in open(demo).read():
    rc0, out0 = sh("/venv/bin/python -m pytest -q -p no:cacheprovider %s" % demo)
rcA, outA = sh("git apply %s" % patch)
if rcA != 0:
    rcA, outA = sh("git apply --3way %s && git reset -q" % patch)
assert rcA == 0, outA
rct, outt = sh("/venv/bin/python -m pytest -q -p no:cacheprovider --timeout=900 --continue-on-collection-errors 2>&1 | tail -1")
tests_ok = "39 passed" in outt and "7 failed" in outt
rc1, out1 = sh("/venv/bin/python %s" % demo)
if "def test_" in open(demo).read() and "__main__" not in open(demo).read():
    rc1, out1 = sh("/venv/bin/python -m pytest -q -p no:cacheprovider %s" % demo)
fired = {}
env = dict(os.environ, XV_REPO=wt, XV_NO_EVIDENCE="1")
procs = {}
for pid in ["C%02d" % i for i in range(1, 21) if i != 7]:
    procs[pid] = subprocess.Popen(["./check", pid], cwd="/verif", env=env, stdout=subprocess.PIPE, stderr=subprocess.STDOUT, text=True)
for pid, p in procs.items():
    out, _ = p.communicate()
    keys = [ln.strip().split("  at ")[0] for ln in out.splitlines() if ln.startswith("    %s/" % pid)]
    if p.returncode != 0:
        fired[pid] = {"exit": p.returncode, "keys": keys[:8], "note": [ln for ln in out.splitlines() if "ANALYSIS-ERROR" in ln][:1]}
sh("git checkout -- .")
confirmed = rc0 == 0 and tests_ok and rc1 != 0
res = {"seed": sid, "property": meta.get("property"), "summary": meta.get("summary"), "what_it_needs_to_manifest": meta.get("what_it_needs_to_manifest"),
       "confirmed": confirmed, "demo_clean_exit": rc0, "demo_patched_exit": rc1, "baseline_with_patch": outt.strip(), "checks_fired": fired,
       "detected_by_target_property": meta.get("property") in fired and fired[meta.get("property")]["exit"] == 1,
       "ran": ["cd %s && /venv/bin/python SEED_OUT/%s_demo.py (clean: exit %d; patched: exit %d)" % (wt, which, rc0, rc1),
               "baseline suite with the patch: %s" % outt.strip(), "XV_REPO=<patched worktree> ./check Cxx for all 19 checks"],
       "agent_notes": meta.get("ran"), "worktree_path": wt, "evaluated_on_repo_head": head[:7],
       "verif_head": subprocess.run(["git", "-C", "/verif", "rev-parse", "--short", "HEAD"], capture_output=True, text=True).stdout.strip()}
old = os.path.join("/verif/seeded", sid, "meta.json")
if os.path.exists(old):
    o = json.load(open(old))
    for k in ("round", "first_shot"):
        if k in o:
            res[k] = o[k]
if len(sys.argv) > 4:
    res["round"] = int(sys.argv[4])
res.setdefault("first_shot", {"detected_by_target_property": res["detected_by_target_property"], "detected_by": sorted(p for p, f in fired.items() if f["exit"] == 1),
                              "verif_head": res["verif_head"]})
print(json.dumps({k: res[k] for k in ("seed", "confirmed", "demo_clean_exit", "demo_patched_exit", "baseline_with_patch", "detected_by_target_property")}, indent=0))
for pid, f in fired.items():
    print("   fired:", pid, f["exit"], f["keys"][:3], f["note"])
if confirmed:
    d = os.path.join("/verif/seeded", sid)
    os.makedirs(d, exist_ok=True)
    shutil.copy(patch, os.path.join(d, "patch.diff"))
    shutil.copy(demo, os.path.join(d, "demo.py"))
    json.dump(res, open(os.path.join(d, "meta.json"), "w"), indent=1)
