#!/usr/bin/env python3
"""Regenerate /verif/MANIFEST.json from the per-property metadata below (claimed <=> a rules/cNN.py exists and is listed
in CLAIMS).  Run after adding or dropping a check:  python3 tools/gen_manifest.py"""
import json
import os

HERE = os.path.dirname(os.path.dirname(os.path.abspath(__file__)))

# property id -> (technique, level text, level note, design ref)
CLAIMS = {}

NOT_APPLICABLE = {
    "C07": "Host/loader-path independence is value equality of results across interpreters and across built-in marshal vs "
           "xdis's reader; its statically visible part is exactly C01/C05/C17, and the only remaining candidate rule (no "
           "branch on a host symbol) is not a necessary condition (compatibility shims vary by host and preserve behaviour), "
           "so it would alarm on correct code. DESIGN.md section 8.",
}

PENDING = "check not built yet in this commit (DESIGN.md section 8 build order); not claimed rather than claimed with a weaker check"

ALL = ["C%02d" % i for i in range(1, 21)]


def load_claims():
    p = os.path.join(HERE, "tools", "claims.json")
    if os.path.exists(p):
        with open(p) as f:
            return json.load(f)
    return {}


def main():
    claims = load_claims()
    checks = []
    na = []
    for pid in ALL:
        if pid in claims and os.path.exists(os.path.join(HERE, "xv", "rules", "c%s.py" % pid[1:])):
            c = claims[pid]
            checks.append({
                "property_id": pid,
                "quick_cmd": "./check %s --tier quick" % pid,
                "thorough_cmd": "./check %s --tier thorough" % pid,
                "evidence_file": "/verif/evidence/%s.json" % pid,
                "replay_cmd_template": "./check %s --replay {path}" % pid,
                "engine": "xv",
                "level_claimed": {"category": "other", "text": c["level_text"], "design_ref": c.get("design_ref", "DESIGN.md section 4 " + pid)},
                "level_note": c["level_note"],
                "technique": c["technique"],
            })
        else:
            na.append({"property_id": pid, "reason": NOT_APPLICABLE.get(pid, claims.get(pid, {}).get("na_reason", PENDING))})
    man = {
        "version": 1,
        "setup_cmd": "/venv/bin/python -m compileall -q xv >/dev/null 2>&1 || python3 -m compileall -q xv >/dev/null 2>&1 || true",
        "hooks": {
            "guard": "XDIS_VERIF",
            "enable": "none needed: the checks read /repo's source with ast/symtable and never build, import or run it; no hook commits exist",
            "baseline_off_cmd": "cd /repo && /venv/bin/python -m pytest -ra -q -p no:cacheprovider --timeout=900 --continue-on-collection-errors",
            "source_commits": [],
            "add_only": True,
        },
        "engines": [{
            "name": "xv",
            "path": "/verif/xv",
            "serves_properties": [c["property_id"] for c in checks],
            "kind_free_text": "repo-specific static analysis over the Python syntax tree (stdlib ast + symtable): resolved call graph, "
                              "statement CFG path rules, def-use chains, constant folding of the declarative table modules, and "
                              "configuration specialisation with symbolic value numbering; compares what the source denotes with "
                              "frozen reference specifications of the formats",
        }],
        "checks": checks,
        "not_applicable": na,
        "notes": "Static analysis only. Every check re-parses /repo's working tree on each run, never imports xdis. Exit 0 = all "
                 "obligations discharged or listed in known_findings.json (printed as KNOWN-FINDING); exit 1 = VIOLATION; exit 2 = "
                 "ANALYSIS-ERROR (vanished anchor / unsupported construct / instance floor not met).",
    }
    with open(os.path.join(HERE, "MANIFEST.json"), "w") as f:
        json.dump(man, f, indent=1)
        f.write("\n")
    print("MANIFEST.json: %d checks, %d not_applicable" % (len(checks), len(na)))


if __name__ == "__main__":
    main()
