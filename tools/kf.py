#!/usr/bin/env python3
"""Maintain /verif/known_findings.json by hand-driven commands (never called by a check):
   tools/kf.py fixed <property> <commit> <what failed> [-- key ...]
   tools/kf.py known <property> <key> <what>"""
import json, sys, os
P = os.path.join(os.path.dirname(os.path.dirname(os.path.abspath(__file__))), "known_findings.json")
d = json.load(open(P))
cmd = sys.argv[1]
if cmd == "fixed":
    pid, commit, what = sys.argv[2:5]
    keys = sys.argv[6:] if len(sys.argv) > 5 and sys.argv[5] == "--" else []
    d["fixed"].append({"property": pid, "commit": commit, "what": what, "keys": keys, "line": "fixed: property=%s %s %s" % (pid, commit, what)})
elif cmd == "known":
    pid, key, what = sys.argv[2:5]
    if not any(f["key"] == key for f in d["findings"]):
        d["findings"].append({"property": pid, "key": key, "what": what})
json.dump(d, open(P, "w"), indent=1)
print(len(d["findings"]), "findings;", len(d["fixed"]), "fixed")
