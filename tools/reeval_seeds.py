#!/usr/bin/env python3
"""Re-run every check against every stored seeded change on top of /repo's *current* HEAD (design-time tool, never called by a check).

For each /verif/seeded/<id>/patch.diff: a scratch worktree of /repo (under $TMPDIR, removed afterwards) gets the patch applied,
all checks run with XV_REPO pointing at it, and the keys that fire *in addition to* the clean tree's are written to
meta.json["current_tree"] and to seeded/TABLE.md.   Usage: tools/reeval_seeds.py [seed-id ...] [--jobs N]"""
import json
import os
import shutil
import subprocess
import sys
import tempfile
from concurrent.futures import ThreadPoolExecutor

HERE = os.path.dirname(os.path.dirname(os.path.abspath(__file__)))
SEEDED = os.path.join(HERE, "seeded")
PIDS = subprocess.run([os.path.join(HERE, "check"), "--list"], capture_output=True, text=True).stdout.split()


def keys_of(out, pid):
    return sorted({ln.strip().split("  at ")[0] for ln in out.splitlines() if ln.startswith("    %s/" % pid)})


def run_checks(tree):
    env = dict(os.environ, XV_NO_EVIDENCE="1")
    if tree:
        env["XV_REPO"] = tree
    res = {}
    for pid in PIDS:
        r = subprocess.run([os.path.join(HERE, "check"), pid], capture_output=True, text=True, env=env)
        res[pid] = (r.returncode, keys_of(r.stdout, pid), [ln for ln in r.stdout.splitlines() if "ANALYSIS-ERROR" in ln][:1])
    return res


def one(seed):
    d = os.path.join(SEEDED, seed)
    patch = os.path.join(d, "patch.diff")
    tmp = tempfile.mkdtemp(prefix="reseed-")
    wt = os.path.join(tmp, "wt")
    out = {"seed": seed}
    try:
        subprocess.run(["git", "-C", "/repo", "worktree", "add", "--detach", "-q", wt, "HEAD"], check=True, capture_output=True)
        a = subprocess.run(["git", "-C", wt, "apply", "--3way", patch], capture_output=True, text=True)
        if a.returncode != 0:
            a = subprocess.run(["git", "-C", wt, "apply", patch], capture_output=True, text=True)
        if a.returncode != 0:
            out["applies"] = False
            out["why"] = (a.stderr or a.stdout)[-300:]
            return out
        out["applies"] = True
        out["checks"] = run_checks(wt)
    finally:
        subprocess.run(["git", "-C", "/repo", "worktree", "remove", "--force", wt], capture_output=True)
        shutil.rmtree(tmp, ignore_errors=True)
    return out



def write_table(head, vhead):
    """TABLE.md from the meta.json of *every* stored seed (its last evaluation), not only the ones evaluated in this run"""
    rows = []
    for seed in sorted(os.listdir(SEEDED)):
        mp = os.path.join(SEEDED, seed, "meta.json")
        if not os.path.exists(mp):
            continue
        meta = json.load(open(mp))
        cur = meta.get("current_tree", {})
        target = meta["property"]
        first = ""
        cf = cur.get("checks_fired", {})
        if target in cf and cf[target].get("keys"):
            first = cf[target]["keys"][0]
        fs = meta.get("first_shot")
        if meta.get("neutralised"):
            first = "(neutralised by a later fix: the demonstration passes with the patch; see meta.json)"
        rows.append((seed, target, meta.get("round", 1), "-" if fs is None else ("yes" if fs.get("detected_by_target_property") else "no (" + (",".join(fs.get("detected_by", [])) or "none") + ")"),
                     cur.get("applies"), cur.get("detected_by_target_property"), ",".join(cur.get("detected_by", [])), first, (meta.get("summary") or "")[:170]))
    with open(os.path.join(SEEDED, "TABLE.md"), "w") as f:
        f.write("# Seeded changes and the checks that report them\n\nLast re-evaluation by tools/reeval_seeds.py: repo HEAD %s, /verif %s.  `all checks that fire` lists the properties whose check "
                "exits 1 with a VIOLATION that is absent on the clean tree.  Round 1 seeds were used to strengthen the checks as they arrived; seeds of round 2 and later were first run against "
                "the checks as they stood (`first shot`: did the target property's check fire, and if not which checks did) and only then used to strengthen them.\n\n" % (head, vhead))
        f.write("| seed | breaks | round | first shot | applies | target check fires now | all checks that fire now | first key reported by the target check | change |\n|---|---|---|---|---|---|---|---|---|\n")
        for row in rows:
            f.write("| %s | %s | %s | %s | %s | %s | %s | `%s` | %s |\n" % tuple(str(x).replace("|", "\\|") for x in row))
    r2 = [r for r in rows if r[2] == 2]
    return rows, r2


def main(argv):
    jobs = 6
    if "--jobs" in argv:
        i = argv.index("--jobs")
        jobs = int(argv[i + 1])
        del argv[i:i + 2]
    seeds = argv or sorted(os.listdir(SEEDED))
    seeds = [s for s in seeds if os.path.isdir(os.path.join(SEEDED, s))]
    head = subprocess.run(["git", "-C", "/repo", "rev-parse", "--short", "HEAD"], capture_output=True, text=True).stdout.strip()
    vhead = subprocess.run(["git", "-C", HERE, "rev-parse", "--short", "HEAD"], capture_output=True, text=True).stdout.strip()
    clean = run_checks(None)
    base = {pid: set(k) for pid, (rc, k, err) in clean.items()}
    with ThreadPoolExecutor(max_workers=jobs) as ex:
        results = list(ex.map(one, seeds))
    rows = []
    for r in results:
        seed = r["seed"]
        mp = os.path.join(SEEDED, seed, "meta.json")
        meta = json.load(open(mp))
        target = meta["property"]
        cur = {"repo_head": head, "verif_head": vhead, "applies": r["applies"]}
        if r["applies"]:
            fired = {}
            for pid, (rc, keys, err) in r["checks"].items():
                new = [k for k in keys if k not in base[pid]]
                if rc == 2:
                    fired[pid] = {"exit": 2, "analysis_error": err}
                elif rc == 1 and new:
                    fired[pid] = {"exit": 1, "keys": new[:6], "count": len(new)}
            cur["checks_fired"] = fired
            cur["detected_by_target_property"] = target in fired and fired[target].get("exit") == 1
            cur["detected_by"] = sorted(p for p in fired if fired[p].get("exit") == 1)
        else:
            cur["why"] = r.get("why")
        meta["current_tree"] = cur
        json.dump(meta, open(mp, "w"), indent=1)
        first = ""
        if r["applies"] and target in cur["checks_fired"] and cur["checks_fired"][target].get("keys"):
            first = cur["checks_fired"][target]["keys"][0]
        rows.append((seed, target, cur.get("applies"), cur.get("detected_by_target_property"), ",".join(cur.get("detected_by", [])), first, meta.get("summary", "")[:160]))
    write_table(head, vhead)
    for row in rows:
        print("%-7s target=%s applies=%s target_fires=%s by=%s" % row[:5])
    missed = [r for r in rows if r[2] and not r[3]]
    print("%d seeds, %d applied, %d reported by the target property's check, %d not" % (len(rows), sum(1 for r in rows if r[2]), sum(1 for r in rows if r[3]), len(missed)))


if __name__ == "__main__":
    main(sys.argv[1:])
