#!/usr/bin/env python3
"""Re-run every check against every stored behaviour-preserving variant (/verif/seeded_silent/<id>/patch.diff) on top of /repo's current HEAD
(design-time tool).  Every check must exit 0 on every variant; anything else is a false alarm (exit 1) or an analysis error (exit 2).
Usage: tools/reeval_silent.py [variant-id ...] [--jobs N]"""
import json, os, shutil, subprocess, sys, tempfile
from concurrent.futures import ThreadPoolExecutor
HERE = os.path.dirname(os.path.dirname(os.path.abspath(__file__)))
D = os.path.join(HERE, "seeded_silent")
PIDS = subprocess.run([os.path.join(HERE, "check"), "--list"], capture_output=True, text=True).stdout.split()


def one(vid):
    patch = os.path.join(D, vid, "patch.diff")
    tmp = tempfile.mkdtemp(prefix="resilent-")
    wt = os.path.join(tmp, "wt")
    out = {"id": vid}
    try:
        subprocess.run(["git", "-C", "/repo", "worktree", "add", "--detach", "-q", wt, "HEAD"], check=True, capture_output=True)
        a = subprocess.run(["git", "-C", wt, "apply", patch], capture_output=True, text=True)
        if a.returncode != 0:
            out["applies"] = False
            return out
        out["applies"] = True
        env = dict(os.environ, XV_NO_EVIDENCE="1", XV_REPO=wt)
        bad = {}
        for pid in PIDS:
            r = subprocess.run([os.path.join(HERE, "check"), pid], capture_output=True, text=True, env=env)
            if r.returncode != 0:
                keys = [ln.strip().split("  at ")[0] for ln in r.stdout.splitlines() if ln.startswith("    %s/" % pid)]
                bad[pid] = {"exit": r.returncode, "keys": keys[:4], "note": [ln for ln in r.stdout.splitlines() if "ANALYSIS-ERROR" in ln][:1]}
        out["not_silent"] = bad
    finally:
        subprocess.run(["git", "-C", "/repo", "worktree", "remove", "--force", wt], capture_output=True)
        shutil.rmtree(tmp, ignore_errors=True)
    return out


def main(argv):
    jobs = 6
    if "--jobs" in argv:
        i = argv.index("--jobs")
        jobs = int(argv[i + 1])
        del argv[i:i + 2]
    ids = argv or sorted(x for x in os.listdir(D) if os.path.isdir(os.path.join(D, x)))
    head = subprocess.run(["git", "-C", "/repo", "rev-parse", "--short", "HEAD"], capture_output=True, text=True).stdout.strip()
    vhead = subprocess.run(["git", "-C", HERE, "rev-parse", "--short", "HEAD"], capture_output=True, text=True).stdout.strip()
    with ThreadPoolExecutor(max_workers=jobs) as ex:
        res = list(ex.map(one, ids))
    nbad = 0
    for r in res:
        mp = os.path.join(D, r["id"], "meta.json")
        meta = json.load(open(mp))
        meta["current_tree"] = {"repo_head": head, "verif_head": vhead, "applies": r["applies"], "not_silent": r.get("not_silent", {}), "silent": r["applies"] and not r.get("not_silent")}
        json.dump(meta, open(mp, "w"), indent=1)
        st = "does not apply" if not r["applies"] else ("silent" if not r["not_silent"] else "NOT SILENT: %s" % {p: (f["exit"], f["keys"][:1] or f["note"]) for p, f in r["not_silent"].items()})
        if st != "silent":
            nbad += 1
        print("%-8s %s" % (r["id"], st))
    rows = []
    for vid in sorted(x for x in os.listdir(D) if os.path.isdir(os.path.join(D, x))):
        meta = json.load(open(os.path.join(D, vid, "meta.json")))
        fs = meta.get("first_shot", {})
        cur = meta.get("current_tree", {})
        rows.append((vid, meta.get("property"), (meta.get("kind") or "")[:60], "silent" if fs.get("silent") else "alarm: " + ",".join("%s(exit %s)" % kv for kv in sorted(fs.get("not_silent", {}).items())),
                     "silent" if cur.get("silent", meta.get("silent")) else "NOT SILENT", (meta.get("summary") or "")[:200]))
    with open(os.path.join(D, "TABLE.md"), "w") as f:
        f.write("# Behaviour-preserving refactorings (held-out, written by sub-agents) and what the checks say about them\n\n"
                "Each variant was confirmed by a differential demonstration (same digest over tens of thousands of observations on the unchanged and the refactored tree) and by the "
                "unchanged baseline test result.  `first shot` is the outcome against the checks as they stood when the variant arrived; every alarm there was a false alarm and was "
                "corrected in the machinery (DESIGN.md 10.4).  Last re-evaluation: repo HEAD %s, /verif %s.\n\n" % (head, vhead))
        f.write("| variant | anchors of | kind | first shot | now | what was rewritten |\n|---|---|---|---|---|---|\n")
        for row in rows:
            f.write("| %s | %s | %s | %s | %s | %s |\n" % tuple(str(x).replace("|", "\\|").replace("\n", " ") for x in row))
    print("%d variants, %d not silent" % (len(res), nbad))


main(sys.argv[1:])
