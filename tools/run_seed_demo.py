#!/usr/bin/env python3
"""Re-run the demonstration of a stored seeded change (design-time tool, never called by a check).

The demos were written inside a scratch worktree whose path some of them mention literally; this tool recreates a worktree of
/repo's HEAD at that path (meta.json "worktree_path", default /tmp/seed/<Cxx>), puts the demo back where it was
(SEED_OUT/<A|B>_demo.py), runs it clean and with the patch applied, prints both exit codes, and removes the worktree.
Usage: tools/run_seed_demo.py <seed-id> [...]"""
import json
import os
import shutil
import subprocess
import sys

HERE = os.path.dirname(os.path.dirname(os.path.abspath(__file__)))


def run(seed):
    d = os.path.join(HERE, "seeded", seed)
    meta = json.load(open(os.path.join(d, "meta.json")))
    pid, which = seed.rsplit("-", 1)[0], seed.rsplit("-", 1)[1][0]
    wt = meta.get("worktree_path") or "/tmp/seed/%s" % pid
    if os.path.exists(wt):
        print("%s: %s exists, not touching it" % (seed, wt))
        return None
    os.makedirs(os.path.dirname(wt), exist_ok=True)
    res = {}
    try:
        subprocess.run(["git", "-C", "/repo", "worktree", "add", "--detach", "-q", wt, "HEAD"], check=True, capture_output=True)
        os.makedirs(os.path.join(wt, "SEED_OUT"), exist_ok=True)
        demo = os.path.join(wt, "SEED_OUT", "%s_demo.py" % which)
        shutil.copy(os.path.join(d, "demo.py"), demo)
        for extra in os.listdir(d):
            if extra not in ("demo.py", "meta.json", "patch.diff", "patch.orig.diff"):
                shutil.copy(os.path.join(d, extra), os.path.join(wt, "SEED_OUT", extra))
        r = subprocess.run(["/venv/bin/python", demo], cwd=wt, capture_output=True, text=True, timeout=3000)
        res["clean"] = r.returncode
        a = subprocess.run(["git", "-C", wt, "apply", "--exclude=SEED_OUT/*", os.path.join(d, "patch.diff")], capture_output=True, text=True)
        if a.returncode != 0:
            res["patched"] = "patch does not apply: " + a.stderr.strip()[-200:]
        else:
            r = subprocess.run(["/venv/bin/python", demo], cwd=wt, capture_output=True, text=True, timeout=3000)
            res["patched"] = r.returncode
            res["patched_tail"] = (r.stdout + r.stderr).strip().splitlines()[-2:]
    finally:
        subprocess.run(["git", "-C", "/repo", "worktree", "remove", "--force", wt], capture_output=True)
        shutil.rmtree(wt, ignore_errors=True)
    print("%s: clean exit %s, patched exit %s %s" % (seed, res.get("clean"), res.get("patched"), res.get("patched_tail", "")))
    return res


if __name__ == "__main__":
    for s in sys.argv[1:]:
        run(s)
