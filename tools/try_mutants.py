#!/usr/bin/env python3
"""Design-time probe: apply ad-hoc textual mutants (JSON list of [id, file, old, new]) to scratch copies of /repo's xdis package and
report which checks fire on each.  usage: tools/try_mutants.py mutants.json [--jobs N]"""
import json, os, shutil, subprocess, sys, tempfile
from concurrent.futures import ThreadPoolExecutor
HERE = os.path.dirname(os.path.dirname(os.path.abspath(__file__)))
PIDS = ["C%02d" % i for i in range(1, 21) if i != 7]


def one(case):
    cid, rel, old, new = case[:4]
    only = case[4] if len(case) > 4 else PIDS
    base = "/dev/shm" if os.path.isdir("/dev/shm") else tempfile.gettempdir()
    d = tempfile.mkdtemp(prefix="xvtry-", dir=base)
    try:
        shutil.copytree("/repo/xdis", os.path.join(d, "xdis"), ignore=shutil.ignore_patterns("__pycache__", "*.pyc"))
        p = os.path.join(d, rel)
        s = open(p, encoding="utf-8").read()
        if old not in s:
            return cid, "ANCHOR TEXT NOT FOUND", {}
        open(p, "w", encoding="utf-8").write(s.replace(old, new, 1))
        r = subprocess.run(["/venv/bin/python", "-c", "import sys; sys.path.insert(0, %r); import xdis, xdis.std, xdis.marsh, xdis.disasm, xdis.load" % d], capture_output=True, text=True)
        if r.returncode != 0:
            return cid, "DOES NOT IMPORT: " + r.stderr[-200:], {}
        env = dict(os.environ, XV_REPO=d, XV_SERIAL="1", XV_NO_EVIDENCE="1", PYTHONDONTWRITEBYTECODE="1")
        fired = {}
        for pid in only:
            r = subprocess.run([os.path.join(HERE, "check"), pid], capture_output=True, text=True, env=env)
            if r.returncode != 0:
                keys = [ln.strip().split("  at ")[0] for ln in r.stdout.splitlines() if ln.startswith("    %s/" % pid)]
                fired[pid] = (r.returncode, keys[:2] or [ln for ln in r.stdout.splitlines() if "ANALYSIS-ERROR" in ln][:1])
        return cid, "ok", fired
    finally:
        shutil.rmtree(d, ignore_errors=True)


def main():
    cases = json.load(open(sys.argv[1]))
    jobs = int(sys.argv[sys.argv.index("--jobs") + 1]) if "--jobs" in sys.argv else 8
    with ThreadPoolExecutor(max_workers=jobs) as ex:
        for cid, st, fired in ex.map(one, cases):
            print("%-28s %s %s" % (cid, st, " ".join(sorted(fired)) or "-- nothing fires --"))
            for pid, (rc, keys) in sorted(fired.items()):
                print("      %s exit %d %s" % (pid, rc, keys[:2]))


main()
