"""Design-time only (NOT a check): compare the folder's tables with the really imported package under /venv python."""
import sys, io, contextlib, importlib, time, os
sys.path.insert(0, os.path.dirname(os.path.dirname(os.path.abspath(__file__))))
from xv.fold import folded, FuncRef, Opaque
t0 = time.time()
F = folded("/repo", (3, 12))
print("fold %.2fs, %d modules, steps %d" % (time.time() - t0, len(F.modules), F.steps))
for n, m in sorted(F.modules.items()):
    if not m.external and m.unfolded:
        print("  unfolded in", n, m.unfolded[:6])
sys.path.insert(0, "/repo")
with contextlib.redirect_stdout(io.StringIO()):
    import xdis.magics as RM, xdis.op_imports as RO
ok = bad = 0
for n, m in sorted(F.modules.items()):
    if not n.startswith("xdis.opcodes.opcode_"): continue
    with contextlib.redirect_stdout(io.StringIO()):
        real = importlib.import_module(n)
    diffs = []
    for k in ("opmap", "opname", "oppop", "oppush", "hasjrel", "hasjabs", "hasconst", "hasname", "haslocal", "hasfree",
              "hascompare", "hasnargs", "hasvargs", "hasstore", "nofollow", "HAVE_ARGUMENT", "EXTENDED_ARG", "EXTENDED_ARG_SHIFT",
              "JREL_OPS", "JABS_OPS", "CONST_OPS", "NAME_OPS", "LOCAL_OPS", "FREE_OPS", "COMPARE_OPS", "NARGS_OPS", "VARGS_OPS",
              "version_tuple", "python_version", "nullaryop", "nullaryloadop", "binaryop", "unaryop", "callop", "operator_set", "JUMP_OPS", "hasarg", "hasexc", "hasjump"):
        a = m.ns.get(k, "<missing>"); b = getattr(real, k, "<missing>")
        try:
            if a != b: diffs.append(k)
        except Exception as e:
            diffs.append(k + " " + str(e))
    for k in ("findlabels", "findlinestarts"):
        a = m.ns.get(k); b = getattr(real, k, None)
        an = a.qualname.split(".")[-2:] if isinstance(a, FuncRef) else a
        bn = [b.__module__.split(".")[-1], b.__name__] if b else b
        if an != bn: diffs.append("%s %s vs %s" % (k, an, bn))
    for tab in ("opcode_arg_fmt", "opcode_extended_fmt"):
        ka = set(m.ns.get(tab, {})) if isinstance(m.ns.get(tab), dict) else None
        kb = set(getattr(real, tab, {}).keys()) if hasattr(real, tab) else None
        if ka != kb: diffs.append(tab + " keys")
    if diffs: bad += 1; print("DIFF", n, diffs)
    else: ok += 1
print("opcode modules ok", ok, "bad", bad)
m = F.modules["xdis.magics"]
for k in ("magicint2version", "versions", "by_magic", "by_version", "magics", "canonic_python_version", "python_versions", "PYTHON_MAGIC_INT", "PYPY3_MAGICS"):
    print(k, m.ns[k] == getattr(RM, k))
o = F.modules["xdis.op_imports"]
a = {k: v.name for k, v in o.ns["op_imports"].items()}
b = {k: v.__name__ for k, v in RO.op_imports.items()}
print("op_imports", a == b, len(a))
print("import order head:", F.import_order[:12])
