"""Allocation sized by an unvalidated length field (C11-R6).

Intra-procedural, flow-insensitive integer taint: a name is *count-tainted* when it is assigned an integer decoded from the
stream (struct.unpack(...)[k], the r_long/r_short family, ord() of a read byte) or arithmetic over such names.  A *sized
allocation* is a construct whose memory footprint is proportional to such a name without consuming input per element:

    seq * n   /  n * seq                (seq: list / tuple / str / bytes display, comprehension, or a call to one of those types)
    bytearray(n), bytes(n)
    list(range(n)), tuple(range(n)), sorted(range(n)), set(range(n)), frozenset(range(n))
    [c for _ in range(n)]               when the element expression performs no stream read

A name counts as validated when the function compares it against an upper bound in an `if` whose body raises."""
import ast

INT_SOURCES = {"_r_long", "_r_short", "_r_long64", "r_long", "r_short", "r_byte", "r_long64", "Ord", "ord", "read_int32", "read_uint32", "read_int16", "read_uint16"}
UNPACKERS = {"unpack", "unpack_from", "struct.unpack", "struct.unpack_from"}
READ_CALLS = {"r_object", "load", "read", "_read", "_read1", "unpack", "unpack_from", "r_ref", "_r_long", "_r_short", "_r_long64", "r_long", "r_short"}
SEQ_TYPES = {"list", "tuple", "bytes", "bytearray", "str", "chr", "unicode"}
MATERIALISERS = {"list", "tuple", "sorted", "set", "frozenset"}


def call_name(c):
    f = c.func
    if isinstance(f, ast.Name):
        return f.id
    if isinstance(f, ast.Attribute):
        return f.attr
    return None


def dotted(c):
    try:
        return ast.unparse(c.func)
    except Exception:
        return ""


def is_unpack_call(e):
    return isinstance(e, ast.Call) and (dotted(e) in UNPACKERS or call_name(e) in ("unpack", "unpack_from"))


def derive_sources(functions):
    """INT_SOURCES extended by the repo functions that *return* a stream-decoded integer (by bare name; least fixpoint): load_int() -> _r_long(self) etc."""
    src = set(INT_SOURCES)
    for _ in range(6):
        grew = False
        for q, fn in functions.items():
            bare = q.rsplit(".", 1)[-1]
            if bare in src or bare.startswith("__"):
                continue
            ct = CountTaint(fn, src)
            rets = [n for n in ast.walk(fn) if isinstance(n, ast.Return) and n.value is not None]
            if rets and all(ct.int_tainted(r.value) for r in rets):
                src.add(bare)
                grew = True
        if not grew:
            break
    return src


class CountTaint(object):
    def __init__(self, fn, sources=None):
        self.fn = fn
        self.sources = sources if sources is not None else INT_SOURCES
        self.tainted = set()
        self.validated = set()
        self._fix()

    # -------------------------------------------------------------- expression classification
    def int_tainted(self, e):
        if isinstance(e, ast.Name):
            return e.id in self.tainted and e.id not in self.validated
        if isinstance(e, ast.Subscript) and is_unpack_call(e.value):
            return True
        if isinstance(e, ast.Call):
            n = call_name(e)
            if n in self.sources:
                return True
            if n in ("int", "abs", "long", "max") and e.args:
                return any(self.int_tainted(a) for a in e.args)
            if n == "min":
                return bool(e.args) and all(self.int_tainted(a) for a in e.args)
            return False
        if isinstance(e, ast.BinOp):
            if isinstance(e.op, ast.Mod):
                # n % K is bounded by the untainted operand
                return self.int_tainted(e.left) and self.int_tainted(e.right)
            if isinstance(e.op, ast.BitAnd):
                # n & K is bounded by K only when K is a non-negative constant (n & ~0xF keeps every high bit of n)
                for a, b in ((e.left, e.right), (e.right, e.left)):
                    try:
                        k = eval(compile(ast.Expression(body=b), "<mask>", "eval"), {"__builtins__": {}}, {})
                    except Exception:
                        k = None
                    if isinstance(k, int) and k >= 0 and not self.int_tainted(b):
                        return False
                return self.int_tainted(e.left) or self.int_tainted(e.right)
            return self.int_tainted(e.left) or self.int_tainted(e.right)
        if isinstance(e, ast.UnaryOp):
            return self.int_tainted(e.operand)
        if isinstance(e, ast.IfExp):
            return self.int_tainted(e.body) or self.int_tainted(e.orelse)
        return False

    def _assign(self, target, value):
        changed = False
        if isinstance(target, ast.Name):
            if self.int_tainted(value) and target.id not in self.tainted:
                self.tainted.add(target.id)
                changed = True
        elif isinstance(target, (ast.Tuple, ast.List)):
            if is_unpack_call(value):
                for t in target.elts:
                    if isinstance(t, ast.Name) and t.id not in self.tainted:
                        self.tainted.add(t.id)
                        changed = True
            elif isinstance(value, (ast.Tuple, ast.List)) and len(value.elts) == len(target.elts):
                for t, v in zip(target.elts, value.elts):
                    changed |= self._assign(t, v)
        return changed

    def _fix(self):
        for node in ast.walk(self.fn):
            if isinstance(node, ast.If) and node.body and self._always_raises(node.body):
                for c in ast.walk(node.test):
                    if isinstance(c, ast.Compare) and len(c.ops) == 1:
                        l, r, op = c.left, c.comparators[0], c.ops[0]
                        if isinstance(l, ast.Name) and isinstance(op, (ast.Gt, ast.GtE)):
                            self.validated.add(l.id)
                        if isinstance(r, ast.Name) and isinstance(op, (ast.Lt, ast.LtE)):
                            self.validated.add(r.id)
        for _ in range(10):
            changed = False
            for node in ast.walk(self.fn):
                if isinstance(node, ast.Assign):
                    for t in node.targets:
                        changed |= self._assign(t, node.value)
                elif isinstance(node, ast.AugAssign) and isinstance(node.target, ast.Name):
                    if self.int_tainted(node.value) and node.target.id not in self.tainted:
                        self.tainted.add(node.target.id)
                        changed = True
                elif isinstance(node, ast.AnnAssign) and node.value is not None:
                    changed |= self._assign(node.target, node.value)
            if not changed:
                break

    @staticmethod
    def _always_raises(body):
        last = body[-1]
        return isinstance(last, ast.Raise)

    # -------------------------------------------------------------- sinks
    @staticmethod
    def seqish(e):
        if isinstance(e, (ast.List, ast.Tuple, ast.ListComp, ast.JoinedStr)):
            return True
        if isinstance(e, ast.Constant) and isinstance(e.value, (str, bytes)):
            return True
        if isinstance(e, ast.Call) and call_name(e) in SEQ_TYPES:
            return True
        return False

    @staticmethod
    def reads(e):
        return any(isinstance(c, ast.Call) and call_name(c) in READ_CALLS for c in ast.walk(e))

    def sinks(self):
        """[(node, kind, text)]"""
        out = []
        for node in ast.walk(self.fn):
            if isinstance(node, ast.BinOp) and isinstance(node.op, ast.Mult):
                for a, b in ((node.left, node.right), (node.right, node.left)):
                    if self.seqish(a) and self.int_tainted(b):
                        out.append((node, "repeat", ast.unparse(node)))
                        break
            elif isinstance(node, ast.Call):
                n = call_name(node)
                if n in ("bytearray", "bytes") and isinstance(node.func, ast.Name) and len(node.args) == 1 and self.int_tainted(node.args[0]):
                    out.append((node, "sized-buffer", ast.unparse(node)))
                elif isinstance(node.func, ast.Attribute) and node.func.attr in ("ljust", "rjust", "center", "zfill") and node.args and self.int_tainted(node.args[0]):
                    out.append((node, "padded-buffer", ast.unparse(node)))
                elif n in MATERIALISERS and isinstance(node.func, ast.Name) and len(node.args) >= 1 and self._tainted_range(node.args[0]):
                    out.append((node, "materialised-range", ast.unparse(node)))
            elif isinstance(node, (ast.ListComp, ast.SetComp, ast.DictComp)):
                gens = node.generators
                if any(self._tainted_range(g.iter) for g in gens):
                    elt = node.elt if not isinstance(node, ast.DictComp) else ast.Tuple(elts=[node.key, node.value], ctx=ast.Load())
                    if not self.reads(elt):
                        out.append((node, "comprehension-without-read", ast.unparse(node)))
        return out

    def _tainted_range(self, e):
        return isinstance(e, ast.Call) and call_name(e) in ("range", "xrange") and any(self.int_tainted(a) for a in e.args)


CONTROL_SRC = '''
def t_control(self, save_ref):
    n = unpack("<i", self.fp.read(4))[0]
    m = n + 1
    a = [None] * n
    b = bytearray(m)
    c = [0 for _ in range(n)]
    d = list(range(m))
    pad = (n + 15) & ~0xF
    e = self.fp.read(4).ljust(pad, b"-")
    small = b"".ljust(n & 0xFF)
    ok = [self.r_object() for _ in range(n)]
    k = unpack("<i", self.fp.read(4))[0]
    if k > 1000:
        raise ValueError("too big")
    fine = [None] * k
    return a, b, c, d, e, small, ok, fine
'''


def positive_control():
    fn = ast.parse(CONTROL_SRC).body[0]
    kinds = sorted(k for _, k, _ in CountTaint(fn).sinks())
    return kinds
