"""Resolved call graph over the repo's syntax trees (no import, no execution).

Resolution: direct names (module-level defs, nested defs, imports and aliases), `self.m` through the class MRO and
overriding subclasses, `module.f`, `Class.m`, constructor calls (-> __init__), and the repo-specific indirections that
the code itself declares (taken from the folded tables, so they follow the source):
   opc.<attr>(...)                         -> every function an opcode module binds to <attr>
   getattr(self, "t_" + suffix)(...)       -> every t_* method named by UNMARSHAL_DISPATCH_TABLE
   self.dispatch[...](...) / X.dispatch[k] -> every function registered with  dispatch[...] = f  in that class body
   opc.opcode_arg_fmt[...](...), opc.opcode_extended_fmt[...](...) -> the registered formatter functions
Receiver-less method calls on unknown objects are resolved by name to repo methods (class-hierarchy analysis by name)
except for a stop-list of container/stream method names; the rest are recorded as external 'method:<name>' edges."""
import ast
import builtins

from .fold import FuncRef, ModuleNS
from .repo import dotted_of, enclosing_class, enclosing_function, get_repo

CONTAINER_METHODS = {
    "append", "extend", "add", "update", "pop", "remove", "clear", "insert", "get", "items", "keys", "values", "copy", "index", "count", "sort",
    "reverse", "join", "split", "strip", "startswith", "endswith", "replace", "format", "encode", "decode", "lower", "upper", "find", "rfind",
    "read", "write", "seek", "tell", "close", "flush", "readline", "getvalue", "setdefault", "group", "groups", "match", "search", "sub",
    "isdigit", "isalpha", "lstrip", "rstrip", "ljust", "rjust", "center", "zfill", "title", "splitlines", "partition", "rpartition", "mro",
    "timestamp", "strftime", "fromtimestamp", "now", "hexdigest", "digest", "to_bytes", "from_bytes", "bit_length", "union", "difference",
    "intersection", "issubset", "discard", "popitem", "fromkeys", "isoformat", "tolist", "exists", "isfile", "getsize", "basename", "dirname",
    "real", "imag", "conjugate", "next", "send", "throw", "__init__",
}


class Site(object):
    __slots__ = ("caller", "node", "targets", "kind", "text", "module")

    def __init__(self, caller, node, targets, kind, text, module):
        self.caller, self.node, self.targets, self.kind, self.text, self.module = caller, node, targets, kind, text, module

    @property
    def where(self):
        return "%s:%d" % (self.module.rel, self.node.lineno)


class CallGraph(object):
    def __init__(self, repo=None, tables=None):
        self.repo = repo or get_repo()
        self.T = tables
        self.sites = {}  # caller qualname -> [Site]
        self.unresolved = []
        self.by_method_name = {}
        for q, (m, node) in self.repo.functions.items():
            if enclosing_class(node) is not None:
                self.by_method_name.setdefault(node.name, []).append(q)
        self._table_bindings = None
        self._dispatch = {}
        self._mod_binds = {}
        self._gdr = None
        self._local_types = {}
        self._build()

    # ------------------------------------------------------------------ repo-specific binding tables
    def table_bindings(self, attr):
        """functions any opcode table binds to <attr> (from the folded modules)"""
        if self.T is None:
            return []
        if self._table_bindings is None:
            tb = {}
            for name, m in self.T.all_tables.items():
                for k, v in m.ns.items():
                    if isinstance(k, str) and isinstance(v, FuncRef):
                        tb.setdefault(k, set()).add(v.qualname)
                    elif isinstance(k, str) and isinstance(v, dict) and k in ("opcode_arg_fmt", "opcode_extended_fmt"):
                        for fv in v.values():
                            if isinstance(fv, FuncRef):
                                tb.setdefault(k + "[]", set()).add(fv.qualname)
            self._table_bindings = tb
        return sorted(self._table_bindings.get(attr, ()))

    def class_dispatch(self, clsq):
        """functions registered as  dispatch[...] = f  in the body of class clsq (and aliases  name = dispatch)"""
        if clsq in self._dispatch:
            return self._dispatch[clsq]
        out = set()
        if clsq in self.repo.classes:
            m, c = self.repo.classes[clsq]
            for s in ast.walk(c):
                if isinstance(s, ast.Assign) and len(s.targets) == 1 and isinstance(s.targets[0], ast.Subscript):
                    base = s.targets[0].value
                    if isinstance(base, ast.Name) and base.id == "dispatch" and isinstance(s.value, ast.Name):
                        q = clsq + "." + s.value.id
                        if q in self.repo.functions:
                            out.add(q)
        out |= self.global_dispatch_regs()
        self._dispatch[clsq] = sorted(out)
        return self._dispatch[clsq]

    def global_dispatch_regs(self):
        """functions stored into some object's dispatch table outside a class body:  um.dispatch[K] = f"""
        if self._gdr is None:
            regs = set()
            for q, (m, fn) in self.repo.functions.items():
                for s in ast.walk(fn):
                    if isinstance(s, ast.Assign) and len(s.targets) == 1 and isinstance(s.targets[0], ast.Subscript):
                        b = s.targets[0].value
                        if isinstance(b, ast.Attribute) and b.attr == "dispatch" and isinstance(s.value, ast.Name):
                            r = self.repo.resolve_name(m, s.value.id)
                            if r[0] == "function":
                                regs.add(r[1])
            self._gdr = regs
        return self._gdr

    # ------------------------------------------------------------------ construction
    def _build(self):
        for q, (m, fn) in self.repo.functions.items():
            self.sites[q] = []
            for node in self._own_nodes(fn):
                if isinstance(node, ast.Call):
                    self._site(q, m, fn, node)
        # module-level code as pseudo-functions "<module>"
        for name, m in self.repo.modules.items():
            q = name + ".<module>"
            self.sites[q] = []
            for node in self._own_nodes(m.tree):
                if isinstance(node, ast.Call):
                    self._site(q, m, None, node)

    def _own_nodes(self, root):
        """nodes of this function/module excluding nested function and class bodies' functions"""
        todo = list(ast.iter_child_nodes(root))
        while todo:
            n = todo.pop()
            if isinstance(n, (ast.FunctionDef, ast.AsyncFunctionDef, ast.Lambda)):
                # decorators and defaults belong to the enclosing scope
                for d in getattr(n, "decorator_list", []):
                    todo.append(d)
                continue
            yield n
            todo.extend(ast.iter_child_nodes(n))

    def _resolve_name(self, m, fn, name):
        # nested defs in enclosing functions
        p = fn
        while p is not None:
            for s in ast.walk(p):
                if isinstance(s, (ast.FunctionDef, ast.AsyncFunctionDef)) and s.name == name and enclosing_function(s) is p:
                    return [("function", getattr(s, "_qualname", None))]
                if isinstance(s, ast.ClassDef) and s.name == name and enclosing_function(s) is p:
                    return [("class", getattr(s, "_qualname", None))]
            p = enclosing_function(p)
        r = self.repo.resolve_name(m, name)
        return [r]

    def local_types(self, m, fn):
        """{local variable: repo class} for variables only ever assigned  v = Class(...)  in this function"""
        key = id(fn)
        if key in self._local_types:
            return self._local_types[key]
        types, bad = {}, set()
        for n in ast.walk(fn):
            if isinstance(n, ast.Assign):
                for t in n.targets:
                    if isinstance(t, ast.Name):
                        cq = None
                        if isinstance(n.value, ast.Call):
                            fd = dotted_of(n.value.func)
                            if fd:
                                head = fd.split(".")[0]
                                r = None
                                if "." not in fd:
                                    r = self.repo.resolve_name(m, fd)
                                elif head in m.imports:
                                    r = self.repo.resolve_dotted(m.imports[head] + fd[len(head):])
                                if r and r[0] == "class":
                                    cq = r[1]
                        if cq is None or (t.id in types and types[t.id] != cq):
                            bad.add(t.id)
                        else:
                            types[t.id] = cq
            elif isinstance(n, (ast.For, ast.AugAssign, ast.NamedExpr, ast.With)):
                for x in ast.walk(n.target if hasattr(n, "target") else n):
                    if isinstance(x, ast.Name) and isinstance(x.ctx, ast.Store):
                        bad.add(x.id)
        for b in bad:
            types.pop(b, None)
        self._local_types[key] = types
        return types

    def _module_binds(self, m, name):
        c = self._mod_binds.get(m.name)
        if c is None:
            c = set()
            for n in ast.walk(m.tree):
                if isinstance(n, ast.Name) and isinstance(n.ctx, ast.Store) and enclosing_function(n) is None:
                    c.add(n.id)
            self._mod_binds[m.name] = c
        return name in c

    def _is_local(self, fn, name):
        p = fn
        while p is not None:
            if not isinstance(p, ast.Lambda):
                for a in list(p.args.args) + list(p.args.kwonlyargs) + list(p.args.posonlyargs):
                    if a.arg == name:
                        return True
            for n in ast.walk(p):
                if isinstance(n, ast.Name) and n.id == name and isinstance(n.ctx, ast.Store):
                    return True
            p = enclosing_function(p)
        return False

    def _site(self, caller, m, fn, node):
        f = node.func
        text = ast.unparse(f)
        targets = []
        kind = "unresolved"
        cls = enclosing_class(fn) if fn is not None else None
        if fn is not None and cls is None:
            # method of a class defined inside a function? enclosing_class stops at functions; look one level up for nested defs in methods
            p = enclosing_function(fn)
            while p is not None and cls is None:
                cls = enclosing_class(p)
                p = enclosing_function(p)
        clsq = getattr(cls, "_qualname", None) if cls is not None else None
        if isinstance(f, ast.Name):
            for r in self._resolve_name(m, fn, f.id):
                if r[0] == "function" and r[1]:
                    targets.append(r[1]); kind = "direct"
                elif r[0] == "class" and r[1]:
                    init = self.repo.method(r[1], "__init__")
                    targets.append(init or ("class:" + r[1])); kind = "ctor"
                elif r[0] == "external":
                    targets.append("ext:" + r[1]); kind = "external"
                elif r[0] == "global" and self._module_binds(m, f.id):
                    targets.append("global:%s.%s" % (r[1], r[2])); kind = "global"
                elif hasattr(builtins, f.id) and not self._is_local(fn, f.id):
                    targets.append("builtin:" + f.id); kind = "builtin"
                else:
                    # a local variable / parameter holding a callable, or a builtin
                    targets.append("name:" + f.id); kind = "name"
        elif isinstance(f, ast.Attribute):
            d = dotted_of(f)
            base = f.value
            if isinstance(base, ast.Name) and base.id in ("self", "cls") and clsq:
                q = self.repo.method(clsq, f.attr)
                if q:
                    targets.append(q); kind = "self"
                    for sub in self.repo.subclasses(clsq):
                        sq = sub + "." + f.attr
                        if sq in self.repo.functions and sq not in targets:
                            targets.append(sq)
                else:
                    targets.append("method:" + f.attr); kind = "self-attr"
            elif isinstance(base, ast.Name) and base.id in ("opc", "opcode", "op_obj") or (isinstance(base, ast.Attribute) and base.attr == "opc"):
                tb = self.table_bindings(f.attr)
                if tb:
                    targets.extend(tb); kind = "table-binding"
                else:
                    targets.append("method:" + f.attr); kind = "table-attr"
            elif isinstance(base, ast.Name) and fn is not None and base.id in self.local_types(m, fn):
                tq = self.local_types(m, fn)[base.id]
                q = self.repo.method(tq, f.attr)
                if q:
                    targets.append(q); kind = "typed-local"
                    for sub in self.repo.subclasses(tq):
                        sq = sub + "." + f.attr
                        if sq in self.repo.functions and sq not in targets:
                            targets.append(sq)
                else:
                    targets.append("method:" + f.attr); kind = "typed-local-attr"
            elif d is not None:
                head = d.split(".")[0]
                r = None
                if head in m.imports:
                    r = self.repo.resolve_dotted(m.imports[head] + d[len(head):])
                elif head in m.defs:
                    r = self.repo.resolve_dotted(m.name + "." + d)
                if r and r[0] == "function":
                    targets.append(r[1]); kind = "direct"
                elif r and r[0] == "class":
                    init = self.repo.method(r[1], "__init__")
                    targets.append(init or ("class:" + r[1])); kind = "ctor"
                elif r and r[0] == "external":
                    targets.append("ext:" + r[1]); kind = "external"
                elif r and r[0] == "unknown" and r[1].split(".")[0] == "xdis":
                    # Class.method via imported class
                    parts = r[1].rsplit(".", 1)
                    rr = self.repo.resolve_dotted(parts[0])
                    if rr[0] == "class":
                        q = self.repo.method(rr[1], parts[1])
                        if q:
                            targets.append(q); kind = "direct"
                if not targets:
                    self._by_name(f.attr, targets)
                    kind = "cha" if targets and not targets[0].startswith("method:") else "method"
            else:
                # call on an expression:  x[...].m(),  f().m(), getattr(...)
                self._by_name(f.attr, targets)
                kind = "cha" if targets and not targets[0].startswith("method:") else "method"
        elif isinstance(f, ast.Subscript):
            sv = f.value
            sd = dotted_of(sv)
            if sd and sd.endswith("dispatch") or (isinstance(sv, ast.Name) and "dispatch" in sv.id):
                owner = clsq
                if isinstance(sv, ast.Name):
                    # module-level alias  _load_dispatch = _FastUnmarshaller.dispatch
                    for s in m.tree.body:
                        if isinstance(s, ast.Assign) and isinstance(s.targets[0], ast.Name) and s.targets[0].id == sv.id and isinstance(s.value, ast.Attribute):
                            rr = self.repo.resolve_name(m, dotted_of(s.value.value) or "")
                            if rr[0] == "class":
                                owner = rr[1]
                if owner:
                    targets.extend(self.class_dispatch(owner)); kind = "dispatch"
            elif sd and (sd.endswith("opcode_arg_fmt") or sd.endswith("opcode_extended_fmt")):
                targets.extend(self.table_bindings(sd.rsplit(".", 1)[-1] + "[]")); kind = "formatter-registry"
            if not targets:
                targets.append("subscript:" + text); kind = "subscript"
        elif isinstance(f, ast.Call) and isinstance(f.func, ast.Name) and f.func.id == "getattr":
            targets.append("getattr-call:" + text); kind = "getattr"
        else:
            targets.append("expr:" + text)
        # variables that hold the result of  getattr(self, "t_" + x)
        site = Site(caller, node, targets, kind, text, m)
        self.sites[caller].append(site)
        if kind in ("unresolved",) or not targets:
            self.unresolved.append(site)

    def _by_name(self, attr, targets):
        if attr in CONTAINER_METHODS or attr not in self.by_method_name:
            targets.append("method:" + attr)
        else:
            targets.extend(self.by_method_name[attr])

    def add_edges(self, caller, targets, kind="declared"):
        """rule-specific indirections (e.g. getattr(self, 't_' + suffix) stored in a local variable)"""
        fnode = self.repo.functions[caller][1]
        m = self.repo.functions[caller][0]
        self.sites[caller].append(Site(caller, fnode, list(targets), kind, "<declared indirection>", m))

    # ------------------------------------------------------------------ queries
    def reachable(self, roots, stop=()):
        seen = {}
        todo = [(r, None) for r in roots]
        while todo:
            q, parent = todo.pop()
            if q in seen or q in stop:
                continue
            seen[q] = parent
            for s in self.sites.get(q, ()):
                for t in s.targets:
                    if t in self.repo.functions and t not in seen:
                        todo.append((t, (q, s)))
        return seen

    def path_to(self, seen, q):
        path = []
        while q is not None and seen.get(q) is not None:
            p, s = seen[q]
            path.append("%s (%s)" % (p, s.where))
            q = p
        return list(reversed(path))
