"""One-iteration summaries of the instruction decoder and of the operand unpackers / label finders (C02, C03, C04, C20).

get_logical_instruction_at_offset is specialised for one (opcode table, opcode number): the table is the folded module,
the code bytes are symbolic, the opcode byte at the loop-head cursor is assumed to be K.  The while loop is summarised
by one iteration with the loop-carried state (cursor, extended_arg, extended_arg_count) symbolic.  Results:
  fields   value terms of the yielded Instruction (offset, opcode, arg, argval, inst_size, is_jump_target, starts_line ...)
  advance  cursor after the iteration minus cursor before
  ext_next extended_arg carried to the next iteration
"""
from .fold import FuncRef, ModuleNS
from .report import AnalysisError
from .sve import (Brk, Cont, Fall, Guard, Lin, Op, Raise, Ret, Spec, Sym, Top, add, flatten_effects, leaves, show)

CODE = Sym("code", "bytes")


class ByteHook(object):
    """code2num(code, i): the first call in an iteration reads the opcode at the cursor -> K; others are symbolic bytes."""

    def __init__(self, K):
        self.K = K
        self.cursor = None

    def __call__(self, spec, name, fv, args, kw, node):
        if name.endswith(".code2num") or name == "code2num":
            idx = args[1]
            if self.cursor is None:
                self.cursor = idx
                return self.K
            if repr(idx) == repr(self.cursor):
                return self.K
            return Op("byte", args[0], idx)
        return NotImplemented

    def index(self, spec, v, idx):
        if not isinstance(idx, (Sym, Lin, Op)):
            return Op("byte", v, idx)  # a fixed position (e.g. code[0] type probe), not the cursor
        if self.cursor is None or repr(idx) == repr(self.cursor):
            self.cursor = idx
            return self.K
        return Op("byte", v, idx)


def rel(term, cursor):
    """express an index term relative to the cursor atom: returns int offset or None"""
    d = add(term, cursor, -1)
    return d if isinstance(d, int) and not isinstance(d, bool) else None


def find_loop(spec, pred):
    for k, e in flatten_effects(spec.effects):
        if k == "loop-begin" and pred(e.args[3]):
            return e.args[3]
    return None


MARK = {"varnames": ("v0", "v1", "v2"), "names": ("n0", "n1", "n2"), "constants": ("k0", "k1", "k2"), "cells": ("c0", "v1", "c2")}


def instr_summary(T, opc, K, line_offset=None, linestarts=None, exception_entries=None, labels="sym", marks=MARK):
    F = T.F
    bc = F.modules.get("xdis.bytecode")
    if bc is None or not isinstance(bc.ns.get("get_logical_instruction_at_offset"), FuncRef):
        raise AnalysisError("anchor vanished: xdis.bytecode.get_logical_instruction_at_offset")
    f = bc.ns["get_logical_instruction_at_offset"]
    hook = ByteHook(K)
    sp = Spec(F, hooks=[hook], opaque_funcs={"format_CALL_FUNCTION", "format_CALL_FUNCTION_EX", "prefer_double_quote"})
    sp.byte_hook = hook.index
    args = dict(bytecode=CODE, offset=Sym("offset0", "int"), opc=opc, varnames=marks["varnames"], names=marks["names"],
                constants=marks["constants"], cells=marks["cells"], linestarts=linestarts,
                line_offset=line_offset if line_offset is not None else 0, exception_entries=exception_entries,
                labels=Sym("labels", "list") if labels == "sym" else labels)
    out = sp.run(f, [], args)
    ls = find_loop(sp, lambda l: any(e.kind == "yield" for e in flat_objs(l.effects)))
    if ls is None:
        # the iteration never reaches its yield for this opcode: it raises (e.g. arithmetic on a None operand) on every path
        why = sorted({"%s in %s" % (e.args[1], e.args[0]) for k, e in flatten_effects(sp.effects) if k == "raises"})
        kinds = sorted({type(l).__name__ + (":" + str(getattr(l, "exc", ""))[:40] if isinstance(l, Raise) else "") for g, l in leaves(out)})
        return {"spec": sp, "error": "the decoder never yields an Instruction for this opcode (%s)" % (", ".join(why) or ", ".join(kinds) or "no loop")}
    ys = [e for e in flat_objs(ls.effects) if e.kind == "yield"]
    res = {"spec": sp, "loop": ls, "cursor": hook.cursor, "yields": ys}
    if len(ys) != 1:
        res["error"] = "the loop body yields %d instructions per iteration" % len(ys)
        return res
    y = ys[0].args[0]
    if not (isinstance(y, Op) and y.op == "new" and y.args[0] == "Instruction"):
        res["error"] = "yields %s, not an Instruction" % show(y)
        return res
    res["fields"] = dict(y.args[1])
    res["yield_guards"] = [g for g in ys[0].guards if not (isinstance(g, Op) and g.op == "in-loop")]
    lv = [(g, l) for g, l in leaves(ls.out)]
    # an iteration ends by falling through to the loop test, by `continue`, or -- once the logical instruction is complete -- by `break`
    falls = [(g, l) for g, l in lv if isinstance(l, (Fall, Cont, Brk))]
    if len(falls) != 1 or len(lv) != 1:
        res["error"] = "iteration has %d outcomes (%s), expected one fall-through" % (len(lv), [type(l).__name__ for g, l in lv])
        return res
    env = falls[0][1].env
    head = ls.head
    # the cursor variable: the loop-head symbol equal to the cursor term
    curname = None
    for name, v in head.items():
        if isinstance(name, str) and repr(v) == repr(hook.cursor):
            curname = name
    res["cursor_var"] = curname
    if curname is None:
        res["error"] = "cannot identify the cursor variable (first byte read at %s)" % show(hook.cursor)
        return res
    res["advance"] = add(env.get(curname), hook.cursor, -1)
    # carried extended-arg state: the head symbols other than the cursor that feed `arg`
    res["head"] = head
    res["env"] = env
    return res


def flat_objs(effects):
    out = []
    for e in effects:
        if e.kind == "loop":
            out.extend(flat_objs(e.args[3].effects))
        else:
            out.append(e)
    return out


def unpacker_summary(T, f, opc, K):
    """One-iteration summary of an operand unpacker generator (yields (offset, op, arg))."""
    hook = ByteHookIdx(K)
    sp = Spec(T.F, hooks=[hook])
    out = sp.run(f, [CODE, opc])
    loops = []
    for k, e in flatten_effects(sp.effects):
        if k == "loop-begin":
            ls = e.args[3]
            if any(x.kind == "yield" for x in ls.effects):
                loops.append(ls)
    return sp, loops, hook


def unpacker_iteration(T, f, opc, K):
    """(cursor, yielded tuple, advance, spec) of one iteration of an unpack_opargs_* generator specialised to opcode K"""
    hook = ByteHookIdx(K)
    sp = Spec(T.F, hooks=[hook])
    sp.byte_hook = hook.index
    sp.run(f, [CODE, opc])
    out = []
    for k, e in flatten_effects(sp.effects):
        if k != "loop-begin":
            continue
        ls = e.args[3]
        ys = [x for x in ls.effects if x.kind == "yield"]
        if not ys:
            continue
        res = {"loop": ls, "yields": ys, "cursor": hook.cursor, "spec": sp}
        falls = [(g, l) for g, l in leaves(ls.out) if isinstance(l, (Fall, Cont))]
        if len(falls) == 1 and len(leaves(ls.out)) == 1:
            env = falls[0][1].env
            res["env"] = env
            res["head"] = ls.head
            cur = hook.cursor
            adv = None
            if isinstance(cur, Sym) and cur.info and "range" in cur.info:
                ra = cur.info["range"]
                adv = ra[2] if len(ra) == 3 else 1
            else:
                for name, v in ls.head.items():
                    if isinstance(name, str) and repr(v) == repr(cur):
                        adv = add(env.get(name), cur, -1)
            res["advance"] = adv
        out.append(res)
    return out


class ByteHookIdx(object):
    """for unpackers that index the code directly (code[i]) or through code2num"""

    def __init__(self, K):
        self.K = K
        self.cursor = None

    def __call__(self, spec, name, fv, args, kw, node):
        if name.endswith(".code2num") or name == "code2num":
            idx = args[1]
            if not isinstance(idx, (Sym, Lin, Op)):
                return Op("byte", args[0], idx)
            if self.cursor is None or repr(idx) == repr(self.cursor):
                self.cursor = idx
                return self.K
            return Op("byte", args[0], idx)
        return NotImplemented

    def index(self, spec, v, idx):
        if not isinstance(idx, (Sym, Lin, Op)):
            return Op("byte", v, idx)  # a fixed position (e.g. code[0] type probe), not the cursor
        if self.cursor is None or repr(idx) == repr(self.cursor):
            self.cursor = idx
            return self.K
        return Op("byte", v, idx)
