"""Declarative-table folder.

The module-level statements of xdis/magics.py, xdis/op_imports.py, xdis/version_info.py and xdis/opcodes/*.py are a
table-building DSL (def_op(loc, "NAME", 23, 2, 1) ...).  This constant folder evaluates those *declarations* over the
syntax tree -- interpreting base.py's builder functions from their own bodies -- and produces the tables they denote,
with provenance (file:line of the statement that last set each entry).  There is no input: it is constant propagation
over straight-line declarations for one modelled host.  Other repo modules are folded *tolerantly*: what cannot be
folded is bound to an Opaque value, so that their functions, classes and literal constants are available to the
specialiser (sve.py) without importing anything from /repo.
"""
import ast
import builtins as _bi
import copy
import os
import re
import struct

from .report import AnalysisError

HOST_MAGIC = {(3, 8): 3413, (3, 9): 3425, (3, 10): 3439, (3, 11): 3495, (3, 12): 3531, (3, 13): 3571}
HOST_TRIPLE = {(3, 8): (3, 8, 18), (3, 9): (3, 9, 18), (3, 10): (3, 10, 13), (3, 11): (3, 11, 7), (3, 12): (3, 12, 1), (3, 13): (3, 13, 0)}


def is_generator(fn):
    """does this function's *own* body contain a yield (nested functions, classes and lambdas are other scopes)"""
    stack = list(getattr(fn, "body", [])) if not isinstance(fn, ast.Lambda) else []
    while stack:
        n = stack.pop()
        if isinstance(n, (ast.Yield, ast.YieldFrom)):
            return True
        if isinstance(n, (ast.FunctionDef, ast.AsyncFunctionDef, ast.ClassDef, ast.Lambda)):
            continue
        stack.extend(ast.iter_child_nodes(n))
    return False


class FoldError(Exception):
    """The folder met something it cannot evaluate (opaque value, unsupported construct)."""


class PyExc(Exception):
    """A modelled Python exception raised by the folded code (raise stmt, KeyError of a folded dict, ...)."""

    def __init__(self, typ, msg="", node=None):
        Exception.__init__(self, "%s: %s" % (getattr(typ, "__name__", typ), msg))
        self.typ, self.msg, self.node = typ, msg, node


class ReturnEx(Exception):
    def __init__(self, v):
        self.v = v


class BreakEx(Exception):
    pass


class ContinueEx(Exception):
    pass


class Opaque:
    """A value the folder does not know.  Every operation on it is a FoldError (never a modelled Python exception)."""

    def __init__(self, what):
        self.what = what

    def __repr__(self):
        return "<opaque %s>" % self.what

    def _bad(self, *a, **k):
        raise FoldError("operation on %r" % (self,))

    __add__ = __radd__ = __sub__ = __rsub__ = __mul__ = __rmul__ = __mod__ = __and__ = __or__ = __lshift__ = __rshift__ = _bad
    __lt__ = __le__ = __gt__ = __ge__ = __iter__ = __len__ = __getitem__ = __setitem__ = __contains__ = __bool__ = _bad
    __call__ = __int__ = __index__ = __neg__ = __invert__ = _bad

    def __eq__(self, o):
        if o is self:
            return True
        raise FoldError("comparison with %r" % (self,))

    def __ne__(self, o):
        return not self.__eq__(o)

    __hash__ = object.__hash__


class FuncRef:
    """A function defined in the repo, interpreted from its AST on call."""

    def __init__(self, qualname, node, module, closure=None, cls=None):
        self.qualname, self.node, self.module, self.closure, self.cls = qualname, node, module, closure, cls
        self.name = node.name if hasattr(node, "name") else "<lambda>"

    def __repr__(self):
        return "<fn %s>" % self.qualname


class ClassRef:
    def __init__(self, qualname, node, module, ns, bases):
        self.qualname, self.node, self.module, self.ns, self.bases = qualname, node, module, ns, bases
        self.name = node.name

    def __repr__(self):
        return "<class %s>" % self.qualname

    def mro(self):
        out = [self]
        for b in self.bases:
            if isinstance(b, ClassRef):
                for c in b.mro():
                    if c not in out:
                        out.append(c)
        return out

    def lookup(self, name):
        for c in self.mro():
            if name in c.ns:
                return c.ns[name]
        return None


class ModuleNS:
    def __init__(self, name, external=False):
        self.name = name
        self.external = external
        self.ns = {"__name__": name}
        self.unfolded = []  # (lineno, reason) of top-level statements that could not be folded (tolerant mode)
        self.prov = {}  # (field, key) -> "file:line" of the top-level statement that last changed it
        self.stmt_log = []  # (lineno, kind) order of table-affecting statements
        self.done = False

    def __repr__(self):
        return "<module %s>" % self.name


PURE_BUILTINS = {
    "len": len, "int": int, "str": str, "tuple": tuple, "list": list, "dict": dict, "set": set,
    "frozenset": frozenset, "range": range, "sorted": sorted, "zip": zip, "enumerate": enumerate,
    "min": min, "max": max, "isinstance": isinstance, "bool": bool, "repr": repr, "all": all, "any": any,
    "True": True, "False": False, "None": None, "object": object, "float": float, "bytes": bytes, "abs": abs,
    "getattr": getattr, "hasattr": hasattr, "chr": chr, "ord": ord, "hex": hex, "type": type, "reversed": reversed,
    "sum": sum, "map": map, "filter": filter, "divmod": divmod, "bytearray": bytearray, "iter": iter, "next": next,
    "complex": complex, "Ellipsis": Ellipsis, "NotImplemented": NotImplemented, "super": super, "property": property,
    "staticmethod": staticmethod, "classmethod": classmethod, "id": id, "format": format, "round": round, "callable": callable,
    "issubclass": issubclass, "slice": slice, "pow": pow, "open": None, "print": None, "setattr": setattr,
}
for _n in dir(_bi):
    _o = getattr(_bi, _n)
    if isinstance(_o, type) and issubclass(_o, BaseException):
        PURE_BUILTINS[_n] = _o

TABLE_FIELDS = ("opmap", "opname", "oppop", "oppush", "hasjrel", "hasjabs", "hasconst", "hasname", "haslocal", "hasfree",
                "hascompare", "hasnargs", "hasvargs", "hasstore", "nofollow", "hascondition", "hasarg", "hasexc", "hasjump")


def is_table_module(name):
    return name.startswith("xdis.opcodes.opcode_")


STRICT_MODULES = ("xdis.magics", "xdis.op_imports", "xdis.version_info", "xdis.opcodes.base")


class Folder:
    def __init__(self, root, host=(3, 12), implementation="CPython", strict=True):
        self.root = root
        self.host = host
        self.host_triple = HOST_TRIPLE.get(host, host + (0,))
        self.implementation = implementation
        self.modules = {}
        self.depth = 0
        self.strict = strict
        self.import_order = []
        self.steps = 0

    # ---------------------------------------------------------------- modules
    def path_of(self, modname):
        p = os.path.join(self.root, *modname.split("."))
        if os.path.isdir(p):
            return os.path.join(p, "__init__.py")
        return p + ".py"

    def is_repo(self, modname):
        return modname == "xdis" or modname.startswith("xdis.")

    def load(self, modname):
        if modname in self.modules:
            return self.modules[modname]
        if not self.is_repo(modname):
            m = ModuleNS(modname, external=True)
            self.modules[modname] = m
            return m
        path = self.path_of(modname)
        if not os.path.exists(path):
            raise PyExc(ImportError, "no module %s" % modname)
        # like the import system: parents first
        if "." in modname:
            self.load(modname.rsplit(".", 1)[0])
            if modname in self.modules:
                return self.modules[modname]
        m = ModuleNS(modname)
        m.path = path
        m.rel = os.path.relpath(path, self.root)
        self.modules[modname] = m
        self.import_order.append(modname)
        with open(path, encoding="utf-8") as f:
            tree = ast.parse(f.read(), path)
        m.tree = tree
        m.ns["__file__"] = path
        strict = self.strict and (is_table_module(modname) or modname in STRICT_MODULES)
        track = is_table_module(modname)
        for s in tree.body:
            before = self.snapshot(m) if track else None
            try:
                self.exec_stmt(s, m.ns, m, None)
            except FoldError as e:
                if strict:
                    raise AnalysisError("cannot fold %s:%d (%s): %s" % (m.rel, s.lineno, type(s).__name__, e))
                m.unfolded.append((s.lineno, str(e)))
                self.bind_opaque(s, m)
            except PyExc as e:
                if strict:
                    raise AnalysisError("folded code raises at %s:%d: %s" % (m.rel, s.lineno, e))
                m.unfolded.append((s.lineno, "raises " + str(e)))
                self.bind_opaque(s, m)
            except (ReturnEx, BreakEx, ContinueEx):
                raise AnalysisError("control flow escape at module level %s:%d" % (m.rel, s.lineno))
            except RecursionError:
                raise AnalysisError("recursion while folding %s:%d" % (m.rel, s.lineno))
            if track:
                self.record_prov(m, before, s)
        m.done = True
        if "." in modname:
            parent, leaf = modname.rsplit(".", 1)
            self.modules[parent].ns.setdefault(leaf, m)
        return m

    def bind_opaque(self, s, m):
        for n in ast.walk(s):
            if isinstance(n, (ast.Assign, ast.AnnAssign, ast.AugAssign)):
                ts = n.targets if isinstance(n, ast.Assign) else [n.target]
                for t in ts:
                    for x in ast.walk(t):
                        if isinstance(x, ast.Name) and x.id not in m.ns:
                            m.ns[x.id] = Opaque("%s.%s" % (m.name, x.id))
            elif isinstance(n, (ast.Import, ast.ImportFrom)):
                for a in n.names:
                    nm = (a.asname or a.name).split(".")[0]
                    if nm not in m.ns:
                        m.ns[nm] = Opaque("import %s" % a.name)
            elif isinstance(n, (ast.FunctionDef, ast.ClassDef)) and n.name not in m.ns:
                m.ns[n.name] = Opaque("%s.%s" % (m.name, n.name))

    # provenance: which top-level statement last changed which table entry
    def snapshot(self, m):
        snap = {}
        for f in TABLE_FIELDS:
            v = m.ns.get(f)
            if isinstance(v, dict):
                snap[f] = dict(v)
            elif isinstance(v, list):
                snap[f] = list(v)
        for f in ("HAVE_ARGUMENT", "EXTENDED_ARG", "EXTENDED_ARG_SHIFT", "version_tuple", "findlabels", "findlinestarts"):
            snap[f] = m.ns.get(f)
        return snap

    def record_prov(self, m, before, s):
        after = self.snapshot(m)
        where = "%s:%d" % (m.rel, s.lineno)
        changed = False
        for f, v in after.items():
            b = before.get(f)
            if isinstance(v, dict):
                b = b if isinstance(b, dict) else {}
                for k in set(v) | set(b):
                    if v.get(k, "<absent>") != b.get(k, "<absent>"):
                        m.prov[(f, k)] = where
                        changed = True
            elif isinstance(v, list):
                b = b if isinstance(b, list) else []
                if f in ("opname", "oppop", "oppush"):
                    for i in range(max(len(v), len(b))):
                        if (v[i] if i < len(v) else None) != (b[i] if i < len(b) else None):
                            m.prov[(f, i)] = where
                            changed = True
                else:
                    for k in set(v) ^ set(b):
                        m.prov[(f, k)] = where
                        changed = True
                    if v != b:
                        m.prov[(f, None)] = where
            else:
                if v is not b and v != b if not isinstance(v, (FuncRef, Opaque)) else v is not b:
                    m.prov[(f, None)] = where
                    changed = True
        kind = None
        if isinstance(s, ast.Expr) and isinstance(s.value, ast.Call):
            fn = s.value.func
            kind = fn.id if isinstance(fn, ast.Name) else (fn.attr if isinstance(fn, ast.Attribute) else None)
        if changed or kind:
            m.stmt_log.append((s.lineno, kind, changed))

    # ---------------------------------------------------------------- statements
    def exec_block(self, body, ns, mod, local):
        for s in body:
            self.exec_stmt(s, ns, mod, local)

    def lookup(self, name, ns, local):
        env = local
        while env is not None:
            if name in env:
                return env[name]
            env = env.get("__closure__")
        if name in ns:
            return ns[name]
        if name in PURE_BUILTINS:
            return PURE_BUILTINS[name]
        raise PyExc(NameError, name)

    def store(self, target, v, ns, mod, local):
        scope = local if local is not None else ns
        if isinstance(target, ast.Name):
            if local is not None and target.id in local.get("__globals__", ()):
                ns[target.id] = v
            else:
                scope[target.id] = v
        elif isinstance(target, ast.Subscript):
            obj = self.ev(target.value, ns, mod, local)
            key = self.ev_slice(target.slice, ns, mod, local)
            self.guard_concrete(obj)
            try:
                obj[key] = v
            except (KeyError, IndexError, TypeError) as e:
                raise PyExc(type(e), str(e), target)
        elif isinstance(target, (ast.Tuple, ast.List)):
            vs = list(v)
            if len(vs) != len(target.elts):
                raise PyExc(ValueError, "unpack")
            for t, x in zip(target.elts, vs):
                self.store(t, x, ns, mod, local)
        elif isinstance(target, ast.Attribute):
            obj = self.ev(target.value, ns, mod, local)
            if isinstance(obj, ModuleNS):
                obj.ns[target.attr] = v
            elif isinstance(obj, ClassRef):
                obj.ns[target.attr] = v
            elif isinstance(obj, Instance):
                obj.attrs[target.attr] = v
            else:
                raise FoldError("attribute store on %r" % (obj,))
        elif isinstance(target, ast.Starred):
            raise FoldError("starred store")
        else:
            raise FoldError("store target %s" % type(target).__name__)

    def guard_concrete(self, obj):
        if isinstance(obj, (Opaque, FuncRef, ClassRef, ModuleNS)):
            raise FoldError("mutation of %r" % (obj,))

    def exec_stmt(self, s, ns, mod, local):
        self.steps += 1
        t = type(s)
        if t is ast.Expr:
            if isinstance(s.value, ast.Constant):
                return
            self.ev(s.value, ns, mod, local)
        elif t is ast.Assign:
            v = self.ev(s.value, ns, mod, local)
            for tg in s.targets:
                self.store(tg, v, ns, mod, local)
        elif t is ast.AnnAssign:
            if s.value is not None:
                self.store(s.target, self.ev(s.value, ns, mod, local), ns, mod, local)
        elif t is ast.AugAssign:
            cur = self.ev(s.target, ns, mod, local)
            rhs = self.ev(s.value, ns, mod, local)
            if isinstance(cur, list) and isinstance(s.op, ast.Add):
                cur.extend(rhs)  # in-place
                v = cur
            else:
                v = self.binop(s.op, cur, rhs)
            self.store(s.target, v, ns, mod, local)
        elif t is ast.Import:
            for a in s.names:
                m = self.load(a.name)
                scope = local if local is not None else ns
                if a.asname:
                    scope[a.asname] = m
                else:
                    top = a.name.split(".")[0]
                    scope[top] = self.load(top)
        elif t is ast.ImportFrom:
            base = s.module or ""
            if s.level:
                pkg = mod.name if os.path.basename(self.path_of(mod.name)) == "__init__.py" else mod.name.rsplit(".", 1)[0]
                for _ in range(s.level - 1):
                    pkg = pkg.rsplit(".", 1)[0]
                base = pkg + ("." + base if base else "")
            m = self.load(base)
            scope = local if local is not None else ns
            for a in s.names:
                if a.name == "*":
                    if m.external:
                        raise FoldError("star import from external %s" % base)
                    for k, v in m.ns.items():
                        if not k.startswith("_"):
                            scope[k] = v
                    continue
                if m.external:
                    v = self.external_attr(base, a.name)
                elif a.name in m.ns:
                    v = m.ns[a.name]
                else:
                    sub = base + "." + a.name
                    if os.path.exists(self.path_of(sub)):
                        v = self.load(sub)
                    elif not m.done:
                        # circular import of a name not yet bound: the real import system would fail here too unless
                        # the order differs; treat as opaque in tolerant modules
                        raise FoldError("circular import: %s has no %s yet" % (base, a.name))
                    else:
                        raise PyExc(ImportError, "%s has no %s" % (base, a.name))
                scope[a.asname or a.name] = v
        elif t in (ast.FunctionDef, ast.AsyncFunctionDef):
            q = (local.get("__qualname__") + "." if local is not None and local.get("__qualname__") else mod.name + ".") + s.name
            # a method's free variables resolve in the function that encloses its class (the class namespace itself is not a scope for it)
            f = FuncRef(q, s, mod, closure=(local if not local.get("__isclass__") else local.get("__closure__")) if local is not None else None,
                        cls=local.get("__classref__") if local is not None else None)
            f.defaults = [self.ev_tolerant(d, ns, mod, local) for d in s.args.defaults]
            f.kw_defaults = [self.ev_tolerant(d, ns, mod, local) if d is not None else None for d in s.args.kw_defaults]
            f.decorators = [ast.unparse(d) for d in s.decorator_list]
            (local if local is not None else ns)[s.name] = f
        elif t is ast.ClassDef:
            bases = [self.ev_tolerant(b, ns, mod, local) for b in s.bases]
            q = (local.get("__qualname__") + "." if local is not None and local.get("__qualname__") else mod.name + ".") + s.name
            cns = {"__qualname__": q, "__isclass__": True}
            c = ClassRef(q, s, mod, cns, bases)
            cns["__classref__"] = c
            if local is not None:
                cns["__closure__"] = local
            for st in s.body:
                try:
                    self.exec_stmt(st, ns, mod, cns)
                except (FoldError, PyExc) as e:
                    for n in ast.walk(st):
                        if isinstance(n, ast.Name) and isinstance(n.ctx, ast.Store):
                            cns.setdefault(n.id, Opaque("%s.%s" % (q, n.id)))
            (local if local is not None else ns)[s.name] = c
        elif t is ast.If:
            c = self.truth(self.ev(s.test, ns, mod, local))
            self.exec_block(s.body if c else s.orelse, ns, mod, local)
        elif t is ast.For:
            it = self.ev(s.iter, ns, mod, local)
            self.guard_iter(it)
            broke = False
            for x in list(it):
                self.store(s.target, x, ns, mod, local)
                try:
                    self.exec_block(s.body, ns, mod, local)
                except BreakEx:
                    broke = True
                    break
                except ContinueEx:
                    continue
            if not broke:
                self.exec_block(s.orelse, ns, mod, local)
        elif t is ast.While:
            n = 0
            while self.truth(self.ev(s.test, ns, mod, local)):
                n += 1
                if n > 100000:
                    raise FoldError("while loop bound")
                try:
                    self.exec_block(s.body, ns, mod, local)
                except BreakEx:
                    break
                except ContinueEx:
                    continue
        elif t is ast.Return:
            raise ReturnEx(self.ev(s.value, ns, mod, local) if s.value else None)
        elif t is ast.Pass:
            pass
        elif t is ast.Break:
            raise BreakEx()
        elif t is ast.Continue:
            raise ContinueEx()
        elif t is ast.Assert:
            if not self.truth(self.ev(s.test, ns, mod, local)):
                raise PyExc(AssertionError, "assert at %s:%d" % (mod.name, s.lineno), s)
        elif t is ast.Delete:
            for tg in s.targets:
                if isinstance(tg, ast.Subscript):
                    obj = self.ev(tg.value, ns, mod, local)
                    self.guard_concrete(obj)
                    try:
                        del obj[self.ev_slice(tg.slice, ns, mod, local)]
                    except (KeyError, IndexError) as e:
                        raise PyExc(type(e), str(e), tg)
                elif isinstance(tg, ast.Name):
                    scope = local if local is not None else ns
                    scope.pop(tg.id, None)
                else:
                    raise FoldError("del %s" % type(tg).__name__)
        elif t is ast.Try:
            try:
                self.exec_block(s.body, ns, mod, local)
            except PyExc as e:
                for h in s.handlers:
                    if self.handler_matches(h, e, ns, mod, local):
                        if h.name:
                            (local if local is not None else ns)[h.name] = Opaque("exception")
                        self.exec_block(h.body, ns, mod, local)
                        break
                else:
                    self.exec_block(s.finalbody, ns, mod, local)
                    raise
            except FoldError:
                # the body could not be folded: if it imports a host module inside try (opcode_check's "import dis") the
                # handler is the modelled outcome only when it catches Exception; otherwise give up
                if any(isinstance(x, ast.Import) and not self.is_repo(x.names[0].name) for x in s.body) and \
                        any(h.type is None or ast.unparse(h.type) in ("Exception", "BaseException") for h in s.handlers):
                    for h in s.handlers:
                        if h.type is None or ast.unparse(h.type) in ("Exception", "BaseException"):
                            self.exec_block(h.body, ns, mod, local)
                            break
                else:
                    raise
            else:
                self.exec_block(s.orelse, ns, mod, local)
            self.exec_block(s.finalbody, ns, mod, local)
        elif t is ast.Raise:
            if s.exc is None:
                raise PyExc(Exception, "re-raise", s)
            typ = None
            e = s.exc
            if isinstance(e, ast.Call):
                e = e.func
            try:
                typ = self.ev(e, ns, mod, local)
            except (FoldError, PyExc):
                typ = Exception
            if not (isinstance(typ, type) and issubclass(typ, BaseException)):
                typ = Exception
            raise PyExc(typ, ast.unparse(s.exc)[:80], s)
        elif t is ast.Global:
            if local is not None:
                local.setdefault("__globals__", set()).update(s.names)
        elif t is ast.Nonlocal:
            pass
        elif t is ast.With:
            raise FoldError("with statement")
        else:
            raise FoldError("unsupported stmt %s at %s:%d" % (t.__name__, mod.name, s.lineno))

    def handler_matches(self, h, e, ns, mod, local):
        if h.type is None:
            return True
        try:
            ht = self.ev(h.type, ns, mod, local)
        except (FoldError, PyExc):
            return False
        hts = ht if isinstance(ht, tuple) else (ht,)
        for x in hts:
            if isinstance(x, type) and isinstance(e.typ, type) and issubclass(e.typ, x):
                return True
        return False

    def truth(self, v):
        if isinstance(v, Opaque):
            raise FoldError("truth of %r" % (v,))
        return bool(v)

    def guard_iter(self, it):
        if isinstance(it, (Opaque, FuncRef, ClassRef, ModuleNS)):
            raise FoldError("iteration over %r" % (it,))

    # ---------------------------------------------------------------- expressions
    def external_attr(self, module, name):
        host5 = self.host_triple + ("final", 0)
        if module == "copy" and name in ("deepcopy", "copy"):
            return getattr(copy, name)
        if module == "operator" and name in ("itemgetter", "attrgetter", "add", "sub", "mul", "and_", "or_", "lt", "le", "gt", "ge", "eq", "ne", "index"):
            import operator
            return getattr(operator, name)
        if module == "struct":
            return getattr(struct, name)
        if module == "re":
            return getattr(re, name)
        if module == "sys":
            if name == "version_info":
                return host5
            if name == "builtin_module_names":
                return ("sys", "builtins") if self.implementation != "PyPy" else ("sys", "builtins", "__pypy__")
            if name == "maxsize":
                return 2 ** 63 - 1
            if name == "hexversion":
                return (self.host_triple[0] << 24) | (self.host_triple[1] << 16) | (self.host_triple[2] << 8) | 0xF0
        if module == "platform" and name == "python_implementation":
            impl = self.implementation
            return lambda: impl
        if module == "importlib.util" and name == "MAGIC_NUMBER":
            if self.host not in HOST_MAGIC:
                raise FoldError("no magic modelled for host %r" % (self.host,))
            return struct.pack("<H", HOST_MAGIC[self.host]) + b"\r\n"
        if module == "importlib" and name == "util":
            return self.load("importlib.util")
        if module in ("imp",):
            raise PyExc(ImportError, "imp")
        if module == "os.path" or (module == "os" and name == "path"):
            return Opaque(module + "." + name)
        if module == "types" and name == "CodeType":
            import types
            return types.CodeType
        if module == "collections" and name == "namedtuple":
            import collections
            return collections.namedtuple
        return Opaque(module + "." + name)

    def binop(self, op, l, r):
        t = type(op)
        try:
            if t is ast.Add: return l + r
            if t is ast.Sub: return l - r
            if t is ast.Mult: return l * r
            if t is ast.Mod: return l % r
            if t is ast.BitOr: return l | r
            if t is ast.BitAnd: return l & r
            if t is ast.BitXor: return l ^ r
            if t is ast.LShift: return l << r
            if t is ast.RShift: return l >> r
            if t is ast.FloorDiv: return l // r
            if t is ast.Div: return l / r
            if t is ast.Pow: return l ** r
        except (TypeError, ValueError, ZeroDivisionError) as e:
            if any(isinstance(x, (FuncRef, ClassRef, ModuleNS)) for x in (l, r)):
                raise FoldError("binop on %r, %r" % (l, r))
            raise PyExc(type(e), str(e))
        raise FoldError("binop %s" % t.__name__)

    def ev_tolerant(self, e, ns, mod, local):
        try:
            return self.ev(e, ns, mod, local)
        except (FoldError, PyExc) as x:
            return Opaque("%s (%s)" % (ast.unparse(e)[:40], x))

    def ev_slice(self, sl, ns, mod, local):
        if isinstance(sl, ast.Slice):
            lo = self.ev(sl.lower, ns, mod, local) if sl.lower else None
            hi = self.ev(sl.upper, ns, mod, local) if sl.upper else None
            st = self.ev(sl.step, ns, mod, local) if sl.step else None
            return slice(lo, hi, st)
        return self.ev(sl, ns, mod, local)

    def ev(self, e, ns, mod, local):
        t = type(e)
        if t is ast.Constant:
            return e.value
        if t is ast.Name:
            return self.lookup(e.id, ns, local)
        if t is ast.Tuple:
            out = []
            for x in e.elts:
                if isinstance(x, ast.Starred):
                    out.extend(self.ev(x.value, ns, mod, local))
                else:
                    out.append(self.ev(x, ns, mod, local))
            return tuple(out)
        if t is ast.List:
            out = []
            for x in e.elts:
                if isinstance(x, ast.Starred):
                    out.extend(self.ev(x.value, ns, mod, local))
                else:
                    out.append(self.ev(x, ns, mod, local))
            return out
        if t is ast.Set:
            return {self.ev(x, ns, mod, local) for x in e.elts}
        if t is ast.Dict:
            d = {}
            for k, v in zip(e.keys, e.values):
                if k is None:
                    d.update(self.ev(v, ns, mod, local))
                else:
                    d[self.ev(k, ns, mod, local)] = self.ev(v, ns, mod, local)
            return d
        if t is ast.BinOp:
            return self.binop(e.op, self.ev(e.left, ns, mod, local), self.ev(e.right, ns, mod, local))
        if t is ast.UnaryOp:
            v = self.ev(e.operand, ns, mod, local)
            if isinstance(e.op, ast.Not):
                return not self.truth(v)
            try:
                return {ast.USub: lambda x: -x, ast.Invert: lambda x: ~x, ast.UAdd: lambda x: +x}[type(e.op)](v)
            except TypeError as x:
                raise PyExc(TypeError, str(x))
        if t is ast.BoolOp:
            if isinstance(e.op, ast.And):
                v = True
                for x in e.values:
                    v = self.ev(x, ns, mod, local)
                    if not self.truth(v):
                        return v
                return v
            v = False
            for x in e.values:
                v = self.ev(x, ns, mod, local)
                if self.truth(v):
                    return v
            return v
        if t is ast.Compare:
            left = self.ev(e.left, ns, mod, local)
            for op, r in zip(e.ops, e.comparators):
                rv = self.ev(r, ns, mod, local)
                try:
                    ok = {ast.Eq: lambda a, b: a == b, ast.NotEq: lambda a, b: a != b, ast.Lt: lambda a, b: a < b,
                          ast.LtE: lambda a, b: a <= b, ast.Gt: lambda a, b: a > b, ast.GtE: lambda a, b: a >= b,
                          ast.In: lambda a, b: a in b, ast.NotIn: lambda a, b: a not in b, ast.Is: lambda a, b: a is b,
                          ast.IsNot: lambda a, b: a is not b}[type(op)](left, rv)
                except TypeError as x:
                    if isinstance(rv, ModuleNS) or isinstance(left, ModuleNS):
                        raise FoldError("compare with module")
                    raise PyExc(TypeError, str(x))
                if not ok:
                    return False
                left = rv
            return True
        if t is ast.IfExp:
            return self.ev(e.body if self.truth(self.ev(e.test, ns, mod, local)) else e.orelse, ns, mod, local)
        if t is ast.Subscript:
            obj = self.ev(e.value, ns, mod, local)
            if isinstance(obj, Opaque):
                if obj.what.startswith("typing."):
                    return obj
                raise FoldError("subscript of %r" % (obj,))
            if isinstance(obj, type):
                return obj  # Dict[str, int] style annotations on builtins
            key = self.ev_slice(e.slice, ns, mod, local)
            try:
                return obj[key]
            except (KeyError, IndexError, TypeError) as x:
                if isinstance(obj, (FuncRef, ClassRef, ModuleNS)):
                    raise FoldError("subscript of %r" % (obj,))
                raise PyExc(type(x), str(x), e)
        if t is ast.Attribute:
            obj = self.ev(e.value, ns, mod, local)
            return self.getattr(obj, e.attr)
        if t is ast.JoinedStr:
            out = ""
            for v in e.values:
                if isinstance(v, ast.Constant):
                    out += v.value
                else:
                    x = self.ev(v.value, ns, mod, local)
                    if isinstance(x, (Opaque, FuncRef, ClassRef, ModuleNS, Instance)):
                        raise FoldError("format of %r" % (x,))
                    spec = self.ev(v.format_spec, ns, mod, local) if v.format_spec else ""
                    if v.conversion == 114:
                        x = repr(x)
                    elif v.conversion == 115:
                        x = str(x)
                    out += format(x, spec)
            return out
        if t in (ast.ListComp, ast.SetComp, ast.GeneratorExp, ast.DictComp):
            return self.comp(e, ns, mod, local)
        if t is ast.Lambda:
            f = FuncRef(mod.name + ".<lambda>", e, mod, closure=local)
            f.defaults = [self.ev_tolerant(d, ns, mod, local) for d in e.args.defaults]
            f.kw_defaults = []
            f.decorators = []
            return f
        if t is ast.Call:
            return self.call(e, ns, mod, local)
        if t is ast.Starred:
            raise FoldError("starred")
        if t is ast.Yield or t is ast.YieldFrom or t is ast.Await:
            raise FoldError("generator")
        if t is ast.NamedExpr:
            v = self.ev(e.value, ns, mod, local)
            self.store(e.target, v, ns, mod, local)
            return v
        raise FoldError("unsupported expr %s" % t.__name__)

    def getattr(self, obj, attr):
        if isinstance(obj, ModuleNS):
            if obj.external:
                return self.external_attr(obj.name, attr)
            if attr in obj.ns:
                return obj.ns[attr]
            sub = obj.name + "." + attr
            if os.path.exists(self.path_of(sub)):
                return self.load(sub)
            raise PyExc(AttributeError, "module %s has no attribute %s" % (obj.name, attr))
        if isinstance(obj, Opaque):
            return Opaque(obj.what + "." + attr)
        if isinstance(obj, ClassRef):
            v = obj.lookup(attr)
            if v is None and attr not in obj.ns:
                if attr == "__name__":
                    return obj.name
                raise PyExc(AttributeError, "%s.%s" % (obj.qualname, attr))
            return v
        if isinstance(obj, Instance):
            if attr in obj.attrs:
                return obj.attrs[attr]
            v = obj.cls.lookup(attr)
            if isinstance(v, FuncRef):
                return BoundMethod(v, obj)
            if v is None:
                raise PyExc(AttributeError, "%s.%s" % (obj.cls.qualname, attr))
            return v
        if isinstance(obj, FuncRef):
            if attr == "__name__":
                return obj.name
            raise FoldError("attribute %s of %r" % (attr, obj))
        try:
            return getattr(obj, attr)
        except AttributeError as x:
            raise PyExc(AttributeError, str(x))

    def comp(self, e, ns, mod, local):
        out = []
        scope = {"__closure__": local} if local is not None else {}

        def rec(i):
            if i == len(e.generators):
                if isinstance(e, ast.DictComp):
                    out.append((self.ev(e.key, ns, mod, scope), self.ev(e.value, ns, mod, scope)))
                else:
                    out.append(self.ev(e.elt, ns, mod, scope))
                return
            g = e.generators[i]
            it = self.ev(g.iter, ns, mod, scope)
            self.guard_iter(it)
            for x in list(it):
                self.store(g.target, x, ns, mod, scope)
                if all(self.truth(self.ev(c, ns, mod, scope)) for c in g.ifs):
                    rec(i + 1)

        rec(0)
        if isinstance(e, ast.SetComp):
            return set(out)
        if isinstance(e, ast.DictComp):
            return dict(out)
        return out

    def call(self, c, ns, mod, local):
        if isinstance(c.func, ast.Name) and c.func.id in ("locals", "globals", "vars") and not c.args:
            if c.func.id == "globals":
                return ns
            return local if local is not None else ns
        f = self.ev(c.func, ns, mod, local)
        args = []
        for a in c.args:
            if isinstance(a, ast.Starred):
                args.extend(self.ev(a.value, ns, mod, local))
            else:
                args.append(self.ev(a, ns, mod, local))
        kwargs = {}
        for k in c.keywords:
            if k.arg is None:
                kwargs.update(self.ev(k.value, ns, mod, local))
            else:
                kwargs[k.arg] = self.ev(k.value, ns, mod, local)
        return self.call_value(f, args, kwargs, c)

    def call_value(self, f, args, kwargs, node=None):
        if f is None:
            return None  # print / open placeholders: no effect on tables
        if isinstance(f, FuncRef):
            return self.apply(f, args, kwargs)
        if isinstance(f, BoundMethod):
            return self.apply(f.func, [f.self] + list(args), kwargs)
        if isinstance(f, ClassRef):
            inst = Instance(f)
            init = f.lookup("__init__")
            if isinstance(init, FuncRef):
                self.apply(init, [inst] + list(args), kwargs)
            return inst
        if isinstance(f, Opaque):
            raise FoldError("call of %r" % (f,))
        if f is getattr:
            obj = args[0]
            if isinstance(obj, (ModuleNS, ClassRef, Instance, Opaque)):
                try:
                    return self.getattr(obj, args[1])
                except PyExc:
                    if len(args) == 3:
                        return args[2]
                    raise
            try:
                return getattr(*args)
            except AttributeError as x:
                raise PyExc(AttributeError, str(x))
        if f is hasattr:
            obj = args[0]
            if isinstance(obj, (ModuleNS, ClassRef, Instance)):
                try:
                    self.getattr(obj, args[1])
                    return True
                except PyExc:
                    return False
            if isinstance(obj, Opaque):
                raise FoldError("hasattr on %r" % (obj,))
            return hasattr(*args)
        if f is isinstance:
            if isinstance(args[0], (Opaque,)):
                raise FoldError("isinstance of opaque")
            if isinstance(args[0], (FuncRef, ClassRef, ModuleNS, Instance)):
                return False
        for a in list(args) + list(kwargs.values()):
            if isinstance(a, Opaque):
                raise FoldError("call %s with opaque argument" % getattr(f, "__name__", f))
        if any(isinstance(a, (FuncRef, BoundMethod)) for a in args) and f in (map, filter, sorted, min, max):
            raise FoldError("higher-order builtin with repo function")
        try:
            r = f(*args, **kwargs)
        except FoldError:
            raise
        except (KeyError, IndexError, TypeError, ValueError, AttributeError, struct.error, StopIteration, UnicodeError) as x:
            raise PyExc(type(x), str(x), node)
        if isinstance(r, (map, filter, zip)) or type(r).__name__ in ("generator",):
            r = list(r)
        return r

    def apply(self, f, args, kwargs):
        node = f.node
        self.depth += 1
        if self.depth > 60:
            self.depth -= 1
            raise FoldError("call depth")
        try:
            local = {"__closure__": f.closure, "__qualname__": f.qualname}
            a = node.args
            params = list(a.posonlyargs) + list(a.args)
            defaults = getattr(f, "defaults", [])
            nd = len(params) - len(defaults)
            if len(args) > len(params) and not a.vararg:
                raise PyExc(TypeError, "too many positional arguments for %s" % f.qualname)
            kwargs = dict(kwargs)
            for i, p in enumerate(params):
                if i < len(args):
                    local[p.arg] = args[i]
                elif p.arg in kwargs:
                    local[p.arg] = kwargs.pop(p.arg)
                elif i >= nd:
                    local[p.arg] = defaults[i - nd]
                else:
                    raise PyExc(TypeError, "missing argument %s for %s" % (p.arg, f.qualname))
            if a.vararg:
                local[a.vararg.arg] = tuple(args[len(params):])
            for p, d in zip(a.kwonlyargs, getattr(f, "kw_defaults", [])):
                if p.arg in kwargs:
                    local[p.arg] = kwargs.pop(p.arg)
                elif d is not None:
                    local[p.arg] = d
                else:
                    raise PyExc(TypeError, "missing kw-only %s" % p.arg)
            if a.kwarg:
                local[a.kwarg.arg] = kwargs
            elif kwargs:
                raise PyExc(TypeError, "unexpected keyword %s for %s" % (sorted(kwargs), f.qualname))
            if isinstance(node, ast.Lambda):
                return self.ev(node.body, f.module.ns, f.module, local)
            if is_generator(node):
                raise FoldError("generator function %s" % f.qualname)
            try:
                self.exec_block(node.body, f.module.ns, f.module, local)
                return None
            except ReturnEx as r_:
                return r_.v
        finally:
            self.depth -= 1


class Instance:
    def __init__(self, cls):
        self.cls = cls
        self.attrs = {}

    def __repr__(self):
        return "<instance of %s>" % self.cls.qualname


class BoundMethod:
    def __init__(self, func, self_):
        self.func, self.self = func, self_

    def __repr__(self):
        return "<bound %s>" % self.func.qualname


# ------------------------------------------------------------------------------------------------ convenience
_CACHE = {}


def folded(root=None, host=(3, 12), implementation="CPython"):
    """Fold the table-bearing part of the package the way `import xdis` would populate it for the modelled host."""
    from .repo import REPO_ROOT
    root = root or REPO_ROOT
    key = (root, host, implementation)
    if key not in _CACHE:
        F = Folder(root, host, implementation)
        F.load("xdis")
        # make sure every table module is folded even if nothing imports it (opcode_1x ... are bases, imported anyway)
        d = os.path.join(root, "xdis", "opcodes")
        for fn in sorted(os.listdir(d)):
            if fn.startswith("opcode_") and fn.endswith(".py"):
                F.load("xdis.opcodes." + fn[:-3])
        for must in ("xdis.magics", "xdis.op_imports", "xdis.opcodes.base", "xdis.version_info"):
            F.load(must)
        _CACHE[key] = F
    return _CACHE[key]
