"""Line-table encoders decided independently of how they are written (C19).

An encoder is specialised for a table of two or three entries whose offsets and lines are *symbols with declared integer ranges*
(`Spec.ranges`).  Comparisons over such symbols are decided by interval reasoning; one that the current range does not decide raises
`NeedSplit`, and the driver here splits the range at that boundary and runs both halves.  Inside a bucket every chunking loop has a
decided test, so the specialiser unrolls it and the encoded table comes out as an explicit sequence of byte terms (affine in the
symbols).  That sequence is then handed to the *reference* decoder of the table format (dis.findlinestarts of <= 3.9, signed or
unsigned line bytes; co_lines()/findlinestarts of 3.10), executed over the same interval domain, and the line starts it reports are
compared -- as affine terms -- with the mapping the encoder was given.  No accumulator, helper, loop form or constant name is
recognised syntactically."""
import ast

from .sve import Guard, Lin, NeedSplit, Op, Spec, Sym, add, show


class Undecodable(Exception):
    pass


# ----------------------------------------------------------------------------------------------- byte sequence of the encoded table
def flatten(t, out, spec):
    """append the byte terms of an encoded-table term to out (ints 0..255 or symbolic terms)"""
    if isinstance(t, (bytes, bytearray)):
        out.extend(t)
    elif isinstance(t, str):
        out.extend(ord(c) for c in t)
    elif isinstance(t, Op) and t.op == "concat":
        for a in t.args:
            flatten(a, out, spec)
    elif isinstance(t, Op) and t.op == "bytesof":
        for a in t.args:
            out.append(a)
    elif isinstance(t, Op) and t.op == "call" and t.args and t.args[0] in ("chr", "unichr"):
        out.append(t.args[1])
    elif isinstance(t, Op) and t.op == "call" and t.args and t.args[0] in ("bytes", "bytearray", "str") and len(t.args) == 2:
        flatten(t.args[1], out, spec)
    elif isinstance(t, Op) and t.op == "call" and isinstance(t.args[0], Op) and t.args[0].op == "attr" and t.args[0].args[1] == "join" and len(t.args) == 2 \
            and isinstance(t.args[1], (list, tuple)) and t.args[0].args[0] in ("", b""):
        for a in t.args[1]:
            flatten(a, out, spec)
    elif isinstance(t, Op) and t.op == "call" and isinstance(t.args[0], Op) and t.args[0].op == "attr" and t.args[0].args[1] in ("encode", "decode") and len(t.args) >= 1:
        flatten(t.args[0].args[0], out, spec)  # latin-1 style re-typing of a chr()-built string keeps the ordinals
    elif isinstance(t, (list, tuple)):
        for a in t:
            flatten(a, out, spec)
    else:
        raise Undecodable("encoded table is not a byte sequence the analysis can read: %s" % show(t)[:100])


def split_at(t, value, spec):
    """ask for the range of the single ranged atom of t to be split so that t <= value and t > value fall into different buckets"""
    from .sve import lin
    lt = lin(t)
    if lt is not None and len(lt.terms) == 1:
        (a, k), = lt.terms.items()
        if k in (1, -1) and repr(a) in spec.ranges:
            ar = spec.ranges[repr(a)]
            av = (value - lt.const) if k == 1 else (lt.const - value - 1)
            if ar[0] <= av < ar[1]:
                raise NeedSplit(repr(a), av)
    return None


def unsigned_byte(b, spec):
    """value 0..255 of a byte term (x & 0xFF of a ranged x is resolved), as an affine term"""
    if isinstance(b, Op) and b.op == "bits" and b.args[1] == 0 and b.args[2] == 8:
        r = spec.interval(b.args[0])
        if r is None:
            raise Undecodable("byte %s has no known range" % show(b))
        if 0 <= r[0] and r[1] <= 255:
            return b.args[0]
        if -256 <= r[0] and r[1] <= -1:
            return add(b.args[0], 256)
        split_at(b.args[0], -1, spec)
        raise Undecodable("byte %s spans the wrap-around of & 0xFF (range %s)" % (show(b), r))
    r = spec.interval(b)
    if r is None:
        raise Undecodable("byte %s has no known range" % show(b))
    if r[0] < 0 or r[1] > 255:
        raise Undecodable("byte %s out of range: %d..%d" % (show(b), r[0], r[1]))
    return b


def signed_of(u, spec):
    r = spec.interval(u)
    if r[1] <= 127:
        return u
    if r[0] >= 128:
        return add(u, -256)
    split_at(u, 127, spec)
    raise Undecodable("byte %s straddles the sign bit (range %s)" % (show(u), r))


def is_zero(t, spec):
    """True / False; raises Undecodable when the ranges do not decide it"""
    r = spec.interval(t)
    if r is None:
        raise Undecodable("cannot decide whether %s is zero" % show(t))
    if r == (0, 0):
        return True
    if r[0] > 0 or r[1] < 0:
        return False
    split_at(t, -1 if r[0] < 0 else 0, spec)
    raise Undecodable("%s may or may not be zero (range %s)" % (show(t), r))


# ----------------------------------------------------------------------------------------------- reference decoders (CPython's, over terms)
def ref_lnotab(bts, first, signed, spec, code_len=None, dup_lines=False):
    """dis.findlinestarts for co_lnotab (<= 3.9): list of (address term, line term).  code_len: the 3.8/3.9 readers stop at the first entry at or past the
    end of the bytecode.  dup_lines: xdis's own extension (an entry with a real address increment below 255 is reported even when the line is unchanged)."""
    if len(bts) % 2:
        raise Undecodable("odd number of bytes in co_lnotab")
    out = []
    addr, line, last = 0, first, None
    a = 0
    for i in range(0, len(bts), 2):
        a = unsigned_byte(bts[i], spec)
        l = unsigned_byte(bts[i + 1], spec)
        if not is_zero(a, spec):
            dup = dup_lines and spec.interval(a)[1] < 255
            if dup_lines and not dup and spec.interval(a)[0] < 255:
                split_at(a, 254, spec)
                raise Undecodable("increment %s may or may not be 255" % show(a))
            if last is None or not is_zero(add(line, last, -1), spec) or dup:
                out.append((addr, line))
                last = line
            addr = add(addr, a)
            if code_len is not None:
                r = spec.interval(add(addr, code_len, -1))
                if r is None:
                    raise Undecodable("cannot compare %s with the code length" % show(addr))
                if r[0] >= 0:
                    return out
                if r[1] >= 0:
                    split_at(add(addr, code_len, -1), -1, spec)
                    raise Undecodable("%s may or may not be past the end of the code" % show(addr))
        line = add(line, signed_of(l, spec) if signed else l)
    final_dup = False
    if dup_lines and len(bts):
        ra = spec.interval(a)
        final_dup = ra[0] > 0 and ra[1] < 255
        if not final_dup and ra[1] > 0 and ra[0] < 255 and ra != (0, 0) and not (ra[0] >= 255):
            split_at(a, 0 if ra[0] <= 0 else 254, spec)
            raise Undecodable("last increment %s straddles 0 or 255" % show(a))
    if last is None or not is_zero(add(line, last, -1), spec) or final_dup:
        out.append((addr, line))
    return out


def ref_linetable310(bts, first, spec):
    """co_lines() + dis.findlinestarts of 3.10: list of (start term, line term)"""
    if len(bts) % 2:
        raise Undecodable("odd number of bytes in co_linetable")
    out = []
    end, line, last = 0, first, None
    for i in range(0, len(bts), 2):
        ln = unsigned_byte(bts[i], spec)
        d = signed_of(unsigned_byte(bts[i + 1], spec), spec)
        start = end
        end = add(end, ln)
        rd = spec.interval(d)
        noline = rd == (-128, -128)
        if not noline and rd[0] <= -128:
            split_at(d, -128, spec)
            raise Undecodable("line delta %s may be the no-line marker -128" % show(d))
        if not noline:
            line = add(line, d)
        if is_zero(ln, spec):
            continue
        if noline:
            continue  # a range without a line: findlinestarts of 3.10 skips it (lastline unchanged)
        if last is None or not is_zero(add(line, last, -1), spec):
            out.append((start, line))
            last = line
    return out, end


# ----------------------------------------------------------------------------------------------- bucketed specialisation
def bucketed(F, fn, make_instance, ranges, result_attr, max_cases=400, extra_assume=None, check=None):
    """run fn on make_instance() once per bucket; returns [(ranges, spec, result term, check result)], splitting ranges on demand (the encoder's own
    comparisons, and those of `check` -- the reference decoder -- may each ask for a split)"""
    todo = [dict(ranges)]
    done = []
    runs = 0
    while todo:
        rg = todo.pop()
        runs += 1
        if runs > max_cases:
            raise Undecodable("more than %d buckets: the encoder's comparisons do not settle" % max_cases)
        me = make_instance()
        sp = Spec(F, assume=dict(extra_assume or {}))
        sp.ranges = dict(rg)
        try:
            sp.run(fn, [me])
            verdict = check(rg, sp, me.attrs.get(result_attr)) if check else None
        except NeedSplit as ns:
            lo, hi = rg[ns.atom]
            if lo >= hi:
                raise Undecodable("range of %s cannot be split further at %s" % (ns.atom, ns.point))
            a, b = dict(rg), dict(rg)
            a[ns.atom] = (lo, ns.point)
            b[ns.atom] = (ns.point + 1, hi)
            todo += [b, a]
            continue
        done.append((rg, sp, me.attrs.get(result_attr), verdict))
    return done, runs


def same(a, b, spec):
    try:
        return is_zero(add(a, b, -1), spec)
    except Undecodable:
        return False
