"""Specialisation of xdis.load.load_module_from_file_object for one magic number (shared by C01, C06, C08, C11).

The first 4-byte read of the stream is bound to the *concrete* magic bytes of the configuration (constant
propagation); every later read stays symbolic.  The result is the ordered read trace, the disposition (accepted /
rejected with ImportError / diverted to the dropbox reader) and the value terms of the returned 7-tuple."""
import struct

from .fold import FuncRef
from .report import AnalysisError
from .sve import Fall, Guard, Op, Raise, Ret, Spec, Split, Sym, flatten_effects, leaves, show

LOADERS = ("xdis.unmarshal.load_code", "xdis.marsh.load", "loads", "xdis.dropbox.decrypt25.fix_dropbox_pyc")


def magic_bytes(magic_int):
    return struct.pack("<H", magic_int) + (b"\x99\x00" if magic_int in (39170, 39171) else b"\r\n")


class HeaderSummary(object):
    def __init__(self, magic_int):
        self.magic_int = magic_int
        self.reads = []  # (n, guards tuple(str), sym) after the magic read
        self.disposition = None  # "accept" | "reject" | "dropbox" | "mixed"
        self.ret = None  # 7-tuple of terms
        self.loader_calls = []  # (name, args, guards, index in effect order)
        self.effects = []
        self.raises = []  # (exc name, guards)
        self.order = []  # effect kinds in order: 'read' / 'load' / 'seek' / 'close'
        self.notes = []


def analyse(T, magic_int, fast_load=False, get_code=True, first4=None):
    F = T.F
    ld = F.modules.get("xdis.load")
    if ld is None or not isinstance(ld.ns.get("load_module_from_file_object"), FuncRef):
        raise AnalysisError("anchor vanished: xdis.load.load_module_from_file_object")
    f = ld.ns["load_module_from_file_object"]
    sp = Spec(F, opaque_funcs={"xdis.unmarshal.load_code", "xdis.marsh.load", "xdis.dropbox.decrypt25.fix_dropbox_pyc",
                               "traceback.print_exc", "print_exc"})
    fp = Sym("fp", "stream")
    state = {"n": 0}
    mb = first4 if first4 is not None else magic_bytes(magic_int)

    def hook(spec, name, fv, args, kw, node):
        if name == "fp.read" and state["n"] == 0:
            state["n"] += 1
            spec.effect("read-magic", "fp", args[0] if args else None, node=node)
            return mb
        return NotImplemented

    sp.hooks.append(hook)
    out = sp.run(f, [fp], {"filename": Sym("filename", "str"), "fast_load": fast_load, "get_code": get_code})
    hs = HeaderSummary(magic_int)
    hs.effects = sp.effects
    idx = 0
    for k, e in flatten_effects(sp.effects):
        g = tuple(show(x) for x in e.guards)
        if k == "read-magic":
            hs.order.append(("read-magic", e.args[1], g))
        elif k == "read":
            hs.reads.append((e.args[1], g, e.args[2]))
            hs.order.append(("read", e.args[1], g))
        elif k == "call" and (str(e.args[0]) in LOADERS or str(e.args[0]).endswith(".loads")):
            hs.loader_calls.append((str(e.args[0]), e.args[1], g))
            hs.order.append(("load", str(e.args[0]), g))
        elif k.startswith("stream."):
            hs.order.append((k[7:], None, g))
        elif k == "raise":
            hs.raises.append((show(e.args[0]), g))
    lv = leaves(out)
    kinds = set()
    for g, l in lv:
        if isinstance(l, Raise):
            kinds.add("reject:" + (l.exc.args[0] if isinstance(l.exc, Op) and l.exc.args else "?"))
        elif isinstance(l, Ret):
            v = l.value
            if isinstance(v, tuple) and len(v) == 7:
                kinds.add("accept")
                hs.ret = v if hs.ret is None else hs.ret
            elif isinstance(v, Op) and v.op == "call" and "fix_dropbox_pyc" in str(v.args[0]):
                kinds.add("dropbox")
            else:
                kinds.add("other-return")
                hs.notes.append("returns %s" % show(v))
        elif isinstance(l, Fall):
            kinds.add("falls-off")
    hs.leaf_kinds = sorted(kinds)
    hs.leaves = lv
    if len(kinds) == 1:
        k = next(iter(kinds))
        hs.disposition = "reject" if k.startswith("reject") else k
    else:
        hs.disposition = "mixed"
    return hs
