"""Entry point:  ./check <ID> [--tier quick|thorough] [--replay <file>]   |   ./check --all   |   ./check --list"""
import importlib
import json
import os
import sys
import traceback

from .report import AnalysisError, Report

RULES = {}  # property id -> module name; filled by discovery


def discover():
    d = os.path.join(os.path.dirname(__file__), "rules")
    for f in sorted(os.listdir(d)):
        if f.startswith("c") and f.endswith(".py") and f[1:3].isdigit():
            RULES["C" + f[1:3]] = "xv.rules." + f[:-3]


def run_one(pid, tier, only_key=None):
    seed = int(os.environ.get("VERIF_SEED", "0") or 0)
    rep = Report(pid, tier=tier, seed=seed, only_key=only_key)
    try:
        mod = importlib.import_module(RULES[pid])
        mod.run(rep, tier)
        if tier == "thorough" and not only_key and not os.environ.get("XV_NO_EVIDENCE"):
            sensitivity(rep, pid)
        return rep.finish()
    except AnalysisError as e:
        print("ANALYSIS-ERROR property=%s %s" % (pid, e))
        return 2
    except Exception:
        print("ANALYSIS-ERROR property=%s internal error in the analyser:" % pid)
        traceback.print_exc(file=sys.stdout)
        return 2


def sensitivity(rep, pid):
    """thorough tier: apply this property's seeded mutants (xv/selftest.py) to scratch copies and record how many the check
    detects.  A missed mutant lowers the reported sensitivity; it never turns into a violation."""
    from concurrent.futures import ThreadPoolExecutor
    from .selftest import CASES, run_case
    cases = [c for c in CASES if c[1] == pid]
    if not cases:
        return
    with ThreadPoolExecutor(max_workers=8) as ex:
        res = list(ex.map(run_case, cases))
    fire = [r for r in res if r["kind"] == "fire" and not r["status"].startswith("skipped") and not r["status"].startswith("tolerated")]
    silent = [r for r in res if r["kind"] == "silent" and not r["status"].startswith("skipped")]
    rep.extra["mutation_sensitivity"] = {
        "must_fire": len(fire), "detected": sum(1 for r in fire if r["status"].startswith("detected")),
        "must_stay_silent": len(silent), "stayed_silent": sum(1 for r in silent if r["status"] == "silent"),
        "cases": [{"id": r["id"], "kind": r["kind"], "status": r["status"], "first_key": (r.get("violations") or [None])[0]} for r in res]}


def main(argv):
    discover()
    tier = os.environ.get("VERIF_TIER", "quick") or "quick"
    args = list(argv)
    only_key = None
    if "--tier" in args:
        i = args.index("--tier")
        tier = args[i + 1]
        del args[i:i + 2]
    if "--replay" in args:
        i = args.index("--replay")
        with open(args[i + 1]) as f:
            only_key = json.load(f)["obligation"]["key"]
        del args[i:i + 2]
    if tier not in ("quick", "thorough"):
        tier = "quick"
    if not args or args[0] == "--list":
        print(" ".join(sorted(RULES)))
        return 0
    if args[0] == "--selftest":
        from .selftest import main as st
        return st(args[1:])
    if args[0] == "--all":
        rc = 0
        for pid in sorted(RULES):
            rc = max(rc, run_one(pid, tier))
        return rc
    pid = args[0].upper()
    if pid not in RULES:
        print("ANALYSIS-ERROR no check for %s" % pid)
        return 2
    return run_one(pid, tier, only_key)


if __name__ == "__main__":
    sys.exit(main(sys.argv[1:]))
