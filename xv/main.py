"""Entry point:  ./check <ID> [--tier quick|thorough] [--replay <file>]   |   ./check --all   |   ./check --list"""
import importlib
import json
import os
import sys
import traceback

from .report import AnalysisError, Report

RULES = {}  # property id -> module name; filled by discovery


def discover():
    d = os.path.join(os.path.dirname(__file__), "rules")
    for f in sorted(os.listdir(d)):
        if f.startswith("c") and f.endswith(".py") and f[1:3].isdigit():
            RULES["C" + f[1:3]] = "xv.rules." + f[:-3]


def run_one(pid, tier, only_key=None):
    seed = int(os.environ.get("VERIF_SEED", "0") or 0)
    rep = Report(pid, tier=tier, seed=seed, only_key=only_key)
    try:
        mod = importlib.import_module(RULES[pid])
        mod.run(rep, tier)
        return rep.finish()
    except AnalysisError as e:
        print("ANALYSIS-ERROR property=%s %s" % (pid, e))
        return 2
    except Exception:
        print("ANALYSIS-ERROR property=%s internal error in the analyser:" % pid)
        traceback.print_exc(file=sys.stdout)
        return 2


def main(argv):
    discover()
    tier = os.environ.get("VERIF_TIER", "quick") or "quick"
    args = list(argv)
    only_key = None
    if "--tier" in args:
        i = args.index("--tier")
        tier = args[i + 1]
        del args[i:i + 2]
    if "--replay" in args:
        i = args.index("--replay")
        with open(args[i + 1]) as f:
            only_key = json.load(f)["obligation"]["key"]
        del args[i:i + 2]
    if tier not in ("quick", "thorough"):
        tier = "quick"
    if not args or args[0] == "--list":
        print(" ".join(sorted(RULES)))
        return 0
    if args[0] == "--selftest":
        from .selftest import main as st
        return st(args[1:])
    if args[0] == "--all":
        rc = 0
        for pid in sorted(RULES):
            rc = max(rc, run_one(pid, tier))
        return rc
    pid = args[0].upper()
    if pid not in RULES:
        print("ANALYSIS-ERROR no check for %s" % pid)
        return 2
    return run_one(pid, tier, only_key)


if __name__ == "__main__":
    sys.exit(main(sys.argv[1:]))
