"""Summaries of the pure-Python unmarshaller's readers (shared by C01 and C10).

Each t_* reader of xdis.unmarshal._VersionIndependentUnmarshaller is specialised for one (magic, version) configuration
with the stream symbolic.  From the effect trace we extract, in normal form:
   payload shape   [["u", fmt] | ["bytes", lenfmt] | ["objs", lenfmt] | ["objs-until-null"] | ["digits", lenfmt, digitfmt]]
   result kind     int / float / complex / text / bytes / bytes-or-str / tuple / list / set / frozenset / dict / ...
   reference-table behaviour on every return path (never / leaf / reserve / mutable-first / or what is wrong)
   read/format agreement of every unpack(fmt, fp.read(n))
"""
import struct

from .fold import ClassRef, FuncRef, Instance
from .report import AnalysisError
from .sve import (Brk, Cont, Effect, Fall, Guard, Lin, Op, Raise, Ret, Spec, Split, Sym, Top, flatten_effects, leaves, show)


def unmarshaller(T):
    um = T.F.modules.get("xdis.unmarshal")
    if um is None:
        raise AnalysisError("anchor vanished: xdis.unmarshal")
    cls = um.ns.get("_VersionIndependentUnmarshaller")
    tbl = um.ns.get("UNMARSHAL_DISPATCH_TABLE")
    if not isinstance(cls, ClassRef) or not isinstance(tbl, dict):
        raise AnalysisError("anchor vanished: _VersionIndependentUnmarshaller / UNMARSHAL_DISPATCH_TABLE")
    return um, cls, tbl


def marshal_version(version, magic):
    v = tuple(version[:2])
    if v >= (3, 4):
        return 3 if magic in (3250, 3260, 3270) else 4
    if v >= (2, 5):
        return 2
    if v >= (2, 4):
        return 1
    return 0


def normfmt(f):
    if isinstance(f, str) and len(f) == 2 and f[0] in "<=@" and f[1] in "bBc":
        return f[1]
    return f


class ReaderSummary(object):
    def __init__(self):
        self.shape = []
        self.kind = None
        self.ref = None  # behaviour string
        self.ref_problems = []  # (detail, message)
        self.fmt_problems = []  # (detail, message)
        self.returns = []
        self.raises = []
        self.dict_exits = []  # guard strings of loop breaks (t_dict)
        self.intern_string_appends = 0
        self.decode = None  # (codec args) for text results
        self.effects = []
        self.notes = []
        self.line = 0
        self.child_bfs = []


def new_instance(cls, magic, version):
    inst = Instance(cls)
    inst.attrs.update(fp=Sym("fp", "stream"), magic_int=magic, version_tuple=version, internObjects=Sym("internObjects", "list"),
                      internStrings=Sym("internStrings", "list"), code_objects=Sym("code_objects", "dict"), bytes_for_s=False,
                      marshal_version=marshal_version(version, magic), is_graal=False, is_pypy=False)
    return inst


def robj_hook(spec, name, fv, args, kw, node):
    if name.endswith(".r_object"):
        r = spec.fresh("obj")
        b = kw.get("bytes_for_s", args[0] if len(args) > 0 else False)
        spec.effect("robj", b, r, node=node)
        return r
    return NotImplemented


def classify_value(v, null_value=None):
    """result kind of a returned term"""
    if v is None:
        return "None"
    if v is True:
        return "True"
    if v is False:
        return "False"
    if v is Ellipsis:
        return "Ellipsis"
    if v is StopIteration:
        return "StopIteration"
    if isinstance(v, Instance):
        names = [c.name for c in v.cls.mro()]
        if "LongTypeForPython3" in names:
            return "py2-long"
        if "UnicodeForPython3" in names:
            return "text"
        return "instance:" + v.cls.name
    if isinstance(v, bool):
        return str(v)
    if isinstance(v, int):
        return "int"
    if isinstance(v, Lin):
        return "int"
    if isinstance(v, tuple):
        return "tuple"
    if isinstance(v, list):
        return "list"
    if isinstance(v, dict):
        return "dict"
    if isinstance(v, Guard):
        a, b = classify_value(v.a), classify_value(v.b)
        if a == b:
            return a
        if {a, b} == {"text", "bytes"}:
            return "bytes-or-str"
        return "%s|%s" % tuple(sorted((a, b)))
    if isinstance(v, Sym):
        if v.kind in ("int", "byte"):
            return "int"
        if v.kind in ("tuple", "list", "dict", "set", "float", "str"):
            return {"str": "text"}.get(v.kind, v.kind)
        if v.kind == "bytes":
            return "bytes"
        return "sym:" + v.name
    if isinstance(v, Op):
        if v.op == "call":
            f = v.args[0]
            if f in ("float", "complex", "frozenset", "set", "tuple", "list", "dict", "int"):
                return f
            if isinstance(f, Op) and f.op == "attr" and f.args[1] == "decode":
                return "text"
            if isinstance(f, str) and f.endswith("UnicodeForPython3"):
                return "text"
        if v.op == "new":
            if v.args[0] == "UnicodeForPython3":
                return "text"
            if v.args[0] == "LongTypeForPython3":
                return "py2-long"
        if v.op == "index":
            base = v.args[0]
            if isinstance(base, Sym) and base.name == "internStrings":
                return "interned-table-entry"
            if isinstance(base, Sym) and base.name == "internObjects":
                return "ref-table-entry"
        if v.op in ("bits", "or", "and", "shr", "mul", "add", "sub"):
            return "int"
        return "op:" + v.op
    return type(v).__name__


def same_object(a, b):
    """is the returned value `a` the very object `b` that was registered?"""
    if a is b:
        return True
    if isinstance(a, Sym) and a.info and a.info.get("identity") is b:
        return True
    if isinstance(a, (Sym, Op, Lin, Guard)) and isinstance(b, (Sym, Op, Lin, Guard)):
        return repr(a) == repr(b)
    if isinstance(a, (int, float, complex, str, bytes, bool)) and type(a) == type(b):
        return a == b and not isinstance(a, (tuple,))
    return False


def guards_apply(eff_guards, leaf_guards):
    lg = set(repr(g) for g in leaf_guards)
    for g in eff_guards:
        if isinstance(g, Op) and g.op == "in-loop":
            continue
        if repr(g) not in lg:
            return False
    return True


def summarise_reader(T, cls, suffix, magic, version, save_ref=True):
    F = T.F
    f = cls.lookup("t_" + suffix)
    if not isinstance(f, FuncRef):
        return None
    rs = ReaderSummary()
    rs.line = f.node.lineno
    sp = Spec(F, opaque_funcs={"to_portable"})
    sp.hooks.append(robj_hook)
    inst = new_instance(cls, magic, version)
    bfs = Sym("bytes_for_s", "bool")
    out = sp.run(f, [inst, save_ref, bfs])
    rs.effects = sp.effects
    flat = flatten_effects(sp.effects)
    # ---------------------------------------------------------------- payload shape + format agreement
    shape = []  # entries: dict(kind=..., fmt=..., fld=Sym)
    by_fld = {}
    loop_depth = 0
    loops = []
    for k, e in flat:
        if k == "unpack":
            fmt, size, n, data = e.args
            if n is None or isinstance(n, (Sym, Op, Lin)) or size != n:
                rs.fmt_problems.append(("unpack(%s)/read(%s)" % (fmt, show(n)), "unpack(%r, ...) needs %d bytes but the read supplies %s" % (fmt, size, show(n))))
            if isinstance(fmt, str) and struct.calcsize(fmt) > 1 and not fmt.startswith("<"):
                rs.fmt_problems.append(("byteorder(%s)" % fmt, "multi-byte format %r is not explicitly little-endian" % fmt))
            ent = {"kind": "u", "fmt": normfmt(fmt), "fld": None, "loop": loop_depth}
            shape.append(ent)
            by_fld[repr(data)] = ent
        elif k == "read":
            n = e.args[1]
            if isinstance(n, Sym) and n.info and "read" in n.info:
                ent = by_fld.get(repr(n.info["read"]))
                if ent is not None and ent["kind"] == "u":
                    ent["kind"] = "bytes"
                else:
                    shape.append({"kind": "bytes", "fmt": "?" + show(n), "loop": loop_depth})
            elif isinstance(n, (Sym, Op, Lin, Guard)):
                shape.append({"kind": "bytes", "fmt": "?" + show(n), "loop": loop_depth})
        elif k == "loop-begin":
            loop_depth += 1
            ls = e.args[3]
            body_kinds = [x.kind for x in flatten_effect_objs(ls.effects)]
            # which field drives the loop: any pre-loop value that is a field symbol and is referenced by the condition
            drv = None
            cond_s = show(ls.cond)
            for name, val in ls.pre.items():
                if isinstance(name, str) and isinstance(val, Sym) and val.info and "read" in val.info:
                    if ("%s:%s" % (ls.tag, name)) in cond_s:
                        drv = by_fld.get(repr(val.info["read"]))
            if drv is None:
                # range(0, abs(fld)) style
                for key, ent in by_fld.items():
                    if key in cond_s:
                        drv = ent
            loops.append((ls, drv, body_kinds))
            if "robj" in body_kinds:
                if drv is not None and drv["kind"] == "u":
                    drv["kind"] = "objs"
                else:
                    exits = [(g, l) for g, l in leaves(ls.out) if isinstance(l, Brk)]
                    if ls.cond is True or (exits and drv is None):
                        shape.append({"kind": "objs-until-null", "fmt": None, "loop": loop_depth})
                        rs.dict_exits = [tuple(g) for g, l in exits]
                    else:
                        shape.append({"kind": "objs", "fmt": "?" + cond_s, "loop": loop_depth})
            elif "unpack" in body_kinds and drv is not None and drv["kind"] == "u":
                drv["kind"] = "digits"
        elif k == "loop-end":
            loop_depth -= 1
    out_shape = []
    skip_next_u_in_loop = False
    for ent in shape:
        if ent["kind"] == "u" and ent.get("loop", 0) > 0:
            # fixed fields read inside a loop belong to the loop's item (digits)
            for prev in out_shape:
                if prev[0] == "digits" and len(prev) == 2:
                    prev.append(ent["fmt"])
                    break
            else:
                out_shape.append(["u*", ent["fmt"]])
            continue
        if ent["kind"] == "objs-until-null":
            out_shape.append(["objs-until-null"])
        else:
            out_shape.append([ent["kind"], ent["fmt"]])
    rs.shape = out_shape
    # ---------------------------------------------------------------- returns / kinds
    lv = leaves(out)
    kinds = set()
    for g, l in lv:
        if isinstance(l, Ret):
            rs.returns.append((g, l.value))
            kinds.add(classify_value(l.value))
        elif isinstance(l, Raise):
            rs.raises.append((g, l.exc))
        elif isinstance(l, Fall):
            rs.returns.append((g, None))
            kinds.add("None")
    rs.kind = "|".join(sorted(kinds)) if kinds else "raises"
    # children are read with the reader's own bytes_for_s argument (a container inside a code object inherits its setting)
    rs.child_bfs = [show(e.args[0]) for k, e in flat if k == "robj"]
    # decode arguments of text results
    for k, e in flat:
        if k == "call" and str(e.args[0]).endswith(".decode"):
            rs.decode = tuple(e.args[1]) + tuple(v for _, v in e.args[2])
    behaviours = ref_behaviour(flat, rs, save_ref)
    rs.ref = "|".join(sorted(behaviours)) if behaviours else "never"
    return rs


def ref_behaviour(flat, rs, save_ref):
    """classify reference-table behaviour on every return path of a reader (fills rs.ref_problems)"""
    order = []  # (kind, effect) in order: 'append', 'insert', 'child'
    for k, e in flat:
        if k == "call" and str(e.args[0]) == "internObjects.append":
            order.append(("append", e))
        elif k == "store-sub" and isinstance(e.args[0], Sym) and e.args[0].name == "internObjects":
            order.append(("insert", e))
        elif k == "robj":
            order.append(("child", e))
        elif k == "call" and str(e.args[0]) == "internStrings.append":
            rs.intern_string_appends += 1
        elif k == "mutate":
            rs.notes.append("unmodelled mutation %s" % (e,))
    behaviours = set()
    for g, val in rs.returns:
        path = [(k, e) for k, e in order if guards_apply(e.guards, g)]
        apps = [(i, e) for i, (k, e) in enumerate(path) if k == "append"]
        ins = [(i, e) for i, (k, e) in enumerate(path) if k == "insert"]
        kids = [i for i, (k, e) in enumerate(path) if k == "child"]
        pathname = " and ".join(show(x) for x in g) or "always"
        if not save_ref:
            if apps or ins:
                rs.ref_problems.append(("no-flag:%s" % pathname, "registers an object although FLAG_REF is not set"))
            behaviours.add("never")
            continue
        if not apps and not ins:
            behaviours.add("never")
            continue
        if len(apps) != 1:
            rs.ref_problems.append(("appends=%d:%s" % (len(apps), pathname), "registers %d objects for one FLAG_REF object" % len(apps)))
            behaviours.add("bad")
            continue
        ai, ae = apps[0]
        appended = ae.args[1][0] if ae.args[1] else None
        before_children = (not kids) or ai < kids[0]
        if ins:
            ii, ie = ins[-1]
            slot_ok = repr(ie.args[1]) == repr(Op("len", Sym("internObjects", "list")))
            val_ok = same_object(val, ie.args[2])
            after_kids = (not kids) or ii > kids[-1]
            if before_children and slot_ok and val_ok and after_kids:
                behaviours.add("reserve")
            else:
                why = []
                if not before_children:
                    why.append("slot reserved after a child object was read")
                if not slot_ok:
                    why.append("final object stored at index %s, not the reserved slot" % show(ie.args[1]))
                if not val_ok:
                    why.append("slot filled with %s but %s is returned" % (show(ie.args[2]), show(val)))
                if not after_kids:
                    why.append("slot filled before all children are read")
                rs.ref_problems.append(("reserve-insert:%s" % pathname, "; ".join(why)))
                behaviours.add("bad")
            continue
        if same_object(val, appended):
            if not kids:
                behaviours.add("leaf")
            elif before_children:
                behaviours.add("mutable-first")
            else:
                # registered after its children: indices of nested FLAG_REF children come first -- wrong order for containers
                rs.ref_problems.append(("late-register:%s" % pathname, "container registered after its children were read (children with FLAG_REF get the lower index)"))
                behaviours.add("bad")
        else:
            rs.ref_problems.append(("registered-object-is-not-result:%s" % pathname,
                                    "the reference table receives %s but the reader returns %s; a later back-reference yields the stale object" % (show(appended), show(val))))
            behaviours.add("bad")
    return behaviours


def flatten_effect_objs(effects):
    out = []
    for e in effects:
        if e.kind == "loop":
            out.extend(flatten_effect_objs(e.args[3].effects))
        else:
            out.append(e)
    return out


# ---------------------------------------------------------------------------------------------------- t_code
def code_layout_of(T, cls, magic, version_hint=None):
    """Specialise t_code for one magic: returns (field trace, to_portable bindings, notes, spec)."""
    F = T.F
    f = cls.lookup("t_code")
    if not isinstance(f, FuncRef):
        raise AnalysisError("anchor vanished: t_code")
    sp = Spec(F, opaque_funcs={"to_portable", "xdis.codetype.to_portable"})
    sp.hooks.append(robj_hook)
    inst = new_instance(cls, magic, ())
    out = sp.run(f, [inst, True, Sym("bytes_for_s", "bool")])
    trace = []  # ("u", fmt, sym) | ("obj", bytes_for_s, sym) | ("loop", ...)
    bindings = None
    for k, e in flatten_effects(sp.effects):
        if k == "unpack":
            fmt, size, n, data = e.args
            trace.append(("u", fmt, repr(data), size == n))
        elif k == "robj":
            trace.append(("obj", e.args[0], repr(e.args[1])))
        elif k == "call" and str(e.args[0]).endswith("to_portable"):
            bindings = dict(e.args[2])
        elif k == "loop-begin":
            trace.append(("loop-begin", e.args[1]))
        elif k == "loop-end":
            trace.append(("loop-end",))
    return trace, bindings, sp, out, inst
