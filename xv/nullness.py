"""Flow-sensitive use-before-None-test analysis for parameters whose declared default is None.

For a function  def f(..., p=None, ...)  every *dereference* of p (p.attr, p[i], x in p, for _ in p, len(p), p(...), *p, arithmetic on p)
must lie in a region where p is known not to be None: inside `if p is not None` / `if p` / after `if p is None: return|raise|p = ...`,
to the right of `p is not None and ...` / `p is None or ...`, in the matching arm of a conditional expression, or after p was rebound.
The walk is syntax-directed over the statement kinds the repository uses (if / while / for / try / with / return / raise / assignments);
it keeps one fact set (names known non-None) per program point and intersects at joins.  Passing p on to another call is not a dereference."""
import ast

DEREF_BUILTINS = {"len", "iter", "sorted", "list", "dict", "tuple", "set", "enumerate", "max", "min", "sum", "reversed", "zip", "map", "filter", "next", "any", "all"}


def optional_params(fn):
    a = fn.args
    out = []
    params = list(a.posonlyargs) + list(a.args)
    for p, d in zip(params[len(params) - len(a.defaults):], a.defaults):
        if isinstance(d, ast.Constant) and d.value is None:
            out.append(p.arg)
    for p, d in zip(a.kwonlyargs, a.kw_defaults):
        if d is not None and isinstance(d, ast.Constant) and d.value is None:
            out.append(p.arg)
    return out


def _is_none(e):
    return isinstance(e, ast.Constant) and e.value is None


def facts(test, names):
    """(names known non-None when test is true, names known non-None when test is false)"""
    if isinstance(test, ast.Name) and test.id in names:
        return {test.id}, set()
    if isinstance(test, ast.UnaryOp) and isinstance(test.op, ast.Not):
        t, f = facts(test.operand, names)
        return f, t
    if isinstance(test, ast.Compare) and len(test.ops) == 1:
        l, r, op = test.left, test.comparators[0], test.ops[0]
        nm = None
        if isinstance(l, ast.Name) and l.id in names and _is_none(r):
            nm = l.id
        elif isinstance(r, ast.Name) and r.id in names and _is_none(l):
            nm = r.id
        if nm:
            if isinstance(op, (ast.IsNot, ast.NotEq)):
                return {nm}, set()
            if isinstance(op, (ast.Is, ast.Eq)):
                return set(), {nm}
        # p == <non-None constant>, p in (...), p > 3 ... : true only for a non-None p when compared for equality with a non-None literal
        if isinstance(l, ast.Name) and l.id in names and isinstance(op, (ast.Eq, ast.In)) and isinstance(r, (ast.Constant, ast.Tuple, ast.List, ast.Set)) and not _is_none(r) and not (
                isinstance(r, (ast.Tuple, ast.List, ast.Set)) and any(_is_none(x) for x in r.elts)):
            return {l.id}, set()
        return set(), set()
    if isinstance(test, ast.Call) and isinstance(test.func, ast.Name) and test.func.id in ("isinstance", "callable", "hasattr") and test.args and isinstance(test.args[0], ast.Name) \
            and test.args[0].id in names:
        if test.func.id == "hasattr" or test.func.id == "callable" or not any(_is_none(x) or ast.unparse(x) in ("type(None)", "NoneType") for x in ast.walk(test.args[1])):
            return {test.args[0].id}, set()
        return set(), set()
    if isinstance(test, ast.BoolOp):
        if isinstance(test.op, ast.And):
            t = set()
            for v in test.values:
                t |= facts(v, names)[0]
            fs = [facts(v, names)[1] for v in test.values]
            f = set.intersection(*fs) if fs else set()
            return t, f
        t_s = [facts(v, names)[0] for v in test.values]
        f = set()
        for v in test.values:
            f |= facts(v, names)[1]
        return (set.intersection(*t_s) if t_s else set()), f
    return set(), set()


class Nullness(object):
    def __init__(self, fn, names=None):
        self.fn = fn
        self.names = set(names if names is not None else optional_params(fn))
        self.derefs = []  # (name, node, how)
        self.guarded = 0

    def run(self):
        self.block(self.fn.body, set())
        return self.derefs

    # ------------------------------------------------------------------ expressions
    def deref(self, name, node, how, S):
        if name in self.names:
            if name in S:
                self.guarded += 1
            else:
                self.derefs.append((name, node, how))

    def expr(self, e, S):
        if e is None:
            return
        if isinstance(e, ast.BoolOp):
            cur = set(S)
            for v in e.values:
                self.expr(v, cur)
                t, f = facts(v, self.names)
                cur = cur | (t if isinstance(e.op, ast.And) else f)
            return
        if isinstance(e, ast.IfExp):
            self.expr(e.test, S)
            t, f = facts(e.test, self.names)
            self.expr(e.body, S | t)
            self.expr(e.orelse, S | f)
            return
        if isinstance(e, (ast.Lambda, ast.FunctionDef)):
            return
        if isinstance(e, (ast.ListComp, ast.SetComp, ast.GeneratorExp, ast.DictComp)):
            cur = set(S)
            for g in e.generators:
                if isinstance(g.iter, ast.Name):
                    self.deref(g.iter.id, g.iter, "iterated", cur)
                self.expr(g.iter, cur)
                for c in g.ifs:
                    self.expr(c, cur)
                    cur = cur | facts(c, self.names)[0]
            for part in ((e.key, e.value) if isinstance(e, ast.DictComp) else (e.elt,)):
                self.expr(part, cur)
            return
        if isinstance(e, ast.Attribute) and isinstance(e.value, ast.Name):
            self.deref(e.value.id, e, ".%s" % e.attr, S)
        elif isinstance(e, ast.Subscript) and isinstance(e.value, ast.Name):
            self.deref(e.value.id, e, "[...]", S)
        elif isinstance(e, ast.Compare):
            for op, c in zip(e.ops, e.comparators):
                if isinstance(op, (ast.In, ast.NotIn)) and isinstance(c, ast.Name):
                    self.deref(c.id, e, "`in`", S)
                if isinstance(op, (ast.Lt, ast.LtE, ast.Gt, ast.GtE)):
                    for side in (e.left, c):
                        if isinstance(side, ast.Name):
                            self.deref(side.id, e, "ordering comparison", S)
        elif isinstance(e, ast.Call):
            if isinstance(e.func, ast.Name):
                self.deref(e.func.id, e, "called", S)
                if e.func.id in DEREF_BUILTINS:
                    for a in e.args[:1]:
                        if isinstance(a, ast.Name):
                            self.deref(a.id, e, "%s()" % e.func.id, S)
            for a in e.args:
                if isinstance(a, ast.Starred) and isinstance(a.value, ast.Name):
                    self.deref(a.value.id, e, "*unpacked", S)
            for k in e.keywords:
                if k.arg is None and isinstance(k.value, ast.Name):
                    self.deref(k.value.id, e, "**unpacked", S)
        elif isinstance(e, ast.BinOp):
            for side in (e.left, e.right):
                if isinstance(side, ast.Name) and not (isinstance(e.op, ast.Mod) and side is e.right and isinstance(e.left, (ast.Constant, ast.JoinedStr))):
                    self.deref(side.id, e, "arithmetic", S)
        elif isinstance(e, ast.UnaryOp) and isinstance(e.op, (ast.USub, ast.Invert, ast.UAdd)) and isinstance(e.operand, ast.Name):
            self.deref(e.operand.id, e, "arithmetic", S)
        for ch in ast.iter_child_nodes(e):
            if isinstance(ch, ast.expr):
                self.expr(ch, S)
            elif isinstance(ch, (ast.keyword,)):
                self.expr(ch.value, S)
            elif isinstance(ch, ast.comprehension):
                pass

    # ------------------------------------------------------------------ statements
    @staticmethod
    def terminates(body):
        if not body:
            return False
        last = body[-1]
        if isinstance(last, (ast.Return, ast.Raise, ast.Continue, ast.Break)):
            return True
        if isinstance(last, ast.If):
            return Nullness.terminates(last.body) and Nullness.terminates(last.orelse)
        if isinstance(last, ast.Expr) and isinstance(last.value, ast.Call) and ast.unparse(last.value.func) in ("sys.exit", "exit", "os._exit"):
            return True
        return False

    def stores(self, target, S, value=None):
        for n in ast.walk(target):
            if isinstance(n, ast.Name) and isinstance(n.ctx, ast.Store) and n.id in self.names:
                if value is not None and _is_none(value):
                    S.discard(n.id)
                elif value is not None and isinstance(value, ast.Name) and value.id in self.names and value.id not in S:
                    S.discard(n.id)
                else:
                    S.add(n.id)  # rebound to something this rule no longer tracks

    def block(self, body, S):
        S = set(S)
        for s in body:
            S = self.stmt(s, S)
        return S

    def stmt(self, s, S):
        if isinstance(s, (ast.FunctionDef, ast.AsyncFunctionDef, ast.ClassDef)):
            return S
        if isinstance(s, ast.If):
            self.expr(s.test, S)
            t, f = facts(s.test, self.names)
            a = self.block(s.body, S | t)
            b = self.block(s.orelse, S | f)
            ta, tb = self.terminates(s.body), self.terminates(s.orelse)
            if ta and tb:
                return S | a | b
            if ta:
                return b
            if tb:
                return a
            return a & b
        if isinstance(s, ast.While):
            self.expr(s.test, S)
            t, f = facts(s.test, self.names)
            self.block(s.body, S | t)
            self.block(s.orelse, S)
            return S | (f if not any(isinstance(x, ast.Break) for x in ast.walk(s)) else set())
        if isinstance(s, (ast.For, ast.AsyncFor)):
            if isinstance(s.iter, ast.Name):
                self.deref(s.iter.id, s.iter, "iterated", S)
            self.expr(s.iter, S)
            S2 = set(S)
            self.stores(s.target, S2)
            out = self.block(s.body, S2)
            self.block(s.orelse, S)
            return S & out
        if isinstance(s, ast.Try):
            a = self.block(s.body, S)
            outs = [self.block(s.orelse, a)] if not self.terminates(s.body) else []
            for h in s.handlers:
                o = self.block(h.body, S)
                if not self.terminates(h.body):
                    outs.append(o)
            res = set.intersection(*outs) if outs else set(S)
            return self.block(s.finalbody, res)
        if isinstance(s, (ast.With, ast.AsyncWith)):
            for it in s.items:
                self.expr(it.context_expr, S)
                if it.optional_vars is not None:
                    self.stores(it.optional_vars, S)
            return self.block(s.body, S)
        if isinstance(s, ast.Assign):
            self.expr(s.value, S)
            S = set(S)
            for t in s.targets:
                self.expr(t, S) if not isinstance(t, ast.Name) else None
                self.stores(t, S, s.value)
            return S
        if isinstance(s, ast.AugAssign):
            self.expr(s.value, S)
            if isinstance(s.target, ast.Name):
                self.deref(s.target.id, s, "augmented assignment", S)
            else:
                self.expr(s.target, S)
            return S
        if isinstance(s, ast.AnnAssign):
            self.expr(s.value, S)
            S = set(S)
            if s.value is not None:
                self.stores(s.target, S, s.value)
            return S
        if isinstance(s, ast.Assert):
            self.expr(s.test, S)
            return S | facts(s.test, self.names)[0]
        for ch in ast.iter_child_nodes(s):
            if isinstance(ch, ast.expr):
                self.expr(ch, S)
        return S


def positive_control():
    src = ("def f(a, p=None, q=None, r=None, s=None, t=None):\n"
           "    if p is not None and p.get(a):\n        pass\n"
           "    if a and a in q:\n        pass\n"
           "    if r is None:\n        r = {}\n    r[a] = 1\n"
           "    if s is None:\n        return 0\n    s.append(a)\n"
           "    x = t.x if t else 0\n"
           "    return t[0]\n")
    fn = ast.parse(src).body[0]
    n = Nullness(fn)
    got = sorted((nm, how) for nm, node, how in n.run())
    if got != [("q", "`in`"), ("t", "[...]")] or n.guarded != 4:
        raise AssertionError("nullness positive control: %s guarded=%d" % (got, n.guarded))


def _param_names(fn):
    a = fn.args
    return [p.arg for p in list(a.posonlyargs) + list(a.args)], [p.arg for p in a.kwonlyargs]


def may_be_none(repo, cg, seen, roots):
    """{(function, param)} for default-None parameters that can really be None on a path from the roots: the function is a root (its caller is the
    library's user), or a reachable call site omits the argument, passes None, passes a local that is assigned None somewhere, or passes its own
    may-be-None parameter.  Least fixpoint over the reachable call sites."""
    opt = {q: optional_params(repo.functions[q][1]) for q in seen}
    maybe = {(q, p) for q in roots if q in opt for p in opt[q]}
    sites = []
    for caller in seen:
        for s in cg.sites.get(caller, ()):
            if not isinstance(s.node, ast.Call):
                continue
            for t in s.targets:
                if t in seen and opt.get(t):
                    sites.append((caller, s, t))
    none_locals = {}
    for q in seen:
        fn = repo.functions[q][1]
        nl = set()
        for n in ast.walk(fn):
            if isinstance(n, ast.Assign) and _is_none(n.value):
                nl |= {t.id for t in n.targets if isinstance(t, ast.Name)}
        none_locals[q] = nl
    why = {}
    changed = True
    while changed:
        changed = False
        for caller, s, t in sites:
            tfn = repo.functions[t][1]
            pos, kwo = _param_names(tfn)
            is_method = pos[:1] in (["self"], ["cls"]) and not (isinstance(s.node.func, ast.Name))
            call = s.node
            if any(isinstance(a, ast.Starred) for a in call.args):
                continue
            bound = {}
            plist = pos[1:] if is_method else pos
            for a, p in zip(call.args, plist):
                bound[p] = a
            opaque_kwargs = False
            for k in call.keywords:
                if k.arg is not None:
                    bound[k.arg] = k.value
                    continue
                # f(**ctx) where ctx = dict(a=x, b=y) / {"a": x, "b": y} earlier in the caller: the entries are the keyword arguments
                src = None
                if isinstance(k.value, ast.Name):
                    for a_ in ast.walk(repo.functions[caller][1]):
                        if isinstance(a_, ast.Assign) and len(a_.targets) == 1 and isinstance(a_.targets[0], ast.Name) and a_.targets[0].id == k.value.id:
                            src = a_.value
                if isinstance(src, ast.Call) and isinstance(src.func, ast.Name) and src.func.id == "dict" and not src.args and all(kk.arg for kk in src.keywords):
                    for kk in src.keywords:
                        bound[kk.arg] = kk.value
                elif isinstance(src, ast.Dict) and all(isinstance(kk, ast.Constant) and isinstance(kk.value, str) for kk in src.keys):
                    for kk, vv in zip(src.keys, src.values):
                        bound[kk.value] = vv
                else:
                    opaque_kwargs = True
            if opaque_kwargs:
                continue
            for p in opt[t]:
                if (t, p) in maybe:
                    continue
                a = bound.get(p)
                reason = None
                if a is None:
                    reason = "omitted by %s" % caller
                elif _is_none(a):
                    reason = "None passed by %s" % caller
                elif isinstance(a, ast.Name) and (caller, a.id) in maybe:
                    reason = "%s hands on its own optional %s" % (caller, a.id)
                elif isinstance(a, ast.Name) and a.id in none_locals[caller]:
                    reason = "%s passes %s, which it sets to None on some path" % (caller, a.id)
                if reason:
                    maybe.add((t, p))
                    why[(t, p)] = reason
                    changed = True
    return maybe, why
