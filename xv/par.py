"""Fork-based parallel map for per-table / per-configuration rule workers (results are plain data)."""
import multiprocessing as mp
import os


def pmap(func, items, procs=None):
    items = list(items)
    n = procs or min(16, os.cpu_count() or 1, max(1, len(items)))
    if n <= 1 or len(items) <= 1 or os.environ.get("XV_SERIAL"):
        return [func(x) for x in items]
    ctx = mp.get_context("fork")
    with ctx.Pool(n) as pool:
        return pool.map(func, items, chunksize=1)
