"""Independent second derivation of the opcode name->number maps (thorough tier, DESIGN.md section 6 (ii)).

A plain scan of the *literal* table-edit calls of each opcode module, replayed in source order:
    init_opdata(l, <base module>, ...)   start from the base module's replayed map (or empty)
    rm_op(l, "NAME", n)                  delete
    <anything>_op(l, "NAME", n, ...)     define (def_op, jrel_op, name_op, store_op, ...)
It shares no code with fold.py; both derivations must agree, otherwise the analysis itself is broken (exit 2)."""
import ast
import os


def replay_opmaps(root):
    d = os.path.join(root, "xdis", "opcodes")
    trees = {}
    for fn in sorted(os.listdir(d)):
        if fn.startswith("opcode_") and fn.endswith(".py"):
            with open(os.path.join(d, fn), encoding="utf-8") as f:
                trees["xdis.opcodes." + fn[:-3]] = ast.parse(f.read())
    done = {}
    notes = {}

    def base_of(tree, call):
        a = call.args[1] if len(call.args) > 1 else None
        if a is None or (isinstance(a, ast.Constant) and a.value is None):
            return None
        name = a.id if isinstance(a, ast.Name) else (a.attr if isinstance(a, ast.Attribute) else None)
        # resolve the alias through the imports of this module
        for s in tree.body:
            if isinstance(s, ast.Import):
                for al in s.names:
                    if (al.asname or al.name.split(".")[-1]) == name:
                        return al.name
            if isinstance(s, ast.ImportFrom) and s.module:
                for al in s.names:
                    if (al.asname or al.name) == name:
                        return s.module + "." + al.name
        return "?" + str(name)

    def run(mod):
        if mod in done:
            return done[mod]
        tree = trees[mod]
        opmap = {}
        ok = True
        top = set(id(s.value) for s in tree.body if isinstance(s, ast.Expr))
        for n in ast.walk(tree):
            if isinstance(n, ast.Call) and isinstance(n.func, ast.Name) and n.func.id.endswith("_op") and n.func.id not in ("conditional_op",) and id(n) not in top:
                inside_def = False
                for f in ast.walk(tree):
                    if isinstance(f, (ast.FunctionDef, ast.Lambda)) and any(x is n for x in ast.walk(f)):
                        inside_def = True
                if not inside_def:
                    ok = False  # a table edit under module-level control flow (host-dependent): not replayable without evaluating conditions
        for s in tree.body:
            if not (isinstance(s, ast.Expr) and isinstance(s.value, ast.Call)):
                continue
            c = s.value
            fn = c.func.id if isinstance(c.func, ast.Name) else None
            if fn == "init_opdata":
                b = base_of(tree, c)
                if b is None:
                    opmap = {}
                elif b in trees:
                    r = run(b)
                    opmap = dict(r) if r is not None else {}
                    if r is None:
                        ok = False
                else:
                    ok = False
                continue
            if fn is None or not fn.endswith("_op") or len(c.args) < 3:
                continue
            nm, num = c.args[1], c.args[2]
            if not (isinstance(nm, ast.Constant) and isinstance(nm.value, str) and isinstance(num, ast.Constant) and isinstance(num.value, int)):
                ok = False
                continue
            if fn == "rm_op":
                opmap.pop(nm.value, None)
            else:
                if fn in ("conditional_op",):
                    continue
                opmap[nm.value] = num.value
        notes[mod] = "replayed" if ok else "partly replayable (non-literal table edits)"
        done[mod] = opmap if ok else None
        return done[mod]

    out = {}
    for mod in trees:
        r = run(mod)
        out[mod] = ({k.replace("+", "_"): v for k, v in r.items()} if r is not None else None)
    return out, notes
