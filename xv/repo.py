"""Repo model: parse every xdis/**/*.py of /repo's *current* working tree; module / class / function index,
import and alias resolution, parent links.  Nothing is imported or executed."""
import ast
import hashlib
import os

from .report import AnalysisError

REPO_ROOT = os.environ.get("XV_REPO", "/repo")


class Module:
    def __init__(self, name, path, src):
        self.name = name
        self.path = path
        self.rel = os.path.relpath(path, REPO_ROOT)
        self.src = src
        self.tree = ast.parse(src, path)
        self.is_pkg = os.path.basename(path) == "__init__.py"
        self.imports = {}  # local name -> dotted target ("xdis.magics.magic2int", "struct.unpack", "xdis.marsh")
        self.defs = {}  # top-level name -> node (FunctionDef/ClassDef) or ("assign", node)
        for n in ast.walk(self.tree):
            for c in ast.iter_child_nodes(n):
                c._parent = n
        self.tree._parent = None
        self._collect_imports(self.tree.body, top=True)

    def _collect_imports(self, body, top=False):
        for s in ast.walk(self.tree):
            if isinstance(s, ast.Import):
                for a in s.names:
                    if a.asname:
                        self.imports.setdefault(a.asname, a.name)
                    else:
                        self.imports.setdefault(a.name.split(".")[0], a.name.split(".")[0])
            elif isinstance(s, ast.ImportFrom):
                base = s.module or ""
                if s.level:
                    pkg = self.name if self.is_pkg else self.name.rsplit(".", 1)[0]
                    for _ in range(s.level - 1):
                        pkg = pkg.rsplit(".", 1)[0]
                    base = pkg + ("." + base if base else "")
                for a in s.names:
                    self.imports.setdefault(a.asname or a.name, base + "." + a.name)
        for s in self.tree.body:
            if isinstance(s, (ast.FunctionDef, ast.AsyncFunctionDef, ast.ClassDef)):
                self.defs[s.name] = s
        # conditional top-level defs (if PYTHON3: def long ...)
        for s in self.tree.body:
            if isinstance(s, (ast.If, ast.Try)):
                for n in ast.walk(s):
                    if isinstance(n, (ast.FunctionDef, ast.ClassDef)) and enclosing_function(n) is None and enclosing_class(n) is None:
                        self.defs.setdefault(n.name, n)


def enclosing_function(node):
    p = getattr(node, "_parent", None)
    while p is not None:
        if isinstance(p, (ast.FunctionDef, ast.AsyncFunctionDef, ast.Lambda)):
            return p
        p = getattr(p, "_parent", None)
    return None


def enclosing_class(node):
    p = getattr(node, "_parent", None)
    while p is not None:
        if isinstance(p, ast.ClassDef):
            return p
        if isinstance(p, (ast.FunctionDef, ast.AsyncFunctionDef)):
            return None
        p = getattr(p, "_parent", None)
    return None


class Repo:
    def __init__(self, root=None):
        self.root = root or REPO_ROOT
        self.modules = {}
        self.digest = hashlib.sha256()
        pkg = os.path.join(self.root, "xdis")
        if not os.path.isdir(pkg):
            raise AnalysisError("no xdis package under %s" % self.root)
        for dp, dn, fn in sorted(os.walk(pkg)):
            dn.sort()
            if "__pycache__" in dp:
                continue
            for f in sorted(fn):
                if not f.endswith(".py"):
                    continue
                path = os.path.join(dp, f)
                rel = os.path.relpath(path, self.root)[:-3].replace(os.sep, ".")
                if rel.endswith(".__init__"):
                    rel = rel[: -len(".__init__")]
                with open(path, encoding="utf-8") as fh:
                    src = fh.read()
                self.digest.update(rel.encode() + b"\0" + src.encode() + b"\0")
                try:
                    self.modules[rel] = Module(rel, path, src)
                except SyntaxError as e:
                    raise AnalysisError("cannot parse %s: %s" % (path, e))
        self.functions = {}  # qualname -> (Module, node)
        self.classes = {}  # qualname -> (Module, node)
        for m in self.modules.values():
            self._index(m, m.tree, m.name)

    def _index(self, m, node, prefix):
        for c in ast.iter_child_nodes(node):
            if isinstance(c, (ast.FunctionDef, ast.AsyncFunctionDef)):
                q = prefix + "." + c.name
                self.functions.setdefault(q, (m, c))
                c._qualname = q
                c._module = m
                self._index(m, c, q)
            elif isinstance(c, ast.ClassDef):
                q = prefix + "." + c.name
                self.classes.setdefault(q, (m, c))
                c._qualname = q
                c._module = m
                self._index(m, c, q)
            elif isinstance(c, (ast.If, ast.Try, ast.With, ast.For, ast.While)) or isinstance(c, ast.ExceptHandler):
                self._index(m, c, prefix)

    # ------------------------------------------------------------------ lookups
    def module(self, name):
        if name not in self.modules:
            raise AnalysisError("anchor vanished: module %s" % name)
        return self.modules[name]

    def function(self, qualname):
        if qualname not in self.functions:
            raise AnalysisError("anchor vanished: function %s" % qualname)
        return self.functions[qualname]

    def cls(self, qualname):
        if qualname not in self.classes:
            raise AnalysisError("anchor vanished: class %s" % qualname)
        return self.classes[qualname]

    def where(self, m, node):
        return "%s:%d" % (m.rel, getattr(node, "lineno", 0))

    def resolve_dotted(self, dotted):
        """'xdis.magics.magic2int' -> ('function', qualname) | ('class', q) | ('module', name) | ('external', dotted) |
        ('global', module, name).  Follows re-exports through package __init__ imports."""
        seen = set()
        while dotted not in seen:
            seen.add(dotted)
            if dotted in self.modules:
                return ("module", dotted)
            if dotted in self.functions:
                return ("function", dotted)
            if dotted in self.classes:
                return ("class", dotted)
            if "." not in dotted:
                break
            head, tail = dotted.rsplit(".", 1)
            if head in self.modules:
                m = self.modules[head]
                if tail in m.defs:
                    d = m.defs[tail]
                    return ("class" if isinstance(d, ast.ClassDef) else "function", head + "." + tail)
                if tail in m.imports:
                    dotted = m.imports[tail]
                    continue
                # module-level alias  name = other
                for s in m.tree.body:
                    if isinstance(s, ast.Assign) and len(s.targets) == 1 and isinstance(s.targets[0], ast.Name) and s.targets[0].id == tail:
                        if isinstance(s.value, ast.Name):
                            if s.value.id in m.defs or s.value.id in m.imports:
                                dotted = head + "." + s.value.id
                                break
                        return ("global", head, tail)
                else:
                    return ("global", head, tail)
                continue
            break
        if dotted.split(".")[0] == "xdis":
            return ("unknown", dotted)
        return ("external", dotted)

    def resolve_name(self, m, name):
        """Resolve a bare Name used in module m (module scope) to a target tuple as in resolve_dotted."""
        if name in m.defs:
            d = m.defs[name]
            return ("class" if isinstance(d, ast.ClassDef) else "function", m.name + "." + name)
        if name in m.imports:
            return self.resolve_dotted(m.imports[name])
        r = self.resolve_dotted(m.name + "." + name)
        return r

    def mro(self, qualname):
        """Linearised bases (simple DFS, the repo uses single inheritance)."""
        out = []
        todo = [qualname]
        while todo:
            q = todo.pop(0)
            if q in out or q not in self.classes:
                continue
            out.append(q)
            m, c = self.classes[q]
            for b in c.bases:
                if isinstance(b, ast.Name):
                    r = self.resolve_name(m, b.id)
                    if r[0] == "class":
                        todo.append(r[1])
                elif isinstance(b, ast.Attribute):
                    d = dotted_of(b)
                    if d:
                        head = d.split(".")[0]
                        if head in m.imports:
                            r = self.resolve_dotted(m.imports[head] + d[len(head):])
                            if r[0] == "class":
                                todo.append(r[1])
        return out

    def method(self, clsq, name):
        for q in self.mro(clsq):
            if q + "." + name in self.functions:
                return q + "." + name
        return None

    def subclasses(self, clsq):
        return [q for q in self.classes if clsq in self.mro(q)]


def dotted_of(node):
    parts = []
    while isinstance(node, ast.Attribute):
        parts.append(node.attr)
        node = node.value
    if isinstance(node, ast.Name):
        parts.append(node.id)
        return ".".join(reversed(parts))
    return None


def norm(node):
    """Normalised statement/expression text (position-free) for keys and messages."""
    try:
        return ast.unparse(node)
    except Exception:
        return ast.dump(node)


_REPO = None


def get_repo():
    global _REPO
    if _REPO is None:
        _REPO = Repo()
    return _REPO
