"""Obligations, evidence JSON, known-finding matching, VIOLATION / KNOWN-FINDING lines, replay files.

An *obligation* is one instance of a rule applied to one construct of /repo (a function, a call site, a table
row, a configuration of a specialised function).  It is identified by the key

        <property>/<rule>/<qualified construct>/<semantic detail>

which never contains a line number, so that reformatting the repo does not move findings.
"""
import json
import os
import sys
import time

HERE = os.path.dirname(os.path.dirname(os.path.abspath(__file__)))
EVIDENCE_DIR = os.path.join(HERE, "evidence")
KNOWN_FILE = os.path.join(HERE, "known_findings.json")


class AnalysisError(Exception):
    """The analysis cannot decide (vanished anchor, construct outside the supported subset, floor not met).
    Reported as ANALYSIS-ERROR, exit 2 -- never a silent pass and never a VIOLATION."""


def load_known():
    if not os.path.exists(KNOWN_FILE):
        return {"findings": [], "fixed": []}
    with open(KNOWN_FILE) as f:
        d = json.load(f)
    d.setdefault("findings", [])
    d.setdefault("fixed", [])
    return d


def jsonable(x, depth=0):
    if depth > 8:
        return repr(x)
    if isinstance(x, (str, int, float, bool)) or x is None:
        return x
    if isinstance(x, (list, tuple)):
        return [jsonable(i, depth + 1) for i in x]
    if isinstance(x, (set, frozenset)):
        return sorted((jsonable(i, depth + 1) for i in x), key=repr)
    if isinstance(x, dict):
        return {str(k): jsonable(v, depth + 1) for k, v in x.items()}
    return repr(x)


class Report:
    def __init__(self, pid, tier="quick", seed=0, only_key=None):
        self.pid = pid
        self.tier = tier
        self.seed = seed
        self.only_key = only_key
        self.t0 = time.time()
        self.obligations = []  # dicts
        self.notes = []
        self.functions = set()
        self.call_sites = 0
        self.configurations = 0
        self.rule_instances = {}
        self.floors = []  # (name, measured, floor)
        self.extra = {}
        self.assumptions = []
        self.explanation = ""
        self.rules = {}  # rule id -> one-line statement

    # ------------------------------------------------------------------ recording
    def rule(self, rid, text):
        self.rules[rid] = text

    def ob(self, rule, construct, detail, ok, expected=None, derived=None, where=None, msg=None):
        """Record one obligation.  `ok` False => a finding (violation unless listed as known)."""
        key = "%s/%s/%s/%s" % (self.pid, rule, construct, detail)
        self.rule_instances[rule] = self.rule_instances.get(rule, 0) + 1
        o = {"key": key, "rule": rule, "construct": construct, "detail": detail, "ok": bool(ok)}
        if where:
            o["where"] = where
        if expected is not None:
            o["expected"] = jsonable(expected)
        if derived is not None:
            o["derived"] = jsonable(derived)
        if msg:
            o["msg"] = msg
        self.obligations.append(o)
        return bool(ok)

    def note(self, text):
        self.notes.append(text)

    def analysed(self, fn):
        self.functions.add(fn)

    def floor(self, name, measured, floor):
        """Fail closed when a rule matched fewer instances than were confirmed by hand on the pinned tree."""
        self.floors.append((name, measured, floor))
        if measured < floor:
            raise AnalysisError("floor not met for %s: matched %d < %d (rule would pass vacuously)" % (name, measured, floor))

    # ------------------------------------------------------------------ finishing
    def finish(self):
        known = load_known()
        kf = {f["key"]: f for f in known["findings"] if f.get("property") == self.pid}
        failing = [o for o in self.obligations if not o["ok"]]
        if self.only_key:
            failing = [o for o in failing if o["key"] == self.only_key]
        viol, knownhits = [], []
        seen = set()
        for o in failing:
            if o["key"] in seen:
                continue
            seen.add(o["key"])
            (knownhits if o["key"] in kf else viol).append(o)
        stale = [k for k in kf if k not in seen]
        wall = time.time() - self.t0
        no_ev = bool(os.environ.get("XV_NO_EVIDENCE"))
        os.makedirs(EVIDENCE_DIR, exist_ok=True)
        vdir = os.path.join(EVIDENCE_DIR, "violations")
        lines = []
        for o in knownhits:
            lines.append("KNOWN-FINDING: property=%s %s -- %s" % (self.pid, o["key"], kf[o["key"]].get("what", o.get("msg", ""))))
        replay_paths = []
        if viol and not no_ev:
            os.makedirs(vdir, exist_ok=True)
        for n, o in enumerate(viol):
            path = os.path.join(vdir, "%s-%d.json" % (self.pid, n))
            if not no_ev:
                with open(path, "w") as f:
                    json.dump({"property": self.pid, "obligation": o, "rule_text": self.rules.get(o["rule"], "")}, f, indent=1)
            replay_paths.append(path)
            lines.append("VIOLATION property=%s replay=%s" % (self.pid, path))
            lines.append("    %s%s\n    rule %s: %s\n    expected: %s\n    derived:  %s%s" % (
                o["key"], ("  at " + o["where"]) if o.get("where") else "", o["rule"], self.rules.get(o["rule"], ""),
                json.dumps(o.get("expected")), json.dumps(o.get("derived")), ("\n    " + o["msg"]) if o.get("msg") else ""))
        for k in stale:
            if not self.only_key:
                lines.append("NOTE: listed known finding not reproduced on this tree (no longer violated?): %s" % k)
        n_ob = len(self.obligations)
        n_ok = sum(1 for o in self.obligations if o["ok"])
        distinct = len({o["key"] for o in self.obligations})
        # samples: a few passing and all failing obligations, written out
        samples = []
        per_rule = {}
        for o in self.obligations:
            c = per_rule.get(o["rule"], 0)
            if c < 3 or not o["ok"]:
                samples.append(o)
                per_rule[o["rule"]] = c + 1
        ev = {
            "property_id": self.pid,
            "tier": self.tier,
            "seed": self.seed,
            "level": "other",
            "coverage": {
                "explanation": self.explanation or "static analysis of /repo's current source (ast/symtable); no repo code is imported or run",
                "obligations": n_ob,
                "discharged": n_ok,
                "evaluations": n_ob,
                "distinct_nontrivial": distinct,
                "rule": "one obligation per (rule, construct of /repo, configuration); distinct = distinct obligation keys",
                "rules": self.rules,
                "rule_instances": self.rule_instances,
                "floors": [{"what": a, "measured": b, "floor": c} for a, b, c in self.floors],
                "functions_analysed": sorted(self.functions),
                "call_sites": self.call_sites,
                "configurations": self.configurations,
                "known_findings": [o["key"] for o in knownhits],
                "stale_known_findings": stale,
                "violations": [o["key"] for o in viol],
                "notes": self.notes[:200],
                "samples": samples[:120],
                "exhaustive": True,
            },
            "assumptions": self.assumptions,
            "wall_s": round(wall, 3),
            "violations": len(viol),
        }
        ev["coverage"].update(jsonable(self.extra))
        if not self.only_key and not no_ev:
            with open(os.path.join(EVIDENCE_DIR, "%s.json" % self.pid), "w") as f:
                json.dump(ev, f, indent=1, sort_keys=False)
        for ln in lines:
            print(ln)
        print("%s: %d obligations, %d discharged, %d known findings, %d violations, %d functions, %.2fs" % (
            self.pid, n_ob, n_ok, len(knownhits), len(viol), len(self.functions), wall))
        sys.stdout.flush()
        return 1 if viol else 0


class SubReport(Report):
    """Collects the obligations of another property's rule set so that a property whose statement includes them can
    restate them under its own id (see merge_sub): never finishes, writes nothing."""

    def finish(self):
        raise AnalysisError("SubReport.finish() must not be called")


def merge_sub(rep, sub, rule, label, only_rules=None, only_constructs=None):
    """Restate sub's obligations in rep under `rule`: each failing obligation individually (same construct, detail prefixed
    with the originating rule), the passing ones as one aggregated obligation per (originating rule, construct)."""
    agg = {}
    for o in sub.obligations:
        if only_rules is not None and o["rule"] not in only_rules:
            continue
        if only_constructs is not None and not only_constructs(o["construct"]):
            continue
        if o["ok"]:
            k = (o["rule"], o["construct"])
            agg[k] = agg.get(k, 0) + 1
        else:
            rep.ob(rule, o["construct"], "%s-%s:%s" % (label, o["rule"], o["detail"]), False, expected=o.get("expected"), derived=o.get("derived"),
                   where=o.get("where"), msg=o.get("msg"))
    for (r, c), n in sorted(agg.items()):
        rep.ob(rule, c, "%s-%s:holds" % (label, r), True, derived="%d obligations discharged" % n)
    rep.functions |= sub.functions
    for a, b, c in sub.floors:
        rep.floors.append(("%s: %s" % (label, a), b, c))
    return len(sub.obligations)
