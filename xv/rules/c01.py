"""C01 -- unmarshalled code objects equal what the producing CPython itself loads (DESIGN.md section 4, C01).

Shares the reader obligations with C10 (type codes, read/format agreement, reference table, text/bytes) and adds the
code-object pipeline: t_code is specialised for *every accepted magic* with the whole chain inlined
(t_code -> to_portable -> codeType2Portable -> CodeNN.__init__), which yields (i) the ordered field reads and (ii) the
value term finally bound to every co_* attribute of the resulting object.  Both are compared with
reference/code_layout.json."""
import collections

from ..fold import ClassRef, FuncRef, Instance
from ..marshal_read import new_instance, robj_hook, unmarshaller
from ..report import AnalysisError
from ..sve import (Fall, Guard, Lin, Op, Raise, Ret, Spec, Sym, Top, atoms_of, eval_term, flatten_effects, leaves, show)
from ..tables import ref_json, tables
from .marshal_rules import accepted_magics, reader_obligations, vlabel

ATTR = {"argcount": "co_argcount", "posonlyargcount": "co_posonlyargcount", "kwonlyargcount": "co_kwonlyargcount", "nlocals": "co_nlocals",
        "stacksize": "co_stacksize", "flags": "co_flags", "code": "co_code", "consts": "co_consts", "names": "co_names",
        "varnames": "co_varnames", "freevars": "co_freevars", "cellvars": "co_cellvars", "filename": "co_filename", "name": "co_name",
        "qualname": "co_qualname", "firstlineno": "co_firstlineno", "exceptiontable": "co_exceptiontable"}

# fields whose marshal value can be a TYPE_STRING ('s') in a 3.x file and must therefore be read as bytes
BYTES_FIELDS_PY3 = ("code", "consts", "linetable", "exceptiontable", "localspluskinds")
# identifier-like fields: text in every version (py2 str is rendered as text by xdis convention)
TEXT_FIELDS_PY2 = ("names", "varnames", "freevars", "cellvars", "filename", "name")


def specialise_t_code(T, cls, magic):
    f = cls.lookup("t_code")
    if not isinstance(f, FuncRef):
        raise AnalysisError("anchor vanished: t_code")
    sp = Spec(T.F, opaque_funcs={"check"})
    sp.hooks.append(robj_hook)
    inst = new_instance(cls, magic, ())
    out = sp.run(f, [inst, True, Sym("bytes_for_s", "bool")])
    trace = []
    depth = 0
    loops = []
    for k, e in flatten_effects(sp.effects):
        if k == "unpack":
            fmt, size, n, data = e.args
            trace.append(("u", fmt, None, depth, size == n))
        elif k == "robj":
            trace.append(("obj", e.args[0], e.args[1], depth, True))
        elif k == "loop-begin":
            depth += 1
            loops.append(e.args[3])
        elif k == "loop-end":
            depth -= 1
    # attach the field symbol to each "u": it is the Sym with info fmt/read in order of unpack effects
    flds = []
    for k, e in flatten_effects(sp.effects):
        if k == "unpack":
            flds.append(e.args[3])
    return sp, out, trace, flds, loops


def run(rep, tier):
    rep.explanation = ("specialisation of the pure-Python unmarshaller per accepted magic (sparse conditional constant propagation over "
                       "the AST, stream symbolic): per-type readers as in C10, and the whole code-object chain t_code -> to_portable -> "
                       "codeType2Portable -> CodeNN.__init__ inlined, giving the ordered field reads and the term bound to each co_* attribute; "
                       "compared with marshal.c's formats (reference/marshal_format.json, code_layout.json)")
    rep.rule("R1", "every marshal type code dispatches to a reader whose payload layout and result kind equal marshal.c's")
    rep.rule("R2", "every unpack(fmt, fp.read(n)) has calcsize(fmt) == n and explicit little-endian multi-byte formats")
    rep.rule("R3", "reference-table discipline: index i holds the i-th FLAG_REF object on every return path of every reader (incl. t_code)")
    rep.rule("R4", "t_code reads, for the version of every accepted magic, exactly the field sequence (order, width, object vs inline) of that "
                   "version's code-object layout, and each co_* attribute of the object finally built is bound to the value of the same-named field")
    rep.rule("R5", "strings inside a code object are read as bytes exactly where the producing version stores bytes (co_code and line table always; "
                   "consts/exception table/localspluskinds for 3.x producers); identifier fields of 1.x/2.x stay text; TYPE_UNICODE uses surrogatepass")
    rep.rule("R7", "load_module hands the unmarshaller a stream positioned right after the header of that magic (header-read obligations C06-R1/R2/R4, restated)")
    rep.rule("R6", "the portable class selected for a version stores every field of that version's layout (no field read and then dropped)")
    rep.rule("R7", "NULL terminator distinguishable; dict reader terminates only on it")
    rep.rule("R9", "TYPE_LONG: |n| 16-bit digits are read, digit j contributes digit << 15*j, the result is negated exactly when n < 0")
    rep.rule("R8", "interned-string table discipline")
    rep.rule("R10", "load_code hands its caller's stream itself to the unmarshaller (only a bytes argument is wrapped) and reads nothing from it on its own, so the stream "
                    "position after the call is the end of the marshalled object")
    T = tables()
    acc, readers = reader_obligations(rep, T)
    um, cls, tbl = unmarshaller(T)
    lay = ref_json("code_layout.json")
    layouts = lay["layouts"]
    universe = [tuple(v[:2]) for _, _, v in acc]
    graal = set(T.magics.get("GRAAL3_MAGICS", ()))
    pypy3 = set(T.magics.get("PYPY3_MAGICS", ()))
    from .c06 import PYPY_CORPUS, release_magics
    released = release_magics(ref_json("magic_registry.json")) | set(PYPY_CORPUS)
    groups = collections.OrderedDict()
    n = 0
    for mg, passed, version in acc:
        v2 = tuple(version[:2])
        vkey = "%d.%d" % v2
        if passed in graal:
            rep.note("magic %d (Graal): no reference layout; t_code's early-return branch not compared" % mg)
            continue
        if vkey not in layouts:
            rep.ob("R4", "xdis.unmarshal._VersionIndependentUnmarshaller.t_code", "magic=%d:no-layout" % mg, False, msg="no reference layout for version %s" % vkey)
            continue
        n += 1
        want = [list(x) for x in layouts[vkey]]
        if str(passed) in lay.get("magic_exceptions", {}) and passed in (3400, 3401):
            want = [w for w in want if w[0] != "posonlyargcount"]
        sp, out, trace, flds, loops = specialise_t_code(T, cls, passed)
        # ---- R4a: read sequence (top level; the 3.11 localsplus loop reads nothing from the stream)
        got_seq = [("obj" if t[0] == "obj" else t[1]) for t in trace if t[3] == 0]
        want_seq = [w[1] for w in want]
        inloop = [t for t in trace if t[3] > 0]
        problems = []
        if got_seq != want_seq:
            problems.append(("R4", "field-sequence", want_seq, got_seq, "code-object fields read in a different order/width than %s writes them" % vkey))
        if inloop:
            problems.append(("R4", "reads-inside-loop", [], [t[0] for t in inloop], "stream reads inside a loop of t_code"))
        if not all(t[4] for t in trace):
            problems.append(("R2", "width", "calcsize(fmt) == bytes read", [t[1] for t in trace if not t[4]], "a fixed field is unpacked from the wrong number of bytes"))
        # ---- result object
        rets = [l for g, l in leaves(out) if isinstance(l, Ret)]
        obj = rets[0].value if len(rets) == 1 else None
        if not isinstance(obj, Instance):
            problems.append(("R4", "result", "a portable code object", show(obj), "t_code does not return one portable code object on its single path"))
        elif got_seq == want_seq:
            attrs = obj.attrs
            # map layout fields to their read terms
            fi = 0
            oi = 0
            objs = [t for t in trace if t[0] == "obj" and t[3] == 0]
            terms = {}
            bfs = {}
            for (fname, kind) in want:
                if kind == "obj":
                    terms[fname] = objs[oi][2]
                    bfs[fname] = objs[oi][1]
                    oi += 1
                else:
                    terms[fname] = flds[fi] if fi < len(flds) else None
                    fi += 1
            # unpack() returns a tuple of field symbols named after the read: recover the scalar symbol
            for fname, term in list(terms.items()):
                if isinstance(term, Sym) and term.kind == "bytes":
                    terms[fname] = "fld(%s," % term.name
            line_attr = "co_linetable" if v2 >= (3, 10) else "co_lnotab"
            for (fname, kind) in want:
                if fname in ("localsplusnames", "localspluskinds"):
                    continue
                attr = line_attr if fname == "linetable" else ATTR[fname]
                if v2 >= (3, 11) and fname in ("varnames", "freevars", "cellvars", "nlocals"):
                    continue
                if attr not in attrs:
                    problems.append(("R6", "dropped:%s" % fname, "stored as %s of %s" % (attr, obj.cls.name), "absent",
                                     "field %s is read from the file but the selected class %s does not keep it" % (fname, obj.cls.name)))
                    continue
                got = attrs[attr]
                exp = terms[fname]
                ok = (show(got).startswith(exp) if isinstance(exp, str) else (got is exp or repr(got) == repr(exp)))
                if not ok:
                    problems.append(("R4", "binding:%s" % attr, show(exp) if not isinstance(exp, str) else exp + "...)", show(got),
                                     "%s of the resulting object is not the %s field of the file" % (attr, fname)))
            # attributes of the object that are bound to a *file* term of a different field are caught above; attributes bound to
            # nothing from the file must be constants / derived values
            # ---- R5 bytes_for_s per field
            for (fname, kind) in want:
                if kind != "obj":
                    continue
                b = bfs[fname]
                if fname in ("code", "linetable"):
                    need = True
                elif v2 >= (3, 0):
                    need = True if fname in BYTES_FIELDS_PY3 else None
                    if passed in pypy3 and fname in TEXT_FIELDS_PY2:
                        # PyPy 3.x marshals identifiers with TYPE_STRING (test/bytecode_3.2pypy): read as bytes they end up as b'name'
                        need = False
                else:
                    need = False if fname in TEXT_FIELDS_PY2 else None
                if need is not None and b is not need:
                    problems.append(("R5", "bytes_for_s:%s" % fname, need, show(b),
                                     "field %s of a %s code object is read with bytes_for_s=%s; the producing version stores %s there" % (
                                         fname, vkey, show(b), "bytes" if need else "text")))
            # ---- R3 for the code object itself: slot reserved before the first child, filled with the returned object
            from ..marshal_read import ReaderSummary, ref_behaviour
            rs = ReaderSummary()
            rs.returns = [(g, l.value) for g, l in leaves(out) if isinstance(l, Ret)]
            beh = ref_behaviour(flatten_effects(sp.effects), rs, True)
            if v2 >= (3, 4):
                if beh != {"reserve"}:
                    problems.append(("R3", "code:ref", "reserve", sorted(beh), "t_code does not reserve its reference slot before reading children and fill it with the finished object"))
                for det, msg in rs.ref_problems:
                    problems.append(("R3", "code:ref:" + det, "reserve", msg, msg))
            # ---- 3.11+: localsplus split
            if v2 >= (3, 11):
                pr = localsplus_script(T, cls, passed, want, lay["localspluskinds"])
                problems.extend(pr)
        if mg not in released and problems:
            for p in problems:
                rep.note("interim/variant magic %d (outside the statement): %s %s expected %r derived %r" % (mg, p[0], p[1], p[2], p[3]))
            problems = []
        sig = tuple((p[0], p[1], repr(p[2]), repr(p[3]), p[4]) for p in problems)
        groups.setdefault(sig, []).append((v2, mg))
    rep.configurations += n
    rep.floor("code-object layouts specialised", n, 150)
    construct = "xdis.unmarshal._VersionIndependentUnmarshaller.t_code"
    rep.analysed(construct)
    for q in ("xdis.codetype.to_portable", "xdis.codetype.codeType2Portable"):
        rep.analysed(q)
    for sig, members in groups.items():
        lab = vlabel([m[0] for m in members], universe)
        if not sig:
            for v2 in sorted(set(m[0] for m in members)):
                for rule in ("R4", "R5", "R6"):
                    rep.ob(rule, construct, "%s@%d.%d" % ({"R4": "layout+bindings", "R5": "bytes_for_s", "R6": "class-keeps-fields"}[rule], v2[0], v2[1]), True,
                           expected=layouts["%d.%d" % v2], derived="equal")
            continue
        for rule, what, exp, got, msg in sig:
            rep.ob(rule, construct, "%s@%s" % (what, lab), False, expected=exp, derived=got, msg=msg + " (magics %s)" % sorted(m[1] for m in members)[:12],
                   where="xdis/unmarshal.py:%d" % cls.lookup("t_code").node.lineno)
    # ---------------------------------------------------------------- R7 the unmarshaller is started at the right byte: the header obligations of C06, restated
    from ..report import SubReport, merge_sub
    from . import c06
    sub6 = SubReport("C06", tier=tier)
    c06.run(sub6, "quick")
    merge_sub(rep, sub6, "R7", "C06", only_rules=("R1", "R2", "R4"))
    # ---------------------------------------------------------------- R10 load_code reads from the caller's own stream
    from ..sve import Spec as _Spec, Sym as _Sym, Guard as _Guard, neg as _neg, show as _show
    lc = T.F.modules["xdis.unmarshal"].ns.get("load_code")
    if lc is None:
        raise AnalysisError("anchor vanished: xdis.unmarshal.load_code")
    ctor_args = []

    def lc_hook(spec, name, fv, args, kw, node):
        if name.endswith("_VersionIndependentUnmarshaller"):
            ctor_args.append(args)
            return _Sym("um", "obj!")
        if name.endswith(".load"):
            return _Sym("code", "obj!")
        return NotImplemented
    fp = _Sym("fp", "stream")
    sp_lc = _Spec(T.F, hooks=[lc_hook])
    sp_lc.run(lc, [fp, 3413])

    def arms_(v, conds):
        if isinstance(v, _Guard):
            return arms_(v.a, conds + (v.cond,)) + arms_(v.b, conds + (_neg(v.cond),))
        return [(conds, v)]
    bad_lc = []
    if len(ctor_args) != 1:
        bad_lc.append("the unmarshaller is constructed %d times" % len(ctor_args))
    else:
        for conds, v in arms_(ctor_args[0][0], ()):
            ctext = [_show(c) for c in conds]
            if v is fp:
                continue
            if _show(v) == "call(opaque:io.BytesIO, fp)" and any(c.startswith("call('isinstance', fp, <class 'bytes'>") or c.startswith("call('isinstance', fp, (<class 'bytes'>") for c in ctext):
                continue  # a bytes argument is wrapped; nothing of a caller's stream is consumed
            bad_lc.append("%s when %s" % (_show(v)[:70], " and ".join(ctext) or "always"))
    early = [e for e in sp_lc.effects if "attr(fp, 'read')" in repr(e) or "attr(fp, 'seek')" in repr(e)]
    rep.ob("R10", "xdis.unmarshal.load_code", "reads-from-callers-stream", not bad_lc and not early, expected="the unmarshaller is given fp itself (a bytes argument wrapped in BytesIO); load_code reads nothing from fp on its own",
           derived=bad_lc[:3] + [repr(e)[:80] for e in early[:2]] or "fp",
           msg="load_code does not unmarshal from the caller's stream (%s): the file position after the call is not the end of the marshalled object" % "; ".join(bad_lc[:2] + [repr(e)[:60] for e in early[:1]]))
    rep.assumptions = ["reference/marshal_format.json and code_layout.json (hand-encoded from marshal.c; validated by an independent reader on CPython 2.7/3.6-3.13 dumps and the repo's .pyc corpus; the 2.0 layout has no sample)",
                       "value equality of the fields (float bits, big-int arithmetic), 'whole payload consumed', PyPy/Graal-specific layouts and the native fast path are not decided"]


def localsplus_script(T, cls, magic, want, masks):
    """The 3.11+ split of co_localsplusnames by co_localspluskinds, decided independently of how (and where) the splitting loop is written: t_code is
    specialised once more with the two fields bound to concrete values (nine names, one per kind byte CPython emits plus hidden / unknown bits); the
    co_varnames / co_cellvars / co_freevars of the resulting object must be the names whose kind has CO_FAST_LOCAL / CO_FAST_CELL / CO_FAST_FREE."""
    names = ("n0", "n1", "n2", "n3", "n4", "n5", "n6", "n7", "n8")
    kinds = bytes([0x20, 0x60, 0x40, 0x80, 0x30, 0x20, 0x70, 0x00, 0x80])
    objs = [w[0] for w in want if w[1] == "obj"]
    if "localsplusnames" not in objs or "localspluskinds" not in objs:
        return [("R4", "localsplus-loop", "localsplusnames and localspluskinds in the layout", objs, "the reference layout has no localsplus fields")]
    i_names, i_kinds = objs.index("localsplusnames"), objs.index("localspluskinds")
    n = [0]

    def hook(spec, name, fv, args, kw, node):
        if name.endswith(".r_object"):
            k = n[0]
            n[0] += 1
            b = kw.get("bytes_for_s", args[0] if len(args) > 0 else False)
            r = names if k == i_names else kinds if k == i_kinds else spec.fresh("obj")
            spec.effect("robj", b, r, node=node)
            return r
        return NotImplemented
    f = cls.lookup("t_code")
    sp = Spec(T.F, opaque_funcs={"check"})
    sp.hooks.append(hook)
    inst = new_instance(cls, magic, ())
    try:
        out = sp.run(f, [inst, True, Sym("bytes_for_s", "bool")])
    except Exception as ex:
        return [("R4", "localsplus-loop", "evaluable with concrete names and kinds", "not evaluable: %s" % ex, "t_code cannot be specialised with a concrete localsplus table")]
    rets = [l for g, l in leaves(out) if isinstance(l, Ret)]
    obj = rets[0].value if len(rets) == 1 else None
    if not isinstance(obj, Instance):
        return [("R4", "localsplus-loop", "one portable code object", show(obj), "t_code does not return one portable code object for a concrete localsplus table")]
    problems = []
    for var, mask in (("co_varnames", masks["CO_FAST_LOCAL"]), ("co_cellvars", masks["CO_FAST_CELL"]), ("co_freevars", masks["CO_FAST_FREE"])):
        expect = tuple(nm for nm, kd in zip(names, kinds) if kd & mask)
        got = obj.attrs.get(var)
        if not isinstance(got, (tuple, list)) or tuple(got) != expect:
            problems.append(("R4", "localsplus:%s" % var, "names whose kind has 0x%02x: %s" % (mask, list(expect)), show(got)[:120],
                             "3.11+ localspluskinds split (kinds %s): %s is %s, CPython gives %s" % (kinds.hex(), var, show(got)[:80], list(expect))))
    nl = obj.attrs.get("co_nlocals")
    if nl != len([1 for kd in kinds if kd & masks["CO_FAST_LOCAL"]]):
        problems.append(("R4", "localsplus:co_nlocals", "number of names with CO_FAST_LOCAL", show(nl), "co_nlocals of a 3.11+ code object is not the number of local names"))
    return problems


def check_localsplus(loops, masks, attrs):
    """The 3.11 localsplus loop: decide, over the kinds CPython emits, that a name goes to varnames iff LOCAL, cellvars iff
    CELL, freevars iff FREE.  The per-iteration transfer terms are the analysis's own; they are evaluated on the finite
    set of kind bytes (exact decision over that domain)."""
    problems = []
    ls = None
    for l in loops:
        if any(isinstance(k, str) and k in ("co_varnames", "co_cellvars", "co_freevars") for k in l.head):
            ls = l
    if ls is None:
        return [("R4", "localsplus-loop", "a loop splitting localsplusnames by kind", "not found", "no loop over (name, kind) pairs found in t_code")]
    lv = [l for g, l in leaves(ls.out) if isinstance(l, Fall)]
    if len(lv) != 1:
        return [("R4", "localsplus-loop", "one merged iteration outcome", len(lv), "cannot summarise the localsplus loop")]
    env = lv[0].env
    kinds = [0x20, 0x30, 0x40, 0x60, 0x70, 0x80, 0x00]
    L, C, Fm = masks["CO_FAST_LOCAL"], masks["CO_FAST_CELL"], masks["CO_FAST_FREE"]
    for var, mask in (("co_varnames", L), ("co_cellvars", C), ("co_freevars", Fm)):
        head = ls.head.get(var)
        after = env.get(var)
        ats = atoms_of(after)
        kind_atoms = [a for a in ats if "elem" in a and a != repr(head)]
        bad = []
        for kv in kinds:
            val = {a: kv for a in kind_atoms}
            val[repr(head)] = ("HEAD",)
            # the name element evaluates to a marker
            try:
                r = eval_shape(after, val)
            except Exception as ex:
                return problems + [("R4", "localsplus:%s" % var, "evaluable transfer term", show(after)[:120], "cannot evaluate the loop transfer term: %s" % ex)]
            appended = r != ("HEAD",)
            if appended != bool(kv & mask):
                bad.append("0x%02x" % kv)
        if bad:
            problems.append(("R4", "localsplus:%s" % var, "name appended iff kind & 0x%02x" % mask, "differs for kinds %s" % bad,
                             "3.11+ localspluskinds split: %s gets a name for the wrong kinds" % var))
    # the object's attributes must be the loop results
    for var in ("co_varnames", "co_cellvars", "co_freevars"):
        got = attrs.get(var)
        if not (isinstance(got, Sym) and got.name.endswith(":" + var)):
            problems.append(("R4", "binding:%s" % var, "result of the localsplus split", show(got), "%s is not the list built from localsplusnames" % var))
    return problems


def eval_shape(t, val):
    """evaluate a guarded tuple-building term: Guard / concat / syms"""
    if isinstance(t, Guard):
        return eval_shape(t.a, val) if eval_term(t.cond, val) else eval_shape(t.b, val)
    if isinstance(t, Op) and t.op == "concat":
        out = ()
        for a in t.args:
            out = out + tuple(eval_shape(a, val))
        return out
    if isinstance(t, tuple):
        return tuple("X" for _ in t)
    if isinstance(t, Sym):
        if repr(t) in val:
            return val[repr(t)]
        return ("?",)
    return t
