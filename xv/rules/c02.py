"""C02 -- instruction stream decodes exactly as CPython's dis does for that version (DESIGN.md section 4, C02)."""
import functools

from ..par import pmap
from ..tables import tables
from . import dis_rules


def _work(mname):
    return dis_rules.table_worker(mname, ("C02",))


def collect(rep, prop, worker, min_tables=39, min_ops=4000, also=None):
    T = dis_rules.state()["T"]
    names = sorted(T.reachable)
    rep.floor("tables reachable from op_imports", len(names), min_tables)
    results = pmap(worker, names)
    nops = 0
    for res in results:
        for (p, rule, construct, detail, ok, exp, got, where, msg) in res:
            if p == "META":
                nops += detail
                continue
            if p == prop:
                rep.ob(rule, construct, detail, ok, expected=exp, derived=got, where=where, msg=msg)
            elif also and p in also and rule in also[p][1]:
                also[p][0].ob(rule, construct, detail, ok, expected=exp, derived=got, where=where, msg=msg)
    rep.configurations = nops
    rep.floor("(table, opcode) specialisations", nops, min_ops)
    rep.analysed("xdis.bytecode.get_logical_instruction_at_offset")
    rep.analysed("xdis.cross_dis.instruction_size")
    rep.analysed("xdis.cross_dis.op_has_argument")
    rep.analysed("xdis.util.code2num")
    return T


def run(rep, tier):
    rep.explanation = ("one-iteration summary of the instruction decoder per (opcode table, opcode): sparse conditional constant propagation "
                       "with the opcode byte bound and all other code bytes / loop-carried state symbolic; width, cursor advance, operand "
                       "assembly and EXTENDED_ARG carry compared as terms with Lib/dis.py's semantics; the sibling operand unpackers likewise")
    rep.rule("R1", "instruction_size per table and opcode: 1/3 bytes before 3.6, 2/2 from 3.6")
    rep.rule("R2", "tiling: the cursor advances by exactly the instruction width, Instruction.offset is the opcode's offset, opcode/opname are the table's, "
                   "inst_size = width + width(EXTENDED_ARG) * number of prefixes")
    rep.rule("R3", "operand assembly: b1 + 256*b2 + ext (ext' = arg*65536 after EXTENDED_ARG) before 3.6; b1 | ext (ext' = arg<<8) from 3.6; ext' = 0 otherwise")
    rep.rule("R4", "the operand unpacker used by the table's label finder yields the same (offset, operand) and consumes the same number of bytes")
    rep.rule("R6", "an instruction reports an operand exactly when dis of that version does (op >= HAVE_ARGUMENT; hasarg from 3.12)")
    rep.rule("R7", "the xdis.std entry points the property is observed at (get_instructions, Bytecode iteration, make_std_api(v)) hand on the caller's arguments and the "
                   "API's own table: C20's plumbing rules R1, R2 and R7 (first_line, per-API opcode table, show_caches), restated")
    rep.rule("R8", "the opcode table used for a version and flavour (CPython / PyPy) is that version's and flavour's, also after the other flavour was requested (C09-R5, restated)")
    collect(rep, "C02", _work)
    driver(rep)
    from ..report import SubReport, merge_sub
    from . import c20
    sub20 = SubReport("C20", tier=tier)
    sub20.plumbing_only = True
    c20.run(sub20, tier)
    merge_sub(rep, sub20, "R7", "C20", only_rules=("R1", "R2", "R7"))
    # R8: opcode names come from the table get_opcode_module hands out for the version and flavour asked for, whatever was asked for before (C09-R5, restated)
    from . import c09
    sub09 = SubReport("C09", tier="quick")
    c09.run(sub09, "quick")
    merge_sub(rep, sub09, "R8", "C09", only_rules=("R5",))
    rep.assumptions = ["reference/dis_semantics.json (Lib/dis.py of 2.7, 3.6-3.13)", "opcode names per offset are C09's subject", "behaviour on malformed code is not decided"]


def driver(rep):
    """R2 (driver): get_instructions_bytes continues at offset(last instruction of the group) + its width."""
    from ..fold import FuncRef
    from ..report import AnalysisError
    from ..sve import Cont, Fall, Guard, Lin, Op, Spec, Sym, flatten_effects, leaves, show
    T = dis_rules.state()["T"]
    bc = T.F.modules["xdis.bytecode"]
    f = bc.ns.get("get_instructions_bytes")
    if not isinstance(f, FuncRef):
        raise AnalysisError("anchor vanished: xdis.bytecode.get_instructions_bytes")
    rep.analysed(f.qualname)
    DEC = "get_logical_instruction_at_offset"
    for v in ("2.7", "3.8", "3.13"):
        opc = T.table_for_version(v)
        have = opc.ns["HAVE_ARGUMENT"]
        w = (1, 3) if tuple(opc.ns["version_tuple"][:2]) < (3, 6) else (2, 2)
        sp = Spec(T.F, opaque_funcs={DEC})

        def hook(spec, name, fv, args, kw, node):
            if name.endswith("findlabels"):
                return Sym("labels", "list")
            return NotImplemented
        sp.hooks.append(hook)
        sp.run(f, [Sym("code", "bytes"), opc])
        found = False
        for k, e in flatten_effects(sp.effects):
            if k != "loop-begin":
                continue
            ls = e.args[3]
            calls = [x for x in ls.effects if x.kind == "call" and DEC in str(x.args[0])]
            if not calls:
                continue
            found = True
            falls = [l for g, l in leaves(ls.out) if isinstance(l, (Fall, Cont))]
            carried = [n for n, hv in ls.head.items() if isinstance(n, str) and isinstance(hv, Sym) and hv.name.startswith(ls.tag + ":")
                       and any(repr(a) == repr(hv) for a in calls[0].args[1])]
            good, why = False, "cannot summarise"
            nxt = None
            if len(falls) == 1 and len(carried) == 1:
                nxt = falls[0].env.get(carried[0])
                # the group = list(decoder(...)); the inner for loop leaves its target bound to the last element
                inner = [x.args[3] for x in ls.effects if x.kind == "loop"]
                last_syms = set()
                for il in inner:
                    for n, hv in il.head.items():
                        if isinstance(n, str):
                            last_syms.add("after-%s:%s" % (il.tag, n))
                # decided by evaluating the extracted next-offset term (any way of writing the width choice): its atoms must be fields of the *last*
                # instruction of the group, and for offset 1000 and opcodes around HAVE_ARGUMENT it must be 1000 + that version's width
                from ..sve import eval_term

                def attr_atoms(t, acc):
                    if isinstance(t, Op) and t.op == "attr":
                        acc.append(t)
                    elif isinstance(t, Lin):
                        for a_ in t.terms:
                            attr_atoms(a_, acc)
                    elif isinstance(t, Op):
                        for a_ in t.args:
                            attr_atoms(a_, acc)
                    elif isinstance(t, Guard):
                        attr_atoms(t.cond, acc)
                        attr_atoms(t.a, acc)
                        attr_atoms(t.b, acc)
                    return acc
                ats = attr_atoms(nxt, [])
                owners = {repr(t.args[0]) for t in ats}
                why = show(nxt)
                good = bool(ats) and len(owners) == 1 and owners <= last_syms and {t.args[1] for t in ats} <= {"offset", "opcode"}
                if good:
                    X = ats[0].args[0]
                    try:
                        for opv in (0, have - 1, have, 255):
                            got_n = eval_term(nxt, {repr(Op("attr", X, "offset")): 1000, repr(Op("attr", X, "opcode")): opv})
                            if got_n != 1000 + (w[0] if opv < have else w[1]):
                                good = False
                                why = "%s: opcode %d at offset 1000 -> %r" % (show(nxt)[:200], opv, got_n)
                                break
                    except Exception as ex:
                        good, why = False, "%s: not evaluable (%s)" % (show(nxt)[:200], ex)
                elif ats:
                    why = "%s: depends on %s" % (show(nxt)[:200], sorted(owners))
            rep.ob("R2", "xdis.bytecode.get_instructions_bytes", "driver-next-offset@%s" % v, good,
                   expected="offset(last instruction of the logical group) + width(its opcode) %s" % (w,), derived=why[:300],
                   msg="the driver does not continue right after the last instruction of the logical group")
        rep.ob("R2", "xdis.bytecode.get_instructions_bytes", "driver-loop@%s" % v, found, expected="a loop that calls the decoder at the carried offset", derived=found)
