"""C02 -- instruction stream decodes exactly as CPython's dis does for that version (DESIGN.md section 4, C02)."""
import functools

from ..par import pmap
from ..tables import tables
from . import dis_rules


def _work(mname):
    return dis_rules.table_worker(mname, ("C02",))


def collect(rep, prop, worker, min_tables=39, min_ops=4000, also=None):
    T = dis_rules.state()["T"]
    names = sorted(T.reachable)
    rep.floor("tables reachable from op_imports", len(names), min_tables)
    results = pmap(worker, names)
    nops = 0
    for res in results:
        for (p, rule, construct, detail, ok, exp, got, where, msg) in res:
            if p == "META":
                nops += detail
                continue
            if p == prop:
                rep.ob(rule, construct, detail, ok, expected=exp, derived=got, where=where, msg=msg)
            elif also and p in also and rule in also[p][1]:
                also[p][0].ob(rule, construct, detail, ok, expected=exp, derived=got, where=where, msg=msg)
    rep.configurations = nops
    rep.floor("(table, opcode) specialisations", nops, min_ops)
    rep.analysed("xdis.bytecode.get_logical_instruction_at_offset")
    rep.analysed("xdis.cross_dis.instruction_size")
    rep.analysed("xdis.cross_dis.op_has_argument")
    rep.analysed("xdis.util.code2num")
    return T


def run(rep, tier):
    rep.explanation = ("one-iteration summary of the instruction decoder per (opcode table, opcode): sparse conditional constant propagation "
                       "with the opcode byte bound and all other code bytes / loop-carried state symbolic; width, cursor advance, operand "
                       "assembly and EXTENDED_ARG carry compared as terms with Lib/dis.py's semantics; the sibling operand unpackers likewise")
    rep.rule("R1", "instruction_size per table and opcode: 1/3 bytes before 3.6, 2/2 from 3.6")
    rep.rule("R2", "tiling: the cursor advances by exactly the instruction width, Instruction.offset is the opcode's offset, opcode/opname are the table's, "
                   "inst_size = width + width(EXTENDED_ARG) * number of prefixes")
    rep.rule("R3", "operand assembly: b1 + 256*b2 + ext (ext' = arg*65536 after EXTENDED_ARG) before 3.6; b1 | ext (ext' = arg<<8) from 3.6; ext' = 0 otherwise")
    rep.rule("R4", "the operand unpacker used by the table's label finder yields the same (offset, operand) and consumes the same number of bytes")
    rep.rule("R6", "an instruction reports an operand exactly when dis of that version does (op >= HAVE_ARGUMENT; hasarg from 3.12)")
    rep.rule("R7", "the xdis.std entry points the property is observed at (get_instructions, Bytecode iteration, make_std_api(v)) hand on the caller's arguments and the "
                   "API's own table: C20's plumbing rules R1, R2 and R7 (first_line, per-API opcode table, show_caches), restated")
    collect(rep, "C02", _work)
    driver(rep)
    from ..report import SubReport, merge_sub
    from . import c20
    sub20 = SubReport("C20", tier=tier)
    sub20.plumbing_only = True
    c20.run(sub20, tier)
    merge_sub(rep, sub20, "R7", "C20", only_rules=("R1", "R2", "R7"))
    rep.assumptions = ["reference/dis_semantics.json (Lib/dis.py of 2.7, 3.6-3.13)", "opcode names per offset are C09's subject", "behaviour on malformed code is not decided"]


def driver(rep):
    """R2 (driver): get_instructions_bytes continues at offset(last instruction of the group) + its width."""
    from ..fold import FuncRef
    from ..report import AnalysisError
    from ..sve import Cont, Fall, Guard, Lin, Op, Spec, Sym, flatten_effects, leaves, show
    T = dis_rules.state()["T"]
    bc = T.F.modules["xdis.bytecode"]
    f = bc.ns.get("get_instructions_bytes")
    if not isinstance(f, FuncRef):
        raise AnalysisError("anchor vanished: xdis.bytecode.get_instructions_bytes")
    rep.analysed(f.qualname)
    DEC = "get_logical_instruction_at_offset"
    for v in ("2.7", "3.8", "3.13"):
        opc = T.table_for_version(v)
        have = opc.ns["HAVE_ARGUMENT"]
        w = (1, 3) if tuple(opc.ns["version_tuple"][:2]) < (3, 6) else (2, 2)
        sp = Spec(T.F, opaque_funcs={DEC})

        def hook(spec, name, fv, args, kw, node):
            if name.endswith("findlabels"):
                return Sym("labels", "list")
            return NotImplemented
        sp.hooks.append(hook)
        sp.run(f, [Sym("code", "bytes"), opc])
        found = False
        for k, e in flatten_effects(sp.effects):
            if k != "loop-begin":
                continue
            ls = e.args[3]
            calls = [x for x in ls.effects if x.kind == "call" and DEC in str(x.args[0])]
            if not calls:
                continue
            found = True
            falls = [l for g, l in leaves(ls.out) if isinstance(l, (Fall, Cont))]
            carried = [n for n, hv in ls.head.items() if isinstance(n, str) and isinstance(hv, Sym) and hv.name.startswith(ls.tag + ":")
                       and any(repr(a) == repr(hv) for a in calls[0].args[1])]
            good, why = False, "cannot summarise"
            nxt = None
            if len(falls) == 1 and len(carried) == 1:
                nxt = falls[0].env.get(carried[0])
                # the group = list(decoder(...)); the inner for loop leaves its target bound to the last element
                inner = [x.args[3] for x in ls.effects if x.kind == "loop"]
                last_syms = set()
                for il in inner:
                    for n, hv in il.head.items():
                        if isinstance(n, str):
                            last_syms.add("after-%s:%s" % (il.tag, n))
                parts = []
                if isinstance(nxt, Lin):
                    parts = list(nxt.terms.items()) + ([("const", nxt.const)] if nxt.const else [])
                elif isinstance(nxt, Op) and nxt.op == "add":
                    for a in nxt.args:
                        if isinstance(a, Lin):
                            parts += list(a.terms.items()) + ([("const", a.const)] if a.const else [])
                        else:
                            parts.append((a, 1))
                offs = [a for a, c in parts if isinstance(a, Op) and a.op == "attr" and a.args[1] == "offset" and c == 1]
                width_ok = False
                X = offs[0].args[0] if len(offs) == 1 else None
                for a, c in parts:
                    if a == "const" and w[0] == w[1] and c == w[0]:
                        width_ok = True
                    if isinstance(a, Guard) and c == 1:
                        cd = a.cond
                        if isinstance(cd, Op) and cd.op == "Lt" and isinstance(cd.args[0], Op) and cd.args[0].op == "attr" and cd.args[0].args[1] == "opcode" \
                                and repr(cd.args[0].args[0]) == repr(X) and cd.args[1] == have and (a.a, a.b) == w:
                            width_ok = True
                good = X is not None and repr(X) in last_syms and width_ok and len(parts) == 2
                if not good and isinstance(nxt, Guard):
                    # the same sum with the width choice distributed over it
                    cd = nxt.cond

                    def off_plus(t, k):
                        if isinstance(t, Lin) and t.const == k and len(t.terms) == 1:
                            (a, c), = t.terms.items()
                            if c == 1 and isinstance(a, Op) and a.op == "attr" and a.args[1] == "offset":
                                return a.args[0]
                        return None
                    Xa, Xb = off_plus(nxt.a, w[0]), off_plus(nxt.b, w[1])
                    good = (Xa is not None and Xb is not None and repr(Xa) == repr(Xb) and repr(Xa) in last_syms and isinstance(cd, Op) and cd.op == "Lt"
                            and isinstance(cd.args[0], Op) and cd.args[0].op == "attr" and cd.args[0].args[1] == "opcode" and repr(cd.args[0].args[0]) == repr(Xa)
                            and cd.args[1] == have)
                why = show(nxt)
            rep.ob("R2", "xdis.bytecode.get_instructions_bytes", "driver-next-offset@%s" % v, good,
                   expected="offset(last instruction of the logical group) + width(its opcode) %s" % (w,), derived=why[:300],
                   msg="the driver does not continue right after the last instruction of the logical group")
        rep.ob("R2", "xdis.bytecode.get_instructions_bytes", "driver-loop@%s" % v, found, expected="a loop that calls the decoder at the carried offset", derived=found)
