"""C03 -- operands resolve to the same constant, name or variable CPython resolves (DESIGN.md section 4, C03)."""
from ..fold import FuncRef
from ..report import AnalysisError
from ..sve import Op, Spec, Sym, show
from . import dis_rules
from .c02 import collect


def _work(mname):
    return dis_rules.table_worker(mname, ("C03", "C02"))


def run(rep, tier):
    rep.explanation = ("one-iteration summary of the instruction decoder per (opcode table, table-indexed opcode), with marker tuples for the "
                       "constants / names / varnames / cells tables: the table actually indexed and the index term (arg, arg>>1, arg>>2, arg>>4, "
                       "arg&15, arg>>5) are compared with Lib/dis.py's resolution rule for that version and opname")
    rep.rule("R1", "for every opcode in a const/name/local/free/compare category, argval is table[index] with the table and index term dis uses for that "
                   "version (3.11+ merged localsplus = varnames + cells not in varnames; LOAD_GLOBAL/LOAD_ATTR/LOAD_SUPER_ATTR shifts; 3.12/3.13 COMPARE_OP shifts; 3.13 pairs)")
    rep.rule("R2", "optype is the category the table puts the opcode in")
    rep.rule("R3", "the cells table handed to the decoder is co_cellvars + co_freevars, names/varnames/consts are the code object's")
    rep.rule("R4", "the index that is resolved is the instruction's full operand: low byte(s) combined with the value carried from every EXTENDED_ARG prefix "
                   "(the operand-assembly and carry obligations of C02-R3, restated)")
    from ..report import SubReport, merge_sub
    sub = SubReport("C02")
    T = collect(rep, "C03", _work, also={"C02": (sub, ("R3",))})
    merge_sub(rep, sub, "R4", "C02")
    plumbing_rule(rep, T)
    rep.assumptions = ["reference/dis_semantics.json (Lib/dis.py of 2.7, 3.6-3.13); table *contents* are C01's subject; argrepr text is not compared",
                       "cmp_op compared by position modulo xdis's documented '-' spelling"]


def plumbing_rule(rep, T):
    """R3: Bytecode.__iter__ plumbing (def-use)"""
    bc = T.F.modules["xdis.bytecode"]
    B = bc.ns.get("Bytecode")
    if B is None:
        raise AnalysisError("anchor vanished: xdis.bytecode.Bytecode")
    from ..fold import Instance
    for v in ("2.7", "3.8", "3.12"):
        opc = T.table_for_version(v)
        sp = Spec(T.F, opaque_funcs={"get_instructions_bytes", "get_code_object", "parse_exception_table"})

        def hook(spec, name, fv, args, kw, node):
            if name.endswith("get_code_object"):
                return Sym("co", "obj!")
            if name.endswith("findlinestarts"):
                return Sym("linestarts_gen")
            return NotImplemented
        sp.hooks.append(hook)
        inst = sp.call(B, [Sym("x"), opc], {}, None, {})
        it = B.lookup("__iter__")
        sp2 = Spec(T.F, opaque_funcs={"get_instructions_bytes"})
        out = sp2.run(it, [inst])
        calls = [e for e in sp2.effects if e.kind == "call" and "get_instructions_bytes" in str(e.args[0])]
        ok = len(calls) == 1
        got = None
        if ok:
            a = list(calls[0].args[1])
            got = [show(x) for x in a]
            co = "co"
            want_cells = "concat(attr(co, 'co_cellvars'), attr(co, 'co_freevars'))"
            ok = (len(a) >= 6 and show(a[0]) == "attr(co, 'co_code')" and show(a[2]) == "attr(co, 'co_varnames')" and show(a[3]) == "attr(co, 'co_names')"
                  and show(a[4]) == "attr(co, 'co_consts')" and show(a[5]) == want_cells)
        rep.ob("R3", "xdis.bytecode.Bytecode.__iter__", "tables-passed@%s" % v, ok,
               expected=["co_code", "opc", "co_varnames", "co_names", "co_consts", "co_cellvars + co_freevars"], derived=got,
               msg="the decoder is not given the code object's own tables (cells must be cellvars followed by freevars)")
        # Bytecode.get_instructions(x): the tables are those of the code object of *x* (a different object than the one the Bytecode was built for)
        gi = B.lookup("get_instructions")
        sp3 = Spec(T.F, opaque_funcs={"get_instructions_bytes"})

        def hook3(spec, name, fv, args, kw, node):
            if name.endswith("get_code_object"):
                return Sym("co_x", "obj!")
            if name.endswith("findlinestarts"):
                return Sym("linestarts_gen")
            return NotImplemented
        sp3.hooks.append(hook3)
        sp3.run(gi, [inst, Sym("x2")])
        calls3 = [e for e in sp3.effects if e.kind == "call" and "get_instructions_bytes" in str(e.args[0])]
        ok3, got3 = False, None
        if len(calls3) == 1:
            a = list(calls3[0].args[1])
            got3 = [show(x) for x in a]
            ok3 = (len(a) >= 6 and show(a[0]) == "attr(co_x, 'co_code')" and show(a[2]) == "attr(co_x, 'co_varnames')" and show(a[3]) == "attr(co_x, 'co_names')"
                   and show(a[4]) == "attr(co_x, 'co_consts')" and show(a[5]) == "concat(attr(co_x, 'co_cellvars'), attr(co_x, 'co_freevars'))")
        rep.ob("R3", "xdis.bytecode.Bytecode.get_instructions", "tables-of-the-argument@%s" % v, ok3,
               expected=["x.co_code", "opc", "x.co_varnames", "x.co_names", "x.co_consts", "x.co_cellvars + x.co_freevars"], derived=got3,
               msg="Bytecode.get_instructions(x) resolves operands of x against tables that are not x's own (e.g. the cell table of the object the Bytecode was built for)")
