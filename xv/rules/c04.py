"""C04 -- jump targets, labels and is_jump_target agree with CPython and with each other (DESIGN.md section 4, C04)."""
from ..fold import FoldError, FuncRef, PyExc
from ..report import AnalysisError
from ..sve import Op, Spec, Sym, flatten_effects, show
from ..tables import ref_opcodes
from . import dis_rules
from .c02 import collect


def _work(mname):
    return dis_rules.table_worker(mname, ("C04", "C02"))


def run(rep, tier):
    rep.explanation = ("per (opcode table, opcode): the affine jump-target formula derived from the instruction decoder and the one derived from "
                       "the label finder that table binds (one-iteration summaries, operand symbolic) are compared with each other and with "
                       "Lib/dis.py (scale, base, backward sign, inline-cache term); is_jump_target is traced to a membership test in the finder's result")
    rep.rule("R1", "for every opcode in hasjrel/hasjabs: decoder target == finder label == dis formula (o + width + scale*sign*arg + 2*caches | scale*arg); "
                   "the finder records a label for every jump opcode, unconditionally, and for no other opcode")
    rep.rule("R2", "is_jump_target is `offset in labels`, labels being the bound finder's result extended by the exception-table targets (3.11+)")
    rep.rule("R3", "the 3.13 inline-cache table used by the finders equals CPython 3.13's cache counts")
    rep.rule("R4", "3.11+: the exception-table targets that are added to the label set are decoded as CPython decodes them (varint and entry obligations of C17-R1/R2, restated)")
    rep.rule("R6", "the label finders, operand unpackers and decoder entry points keep no state between calls and hand out no memoised mutable result (C18 R1/R3, restated "
                   "for these functions): is_jump_target must not depend on what was disassembled before")
    rep.rule("R5", "the label finders read their operands through an unpacker that yields the instruction's full operand (C02-R4: width, EXTENDED_ARG carry), restated")
    from ..report import SubReport, merge_sub
    sub2 = SubReport("C02")
    T = collect(rep, "C04", _work, also={"C02": (sub2, ("R4",))})
    merge_sub(rep, sub2, "R5", "C02")
    extra_rules(rep, T, tier)
    # R6: the label list a finder returns is the caller's own (the decoder appends exception-table targets to it): C18's shared-state audit, restricted to the
    # label finders, the operand unpackers and the decoder entry points
    from . import c18
    sub18 = SubReport("C18", tier=tier)
    c18.run(sub18, tier)
    merge_sub(rep, sub18, "R6", "C18", only_rules=("R1", "R3"),
              only_constructs=lambda c_: c_.startswith(("xdis.wordcode.", "xdis.cross_dis.findlabels", "xdis.cross_dis.unpack_opargs", "xdis.bytecode.get_instructions_bytes",
                                                        "xdis.bytecode.get_logical_instruction_at_offset", "xdis.bytecode.parse_exception_table")))


def extra_rules(rep, T, tier="quick"):
    """R2-R4: label provenance, 3.13 cache table, exception-table decoder"""
    F = T.F
    # ---- R2: provenance of `labels`
    from ..disasm_sum import instr_summary
    for v in ("2.7", "3.8", "3.11", "3.12", "3.13"):
        opc = T.table_for_version(v)
        K = opc.ns["opmap"]["POP_TOP"]
        seen = {}

        def hook(spec, name, fv, args, kw, node, seen=seen):
            if name.endswith("findlabels"):
                seen["finder"] = name
                seen["args"] = [show(a) for a in args]
                return Sym("labels", "list")
            return NotImplemented
        from ..disasm_sum import ByteHook, CODE, MARK
        f = F.modules["xdis.bytecode"].ns["get_logical_instruction_at_offset"]
        bh = ByteHook(K)
        sp = Spec(F, hooks=[hook, bh], opaque_funcs={"format_CALL_FUNCTION", "format_CALL_FUNCTION_EX"})
        sp.byte_hook = bh.index
        exc = Sym("exception_entries", "list")
        sp.run(f, [], dict(bytecode=CODE, offset=Sym("offset0", "int"), opc=opc, varnames=MARK["varnames"], names=MARK["names"], constants=MARK["constants"],
                           cells=MARK["cells"], linestarts=None, line_offset=0, exception_entries=exc, labels=None))
        want = getattr(opc.ns.get("findlabels"), "qualname", None)
        ok = seen.get("finder") is not None and seen.get("args", [None])[0] == "code"
        rep.ob("R2", "xdis.bytecode.get_logical_instruction_at_offset", "labels-from-bound-finder@%s" % v, ok, expected="opc.findlabels(bytecode, opc)", derived=seen,
               msg="when no label list is supplied the decoder must compute it with the finder bound by the opcode table")
        # exception targets appended to the same list
        apps = [e for k, e in flatten_effects(sp.effects) if k == "call" and str(e.args[0]) == "labels.append"]
        ok2 = bool(apps) and all("exception_entries" in show(e.args[1]) or "elem" in show(e.args[1]) for e in apps)
        rep.ob("R2", "xdis.bytecode.get_logical_instruction_at_offset", "exception-targets-are-labels@%s" % v, ok2,
               expected="labels.append(target) for every exception-table entry", derived=[show(e.args[1]) for e in apps],
               msg="exception handler targets are not added to the label list")
        # which components of an (start, end, target, depth, lasti) entry become labels: the handler from 3.11, both range ends too from 3.13
        import re
        comps = set()
        for e in apps:
            for mm in re.finditer(r"item\([^()]*elem, (\d)\)", show(e.args[1])):
                comps.add(int(mm.group(1)))
        vt_ = tuple(int(x) for x in v.split("."))
        if vt_ >= (3, 11):
            want_c = {0, 1, 2} if vt_ >= (3, 13) else {2}
            rep.ob("R2", "xdis.bytecode.get_logical_instruction_at_offset", "exception-entry-components-labelled@%s" % v, comps == want_c,
                   expected=sorted(want_c), derived=sorted(comps),
                   msg="dis %s labels %s of each exception-table entry (dis._make_labels_map / _get_instructions_bytes); xdis labels components %s" % (
                       v, "start, end and target" if vt_ >= (3, 13) else "the target only", sorted(comps)))
    # ---- R3: _get_cache_size_313 table
    g = F.modules["xdis.cross_dis"].ns.get("_get_cache_size_313")
    if not isinstance(g, FuncRef):
        raise AnalysisError("anchor vanished: xdis.cross_dis._get_cache_size_313")
    rep.analysed(g.qualname)
    ref = ref_opcodes("3.13")
    opc = T.table_for_version("3.13")
    for nm in sorted(set(opc.ns["opmap"]) | set(ref["caches"])):
        if opc.ns["opmap"].get(nm, 999) >= 256:
            continue
        try:
            got = F.apply(g, [nm], {})
        except (PyExc, FoldError) as e:
            got = "raises %s" % e
        want = ref["caches"].get(nm, 0)
        isjump = opc.ns["opmap"].get(nm) in set(opc.ns.get("hasjrel", []))
        if isjump or got != 0:
            rep.ob("R3", "xdis.cross_dis._get_cache_size_313", "caches:%s" % nm, got == want, expected=want, derived=got,
                   msg="3.13 inline cache entries of %s: CPython has %d" % (nm, want))
    # ---- R4: the exception-table decoder feeding the label set (shared with C17)
    from ..report import SubReport, merge_sub
    from . import c17
    sub = SubReport("C17", tier=tier)
    c17.run(sub, tier)
    merge_sub(rep, sub, "R4", "C17", only_rules=("R1", "R2"))
    rep.assumptions = ["reference/dis_semantics.json and opcodes/3.12.json, 3.13.json (cache counts)", "that targets are instruction starts is data-dependent and not decided"]
