"""C05 -- line-number mapping equals CPython's for every line-table format (DESIGN.md section 4, C05).

Decides, from one-iteration summaries of the decoders (table bytes symbolic):
 R1 signedness of the lnotab line delta by bytecode version (unsigned before 3.6, signed 3.6-3.9)
 R2 the lnotab state machine: (offset, line) pairs with stride 2, emit-before-advance, yield only on line change
 R3 Code310.co_lines: '=Bb' pairs, -128 = no line (delta not applied), empty ranges skipped, ranges consecutive
 R5 findlinestarts over co_lines(): yields on line change, skipping None lines (3.13's variant yields None lines, as dis 3.13)
 R6 which findlinestarts every opcode table binds
 R7 the yield guard under the dup_lines value that Bytecode passes by default
 R4 the 3.11+ location-table entry decoding used by co_lines() (rule shared with C17-R3)"""
from ..fold import ClassRef, FuncRef, Instance
from ..report import AnalysisError
from ..sve import (Cont, Fall, Guard, Lin, Op, Raise, Ret, Spec, Sym, Top, add, conjuncts, disjuncts, flatten_effects, leaves, show)
from ..tables import tables
from .marshal_rules import vlabel


def code_instance(F, modname, clsname, table_attr):
    m = F.modules.get(modname)
    c = m.ns.get(clsname) if m else None
    if not isinstance(c, ClassRef):
        raise AnalysisError("anchor vanished: %s.%s" % (modname, clsname))
    inst = Instance(c)
    inst.attrs.update({table_attr: Sym("table", "bytes"), "co_firstlineno": Sym("first", "int"), "co_code": Sym("cocode", "bytes")})
    return inst


def body_loop(sp, pred=None):
    for k, e in flatten_effects(sp.effects):
        if k == "loop-begin" and (pred is None or pred(e.args[3])):
            return e.args[3]
    return None


def is_symbolic(v):
    return isinstance(v, (Sym, Op, Lin, Guard, Top))


def strip(guards):
    return [g for g in guards if not (isinstance(g, Op) and g.op in ("in-loop", "loop-exit")) and not (isinstance(g, Op) and g.op == "not" and isinstance(g.args[0], Op) and g.args[0].op == "loop-exit")]


def lnotab_rules(rep, T, f, versions, universe):
    """R1/R2 for one bound lnotab finder and the versions whose tables bind it.  Decided independently of how the finder is written (wrapper, helper generator,
    loop form): it is specialised on a two-pair co_lnotab of ranged symbolic bytes (interval-guided unrolling, xv/linetab.py), its yields are collected, and the
    same bytes are decoded by dis.findlinestarts of the version group (unsigned / signed line bytes, stop at the end of the code from 3.8) over the same ranges."""
    from ..linetab import Undecodable, ref_lnotab, same
    from ..sve import NeedSplit
    F = T.F
    rep.analysed(f.qualname)
    FN = f.qualname
    C = F.load("xdis.codetype.code30").ns.get("Code3")
    a1, l1, a2, l2, K = (Sym(n_, "int") for n_ in ("a1", "l1", "a2", "l2", "K"))
    Fi, cocode = Sym("F", "int"), Sym("cocode", "bytes")

    def compare(table, ranges, code_len, signed, stop, dup):
        """[disagreements], number of buckets"""
        todo, bad, nb, runs = [dict(ranges)], [], 0, 0
        while todo:
            rg = todo.pop()
            runs += 1
            if runs > 6000:
                return ["more than 6000 buckets"], nb
            me = Instance(C)
            me.attrs.update(co_lnotab=list(table), co_firstlineno=Fi, co_code=cocode)
            sp = Spec(F, assume={repr(Op("len", cocode)): code_len})
            sp.ranges = dict(rg)
            sp.eager_generators = True
            try:
                got = sp.call(f, [me], {"dup_lines": dup} if dup else {}, None, {})
                if not isinstance(got, list):
                    bad.append("%s: the yields of the finder are not decided inside the bucket (%s)" % (rg, show(got)[:60]))
                    continue
                want = ref_lnotab(list(table), Fi, signed, sp, code_len=code_len if stop else None, dup_lines=dup)
            except NeedSplit as ns:
                lo, hi = rg[ns.atom]
                if lo >= hi:
                    bad.append("%s: cannot split %s further" % (rg, ns.atom))
                    continue
                x, y = dict(rg), dict(rg)
                x[ns.atom] = (lo, ns.point)
                y[ns.atom] = (ns.point + 1, hi)
                todo += [y, x]
                continue
            except Undecodable as ex:
                bad.append("%s: %s" % (rg, ex))
                continue
            nb += 1
            ok = len(got) == len(want) and all(isinstance(g_, tuple) and len(g_) == 2 and same(g_[0], w_[0], sp) and same(g_[1], w_[1], sp) for g_, w_ in zip(got, want))
            if not ok:
                bad.append("increments %s: finder yields %s, dis yields %s" % (
                    ", ".join("%s=%d..%d" % (k_, v_[0], v_[1]) for k_, v_ in sorted(rg.items())), [tuple(show(x_) for x_ in g_) if isinstance(g_, tuple) else show(g_) for g_ in got][:4],
                    [(show(w_[0]), show(w_[1])) for w_ in want][:4]))
        return bad, nb
    groups = [("pre-3.6", [v for v in versions if v < (3, 6)], False, False), ("3.6-3.7", [v for v in versions if (3, 6) <= v < (3, 8)], True, False),
              ("3.8-3.9", [v for v in versions if (3, 8) <= v < (3, 10)], True, True)]
    full = {"a1": (0, 255), "l1": (0, 255), "a2": (0, 255), "l2": (0, 255)}
    nbuckets = 0
    for gname, vs, signed, stop in groups:
        if not vs:
            continue
        lab = vlabel(vs, universe)
        # R1: signedness -- the same comparison against the reader of the *other* signedness tells the two failure modes apart
        bad, nb = compare([a1, l1, a2, l2], full, 100000, signed, False, False)
        nbuckets += nb
        if bad:
            other_bad, _ = compare([a1, l1, a2, l2], full, 100000, not signed, False, False)
            wrong_sign = not other_bad
            rep.ob("R1", FN, "line-delta-signedness@%s" % lab, not wrong_sign, expected="signed (>= 0x80 -> -0x100)" if signed else "unsigned (0..255)",
                   derived="behaves like the %s reader" % ("unsigned" if signed else "signed") if wrong_sign else "neither reader: see R2",
                   msg="line deltas of %s bytecode are %s bytes; the finder bound by these tables reads them the other way (e.g. a delta byte of 213 is %s)" % (
                       gname, "signed" if signed else "unsigned", "213, not -43" if signed else "-43, not 213"))
        else:
            rep.ob("R1", FN, "line-delta-signedness@%s" % lab, True, derived="agrees with the %s reader on %d buckets" % ("signed" if signed else "unsigned", nb))
        rep.ob("R2", FN, "two-pairs(dup_lines=False)@%s" % lab, not bad, expected="the (offset, line) pairs dis.findlinestarts of %s yields, for every class of two (increment, delta) pairs" % gname,
               derived=bad[:3] or "%d buckets agree" % nb,
               msg="the line-start finder bound for %s disagrees with dis.findlinestarts: %s" % (gname, "; ".join(bad[:2])))
        bad_d, nb_d = compare([a1, l1, a2, l2], full, 100000, signed, False, True)
        nbuckets += nb_d
        rep.ob("R2", FN, "two-pairs(dup_lines=True)@%s" % lab, not bad_d, expected="as dis, plus an entry for every real address increment below 255 (xdis's dup_lines mode)",
               derived=bad_d[:3] or "%d buckets agree" % nb_d, msg="dup_lines=True does not report exactly the extra entries it documents: %s" % "; ".join(bad_d[:2]))
        # the end of the code: co_lnotab entries may lie at or past it (dead code removed after the table was made); dis stops there from 3.8 on, not before
        endr = {"a1": (1, 254), "l1": (1, 127), "l2": (1, 127), "K": (-3, 30)}
        bad_e, nb_e = compare([a1, l1, 7, l2, 9, 1], endr, add(a1, K), signed, stop, False)
        nbuckets += nb_e
        rep.ob("R2", FN, "end-of-code@%s" % lab, not bad_e, expected="stop at the first entry at or past len(co_code)" if stop else "every entry reported, also those past len(co_code)",
               derived=bad_e[:3] or "%d buckets agree" % nb_e,
               msg="entries of co_lnotab at or past the end of the bytecode (%s): %s" % ("dis of 3.8/3.9 stops at the first one" if stop else "dis before 3.8 reports them all", "; ".join(bad_e[:2])))
        # empty table
        for empty in ([], b""):
            me = Instance(C)
            me.attrs.update(co_lnotab=empty, co_firstlineno=Fi, co_code=cocode)
            sp = Spec(F)
            sp.eager_generators = True
            try:
                got = sp.call(f, [me], {}, None, {})
            except Exception as ex:
                got = "not evaluable: %s" % ex
            oke = isinstance(got, list) and len(got) == 1 and got[0] == (0, Fi)
            rep.ob("R2", FN, "empty-table(%s)@%s" % (type(empty).__name__, lab), oke, expected="(0, co_firstlineno)", derived=show(got)[:80])
    rep.extra.setdefault("lnotab_buckets", 0)
    rep.extra["lnotab_buckets"] += nbuckets


def run(rep, tier):
    rep.explanation = ("one-iteration summaries (sparse conditional constant propagation, table bytes symbolic) of the lnotab decoder, Code310.co_lines and the "
                       "co_lines()-based findlinestarts variants: signedness, emission order, stride, yield guards compared with dis.findlinestarts of each version; "
                       "def-use of the dup_lines argument from Bytecode")
    rep.rule("R1", "the lnotab line delta is unsigned for bytecode before 3.6 (magic 3361) and sign-extended (>= 0x80 -> -0x100) from 3.6")
    rep.rule("R2", "lnotab automaton: pairs (table[0::2], table[1::2]); on a non-zero address increment emit (address, line) of *before* the increment iff the "
                   "line changed, then advance the address; apply the line delta afterwards; final (address, line) emitted iff the line changed")
    rep.rule("R3", "3.10 co_lines(): '=Bb' (unsigned length, signed delta) pairs; -128 means no line and the delta is not applied; empty ranges are skipped; start = previous end")
    rep.rule("R5", "findlinestarts over co_lines(): yields (start, line) when the line changes; None lines skipped for 3.10-3.12, yielded for 3.13")
    rep.rule("R6", "every opcode table binds a findlinestarts of the kind its version's line table needs")
    rep.rule("R8", "offset2line(q, linestarts) returns the line of the greatest start offset <= q, and 0 before the first entry: exhaustive over the order types of q "
                   "against tables of 0..9 entries (the search only compares offsets)")
    rep.rule("R7", "with the dup_lines value Bytecode passes by default the yield guard is the reference guard (line != lastline)")
    T = tables()
    F = T.F
    universe = sorted(set(tuple(m.ns["version_tuple"][:2]) for m in T.reachable.values()))
    # ---------------------------------------------------------------- R6 bound functions
    bound = {}
    for name, m in sorted(T.reachable.items()):
        f = m.ns.get("findlinestarts")
        v = tuple(m.ns["version_tuple"][:2])
        q = f.qualname if isinstance(f, FuncRef) else repr(f)
        bound.setdefault(q, []).append(v)
        kind = "set_lineno" if v < (1, 5) else ("lnotab" if v < (3, 10) else "co_lines")
        bodytxt = ""
        if isinstance(f, FuncRef):
            import ast as _ast
            bodytxt = _ast.unparse(f.node)
        uses = {"set_lineno": "SET_LINENO" in bodytxt, "lnotab": "co_lnotab" in bodytxt, "co_lines": "co_lines" in bodytxt}
        rep.ob("R6", name, "findlinestarts-kind", isinstance(f, FuncRef) and uses[kind], expected=kind, derived=q,
               msg="table %s (version %d.%d) binds %s, which does not read a %s line table" % (name, v[0], v[1], q, kind))
    rep.floor("tables with a bound findlinestarts", sum(len(x) for x in bound.values()), 39)
    # ---------------------------------------------------------------- R1/R2 lnotab decoder: every finder bound by a 1.5-3.9 table
    lnotab_finders = {}
    for name, m in sorted(T.reachable.items()):
        v = tuple(m.ns["version_tuple"][:2])
        fb = m.ns.get("findlinestarts")
        if (1, 5) <= v < (3, 10) and isinstance(fb, FuncRef):
            lnotab_finders.setdefault(fb.qualname, [fb, []])[1].append(v)
    if not lnotab_finders:
        raise AnalysisError("no opcode table of 1.5-3.9 binds a findlinestarts function")
    f = None
    for fq_, (fb, vs_) in sorted(lnotab_finders.items()):
        f = fb if (f is None or any(v >= (3, 6) for v in vs_)) else f
        lnotab_rules(rep, T, fb, sorted(set(vs_)), universe)
    # ---------------------------------------------------------------- R7 dup_lines default of Bytecode
    B = F.modules["xdis.bytecode"].ns.get("Bytecode")
    init = B.lookup("__init__") if isinstance(B, ClassRef) else None
    if not isinstance(init, FuncRef):
        raise AnalysisError("anchor vanished: xdis.bytecode.Bytecode.__init__")
    rep.analysed(init.qualname)
    seen = {}

    def hook(spec, name, fv, args, kw, node):
        if name.endswith("get_code_object"):
            return Sym("co", "obj!")
        if name.endswith("findlinestarts"):
            seen["kw"] = dict(kw)
            seen["args"] = list(args)
            return []
        return NotImplemented
    sp = Spec(F, hooks=[hook], opaque_funcs={"parse_exception_table"})
    sp.call(B, [Sym("x"), T.table_for_version("3.8")], {}, None, {})
    dl = seen.get("kw", {}).get("dup_lines", seen.get("args", [None, False])[1] if len(seen.get("args", [])) > 1 else False)
    # what dup_lines=True adds to dis's answer is decided in R2 (two-pairs(dup_lines=True): one extra entry per real address increment below 255 on an unchanged
    # line); the default therefore agrees with dis exactly when it is False
    rep.ob("R7", "xdis.bytecode.Bytecode.__init__", "default-dup_lines-guard", dl is False, expected="line != lastline only (dup_lines False)",
           derived={"dup_lines passed": show(dl)},
           msg="Bytecode passes dup_lines=%s to findlinestarts by default: instructions inside a long single line get a starts_line that dis does not report" % show(dl))
    # ---------------------------------------------------------------- R3 Code310.co_lines
    c310 = code_instance(F, "xdis.codetype.code310", "Code310", "co_linetable")
    m = c310.cls.lookup("co_lines")
    if not isinstance(m, FuncRef):
        raise AnalysisError("anchor vanished: Code310.co_lines")
    rep.analysed(m.qualname)
    sp = Spec(F)
    sp.run(m, [c310])
    CN = m.qualname
    iu = [e for e in sp.effects if e.kind == "iter_unpack"]
    rep.ob("R3", CN, "format", len(iu) == 1 and iu[0].args[0] in ("=Bb", "<Bb", "Bb", ">Bb", "@Bb", "!Bb") and show(iu[0].args[1]) == "table", expected="Bb pairs over co_linetable",
           derived=[(e.args[0], show(e.args[1])) for e in iu])
    ls = body_loop(sp)
    if ls is None:
        rep.ob("R3", CN, "summarisable", False, derived="no loop")
    else:
        od = Sym("%s:fld0(B)" % ls.tag)
        ld = Sym("%s:fld1(b)" % ls.tag)
        lv = leaves(ls.out)
        ys = [e for e in ls.effects if e.kind == "yield"]
        from ..sve import eval_term
        carried = [(name, hv) for name, hv in ls.head.items() if isinstance(name, str) and isinstance(hv, Sym)]
        SAMPLES = [(odv, ldv) for odv in (0, 3) for ldv in (-128, -2, 0, 5)]

        def post_of(name, val):
            for g_, l_ in lv:
                if isinstance(l_, (Fall, Cont)) and all(eval_term(c, val) for c in strip(g_)):
                    return eval_term(l_.env.get(name), val)
            return "no continuing path"

        def behaves(name, want):
            """does the loop-carried variable `name` end every iteration with want(head value, length, delta)? -- decided by evaluating the extracted
            path conditions and updates on the sample (length, delta) classes, so the way the update is written does not matter"""
            for odv, ldv in SAMPLES:
                val = {repr(od): odv, repr(ld): ldv}
                for n2, h2 in carried:
                    val[repr(h2)] = 1000 if n2 == name else 77
                base = val[repr(dict(carried)[name])]
                try:
                    if post_of(name, val) != want(base, odv, ldv):
                        return False
                except Exception:
                    return False
            return True

        def want_end(h, odv, ldv):
            return h + odv

        def want_line(h, odv, ldv):
            return h if ldv == -128 else h + ldv
        ends = [(n, h) for n, h in carried if behaves(n, want_end)]
        lines_ = [(n, h) for n, h in carried if behaves(n, want_line) and (n, h) not in ends]
        endv = ends[0] if len(ends) == 1 else None
        linev = lines_[0] if len(lines_) == 1 else None
        rep.ob("R3", CN, "end-accumulates-length", endv is not None, expected="one loop-carried variable with end' = end + length on every path", derived=[n for n, h in ends] or [n for n, h in carried])
        rep.ob("R3", CN, "minus128-means-no-line", linev is not None, expected="one loop-carried variable with line' = line + delta unless delta == -128 (then unchanged)",
               derived=[n for n, h in lines_] or [n for n, h in carried])
        if endv and linev:
            # every continuing path (also the one that skips an empty range) must account for the entry, and exactly the non-empty ranges are yielded as
            # (previous end, previous end + length, line or None): decided by evaluation on the same separating set
            bad_paths = []
            for odv, ldv in SAMPLES:
                val = {repr(od): odv, repr(ld): ldv, repr(endv[1]): 10, repr(linev[1]): 100}
                try:
                    post = (post_of(endv[0], val), post_of(linev[0], val))
                    emitted = [eval_term(y.args[0], val) for y in ys if all(eval_term(c, val) for c in strip(y.guards))]
                except Exception as ex:
                    bad_paths.append("not evaluable: %s" % ex)
                    break
                wl = 100 if ldv == -128 else 100 + ldv
                want_emit = [(10, 10 + odv, None if ldv == -128 else 100 + ldv)] if odv else []
                if post != (10 + odv, wl) or emitted != want_emit:
                    bad_paths.append("length=%d delta=%d: end,line -> %s (expected %s), yields %s (expected %s)" % (odv, ldv, post, (10 + odv, wl), emitted, want_emit))
            rep.ob("R3", CN, "every-entry-accounted", not bad_paths, expected="end += length and line += delta (unless -128) on every path; (start, end, line or None) is yielded iff length != 0",
                   derived=bad_paths[:3] or "8 (length, delta) classes agree",
                   msg="an entry of the 3.10 line table is not fully applied or not reported as (previous end, previous end + length, line or None) on some path "
                       "(zero-length entries carry line deltas larger than 127): %s" % "; ".join(bad_paths[:2]))
    # ---------------------------------------------------------------- R5 co_lines based finders
    def colines_finder(fn, label, none_yielded):
        """decided on scripted co_lines() output (concrete ranges; the lines are two ranged symbols A < B and None), however the finder's loop is written: the pairs it
        yields must be those of dis.findlinestarts of the version group (3.10-3.12: a line that is not None and differs from the last reported one; 3.13: also None)"""
        A, B = Sym("A", "int"), Sym("B", "int")
        scripts = [[(0, 4, A), (4, 8, A), (8, 10, None), (10, 14, A), (14, 20, B), (20, 22, None), (22, 30, None), (30, 34, B), (34, 40, A)],
                   [(0, 2, None), (2, 6, A), (6, 8, A), (8, 12, B)], [(0, 6, A)], []]
        badc = []
        for script in scripts:
            obj = Sym("code", "obj!")

            def hook(spec, name, fv, args, kw, node, script=script):
                if name == "code.co_lines":
                    return list(script)
                return NotImplemented
            sp = Spec(F, hooks=[hook])
            sp.assume[repr(Op("hasattr", obj, "co_lines"))] = True
            sp.ranges = {"A": (1, 1000), "B": (2000, 3000)}
            sp.eager_generators = True
            try:
                got = sp.call(fn, [obj], {}, None, {})
            except Exception as ex:
                got = "not evaluable: %s" % ex
            want, last = [], (False if none_yielded else None)
            for st_, en_, ln_ in script:
                if none_yielded:
                    if ln_ is not last:
                        last = ln_
                        want.append((st_, ln_))
                elif ln_ is not None and ln_ is not last:
                    last = ln_
                    want.append((st_, ln_))
            ok_ = isinstance(got, list) and len(got) == len(want) and all(isinstance(g_, tuple) and len(g_) == 2 and g_[0] == w_[0] and g_[1] is w_[1] for g_, w_ in zip(got, want))
            if not ok_:
                badc.append("ranges %s: yields %s, dis yields %s" % ([(a_, b_, show(c_)) for a_, b_, c_ in script], show(got)[:120], [(a_, show(b_)) for a_, b_ in want]))
        rep.ob("R5", fn.qualname, "%s:guard" % label, not badc, expected="line is not lastline" if none_yielded else "line is not None and line != lastline, starting from no line",
               derived=badc[:2] or "%d scripted range lists agree" % len(scripts),
               msg="findlinestarts over co_lines() (%s) does not report what dis reports: %s" % (label, "; ".join(badc[:1])))
    # the finders the 3.10 - 3.12 tables bind (each is examined; they are normally one and the same function)
    f31x = {}
    for v_ in ("3.10", "3.11", "3.12"):
        mv = T.table_for_version(v_)
        fv_ = mv.ns.get("findlinestarts") if mv else None
        if isinstance(fv_, FuncRef):
            f31x.setdefault(fv_.qualname, fv_)
    if not f31x:
        raise AnalysisError("no opcode table of 3.10-3.12 binds a findlinestarts function")
    for fq_, fv_ in sorted(f31x.items()):
        rep.analysed(fq_)
        colines_finder(fv_, "3.10-3.12", False)
    f = sorted(f31x.items())[0][1]
    m313 = T.table_for_version("3.13")
    f313 = m313.ns.get("findlinestarts") if m313 else None
    if isinstance(f313, FuncRef) and f313 is not f:
        rep.analysed(f313.qualname)
        colines_finder(f313, "3.13", True)
    else:
        rep.ob("R5", "xdis.opcodes.opcode_313", "3.13:own-finder", False, expected="a finder that yields None lines (dis 3.13)", derived=show(f313))
    # ---------------------------------------------------------------- R4: 3.11+ line decoder (shared with C17-R3)
    from .c17 import colines_ranges_rule, location_rules
    rep.rule("R4", "3.11+ location table: per entry the code-unit count, line delta (incl. multi-byte zig-zag varints) and no-line marker used by co_lines() equal Objects/locations.md; the ranges co_lines() builds give each code unit its entry's line")
    n4 = location_rules(rep, T, rule="R4", which=("decode_linetable_entry",))
    rep.floor("3.11+ location-entry configurations", n4, 60)
    colines_ranges_rule(rep, T, "R4")
    # ---------------------------------------------------------------- R8 offset2line: a comparison-based search, decided for every ordering of the query
    # relative to tables of 0..9 entries (the table offsets are concrete and distinct, the query is a ranged symbol that is split at every comparison, the
    # lines are symbols: the function touches offsets only through comparisons, so these buckets are all the order types there are for those lengths)
    from ..sve import NeedSplit
    o2l = F.modules["xdis.bytecode"].ns.get("offset2line")
    if not isinstance(o2l, FuncRef):
        raise AnalysisError("anchor vanished: xdis.bytecode.offset2line")
    rep.analysed(o2l.qualname)
    q = Sym("q", "int")
    bad8, nb8 = [], 0
    for n_ in range(0, 10):
        offs = [10 * i_ + 5 for i_ in range(n_)]
        table = [(offs[i_], Sym("L%d" % i_, "int")) for i_ in range(n_)]
        todo8 = [{"q": (-3, 10 * n_ + 12)}]
        while todo8:
            rg = todo8.pop()
            sp8 = Spec(F)
            sp8.ranges = dict(rg)
            try:
                out8 = sp8.run(o2l, [q, list(table)])
            except NeedSplit as ns:
                lo, hi = rg[ns.atom]
                todo8 += [{"q": (ns.point + 1, hi)}, {"q": (lo, ns.point)}]
                continue
            except Exception as ex:
                bad8.append("n=%d q in %s: not evaluable (%s)" % (n_, rg["q"], ex))
                continue
            nb8 += 1
            rets8 = [l.value for g_, l in leaves(out8) if isinstance(l, Ret)]
            lo, hi = rg["q"]
            # the bucket must lie inside one gap of the table for the answer to be a single term
            ks = {max([i_ for i_ in range(n_) if offs[i_] <= qq], default=-1) for qq in (lo, hi)}
            if len(ks) != 1:
                bad8.append("n=%d q in %d..%d: the search does not distinguish offsets on both sides of a table entry" % (n_, lo, hi))
                continue
            k_ = ks.pop()
            want8 = 0 if k_ < 0 else table[k_][1]
            if len(rets8) != 1 or not (rets8[0] is want8 or (want8 == 0 and rets8[0] == 0 and not is_symbolic(rets8[0]))):
                bad8.append("n=%d q in %d..%d: returns %s, the line of the greatest start <= q is %s" % (n_, lo, hi, [show(r_) for r_ in rets8][:2], show(want8)))
    rep.ob("R8", o2l.qualname, "greatest-start-not-above-offset", not bad8, expected="the line of the greatest start offset <= the query (0 before the first entry), for every ordering of the query and tables of 0..9 entries",
           derived=bad8[:3] or "%d buckets agree" % nb8, msg="offset2line: %s" % "; ".join(bad8[:2]))
    rep.floor("offset2line buckets", nb8, 60)
    rep.assumptions = ["dis.findlinestarts of CPython 2.7, 3.6-3.13 (reference/dis_semantics.json 'line table')", "offset2line is decided for tables of up to 9 entries (all order types), not by induction on the length",
                       "the 3.11+ location table walk is decided under C17"]
