"""C06 -- pyc header is decoded per the file format of the bytecode's version (DESIGN.md section 4, C06).

load_module_from_file_object is specialised for every magic of the folded table (first read bound to that magic's
bytes, everything else symbolic).  For every *accepted* magic the ordered read trace, the PEP 552 decision term and the
terms bound to timestamp / source_size / sip_hash are compared with reference/pyc_header.json."""
from ..loadmod import analyse
from ..report import AnalysisError
from ..sve import Guard, Op, Sym, show
from ..tables import ref_json, tables

HOSTS_QUICK = [(3, 12)]
HOSTS_THOROUGH = [(3, 8), (3, 9), (3, 10), (3, 11), (3, 12), (3, 13)]

ONE_X = (39170, 39171, 11913, 5892)


def expected_layout(magic, version):
    v = tuple(version[:2])
    if v < (3, 0):
        return "ts"
    if 3000 <= magic < 4000:
        if magic < 3210:
            return "ts"
        if magic < 3392:
            return "ts_size"
        return "pep552"
    if v < (3, 3):
        return "ts"
    if v < (3, 7):
        return "ts_size"
    return "pep552"


def release_magics(reg):
    rel = set(reg["last_row_per_minor"].values()) | set(reg["interpreter_writes"].values()) | set(reg["release_exceptions"].values()) | set(ONE_X)
    return rel


PYPY_CORPUS = (48, 62218, 112, 160, 240, 256)  # PyPy 3.2, 2.7, 3.5, 3.6, 3.7, 3.8 files shipped in the repo's corpus


def is_field(term, read_sym, fmt):
    return isinstance(term, Sym) and term.info and term.info.get("read") is read_sym and term.info.get("fmt") == fmt and term.info.get("idx") == 0


def run(rep, tier):
    rep.explanation = ("specialisation of xdis.load.load_module_from_file_object per magic number (sparse conditional constant "
                       "propagation over the AST with the magic bytes bound and all later input symbolic); compares the read trace and "
                       "the value terms of the returned tuple with the pyc header format")
    rep.rule("R1", "ordered stream reads after the magic equal the header layout of that magic (4 | 4,4 | 4 then 8 or 4,4)")
    rep.rule("R2", "the hash-based decision is bit 0 of the little-endian u32 flag word = bit 0 of byte 4 of the file")
    rep.rule("R3", "timestamp / source_size / sip_hash are the '<I' / '<I' / '<Q' fields of the right reads; fields the format does not store are None")
    rep.rule("R4", "the code object is read by the next stream operation after the header (no seek, no skipped or extra read)")
    rep.rule("R6", "`pydisasm -F header`: the timestamp / source size / SipHash lines are written exactly when the field is not None and show load_module's values")
    rep.rule("R5", "reported version is the registry's major.minor for the magic and the reported magic is the file's")
    reg = ref_json("magic_registry.json")
    regver = {}
    for r in reg["rows"]:
        regver.setdefault(r["magic"], (r["major"], r["minor"]))
    rel = release_magics(reg)
    hosts = HOSTS_THOROUGH if tier == "thorough" else HOSTS_QUICK
    n_accept = 0
    dispositions = {}
    for host in hosts:
        T = tables(host)
        m2v = T.magics["magicint2version"]
        rep.floor("magics in folded table", len(m2v), 215)
        hostmagic = T.magics.get("PYTHON_MAGIC_INT")
        for magic in sorted(m2v):
            for fast in ((False, True) if tier == "thorough" else (False,)):
                hs = analyse(T, magic, fast_load=fast)
                rep.configurations += 1
                cfg = "magic=%d%s%s" % (magic, "" if len(hosts) == 1 and host == (3, 12) else ":host=%d.%d" % host, ":fast_load" if fast else "")
                dispositions[hs.disposition] = dispositions.get(hs.disposition, 0) + 1
                if hs.disposition in ("reject", "dropbox"):
                    if magic in rel and magic not in (62135,):
                        rep.ob("R1", "xdis.load.load_module_from_file_object", cfg + ":released-magic-rejected", False,
                               msg="magic %d is what a final release writes but load_module rejects it (%s)" % (magic, hs.leaf_kinds))
                    continue
                if hs.disposition != "accept" or hs.ret is None:
                    rep.ob("R1", "xdis.load.load_module_from_file_object", cfg + ":disposition", False, derived=hs.leaf_kinds,
                           msg="magic %d neither cleanly accepted nor rejected: %s" % (magic, hs.leaf_kinds))
                    continue
                n_accept += 1
                enforced = magic in rel or magic in PYPY_CORPUS
                version, ts, rmagic, co, ispypy, size, sip = hs.ret
                lay = expected_layout(magic, version if isinstance(version, tuple) else (0, 0))
                tag = "" if enforced else " [interim/variant magic: outside the statement, noted]"
                reads = [(n, g) for n, g, s in hs.reads]
                syms = [s for n, g, s in hs.reads]
                problems = []
                # host fast path reads the rest of the file with read() -> n None, after the header
                hdr = [(n, g) for n, g in reads if n is not None]
                sizes = [n for n, g in hdr]
                ok1 = False
                by_path = None
                if lay == "ts":
                    want_desc = [4]
                    ok1 = sizes == [4] and not hdr[0][1]
                elif lay == "ts_size":
                    want_desc = [4, 4]
                    ok1 = sizes == [4, 4] and not hdr[0][1] and not hdr[1][1]
                else:
                    # PEP 552: the flag word, then -- on complementary paths, in whichever order the branches are written -- the 8-byte hash, or the
                    # 4-byte timestamp followed by the 4-byte size
                    want_desc = [4, "8 | 4, 4"]
                    G = "bits(byte(%s, 0), 0, 1)" % (syms[0] if syms else "rd#1")
                    rest = list(zip(hdr[1:], syms[1:]))
                    groups_ = {}
                    for (n_, g_), s_ in rest:
                        groups_.setdefault(g_, []).append((n_, s_))
                    shapes = sorted(([n_ for n_, s_ in v_] for v_ in groups_.values()), key=repr)
                    ok1 = bool(hdr) and hdr[0] == (4, ()) and shapes == [[4, 4], [8]] and all(g_ for g_ in groups_)
                    if ok1:
                        g_hash = [g_ for g_, v_ in groups_.items() if [n_ for n_, s_ in v_] == [8]][0]
                        g_ts = [g_ for g_, v_ in groups_.items() if [n_ for n_, s_ in v_] == [4, 4]][0]
                        by_path = {"hash": groups_[g_hash][0][1], "ts": groups_[g_ts][0][1], "size": groups_[g_ts][1][1]}
                        if not (g_hash == (G,) and g_ts == ("not(%s)" % G,)):
                            problems.append(("R2", "pep552-flag-term", G, {"hash read when": list(g_hash), "timestamp/size read when": list(g_ts)},
                                             "the hash/timestamp decision must test bit 0 of the first flag byte (u32 little-endian & 1)"))
                if not ok1:
                    problems.append(("R1", "reads", want_desc, [(n, list(g)) if g else n for n, g in hdr], "header reads after the magic"))
                # field terms
                if ok1:
                    if lay == "ts":
                        chk = [("timestamp", ts, is_field(ts, syms[0], "<I")), ("source_size", size, size is None), ("sip_hash", sip, sip is None)]
                    elif lay == "ts_size":
                        chk = [("timestamp", ts, is_field(ts, syms[0], "<I")), ("source_size", size, is_field(size, syms[1], "<I")), ("sip_hash", sip, sip is None)]
                    else:
                        from ..sve import eval_term
                        Gt = Op("bits", Op("byte", syms[0], 0), 0, 1)

                        def arm(t, flag):
                            """value of the returned term when the flag bit is `flag` (the conditional may be written either way round)"""
                            while isinstance(t, Guard):
                                try:
                                    t = t.a if eval_term(t.cond, {repr(Gt): flag, G: flag}) else t.b
                                except Exception:
                                    return "not evaluable"
                            return t

                        def g_ok(t, hash_side, other):
                            h_, o_ = arm(t, 1), arm(t, 0)
                            return ((hash_side is None and h_ is None) or (hash_side is not None and is_field(h_, *hash_side))) and \
                                ((other is None and o_ is None) or (other is not None and is_field(o_, *other)))
                        chk = [("timestamp", ts, g_ok(ts, None, (by_path["ts"], "<I"))), ("source_size", size, g_ok(size, None, (by_path["size"], "<I"))),
                               ("sip_hash", sip, g_ok(sip, (by_path["hash"], "<Q"), None))]
                    for nm, term, ok in chk:
                        if not ok:
                            problems.append(("R3", nm, "per layout %s" % lay, show(term), "%s is not the field the %s layout stores there" % (nm, lay)))
                # loader right after header
                seq = [k for k, a, g in hs.order]
                li = [i for i, k in enumerate(seq) if k == "load"]
                hostfast = (magic == hostmagic)
                if get_ok(seq, li, hostfast) is not True:
                    problems.append(("R4", "code-follows-header", "reads..., load", seq, get_ok(seq, li, hostfast)))
                # version / magic
                if magic in regver and isinstance(version, tuple):
                    if tuple(version[:2]) != regver[magic]:
                        problems.append(("R5", "version", list(regver[magic]), list(version[:2]), "reported version differs from CPython's registry"))
                if rmagic != magic and not (magic == 48 and rmagic == 3187):
                    problems.append(("R5", "magic_int", magic, show(rmagic), "reported magic differs from the file's"))
                for rule, what, exp, got, msg in problems:
                    if enforced:
                        rep.ob(rule, "xdis.load.load_module_from_file_object", "%s:%s" % (cfg, what), False, expected=exp, derived=got, msg=msg)
                    else:
                        rep.note("%s %s: expected %s derived %s%s" % (cfg, what, exp, got, tag))
                if enforced:
                    for rule in ("R1", "R2", "R3", "R4", "R5"):
                        if not any(p[0] == rule for p in problems):
                            if rule == "R2" and lay != "pep552":
                                continue
                            rep.ob(rule, "xdis.load.load_module_from_file_object", "%s:%s" % (cfg, rule), True, expected=lay,
                                   derived=[n for n, g in hdr])
    rep.analysed("xdis.load.load_module_from_file_object")
    rep.analysed("xdis.magics.magic2int")
    rep.analysed("xdis.magics.int2magic")
    rep.analysed("xdis.magics.magic_int2tuple")
    rep.analysed("xdis.magics.py_str2tuple")
    rep.analysed("xdis.load.is_pypy")
    rep.floor("accepted magics specialised", n_accept, 150)
    rep.extra["dispositions"] = dispositions
    rep.extra["hosts"] = ["%d.%d" % h for h in hosts]
    # ---------------------------------------------------------------- R6 the header lines pydisasm -F header prints
    from ..sve import Op as _Op, Spec as _Spec, Sym as _Sym, flatten_effects as _flat, show as _show
    from ..fold import FuncRef
    F = T.F
    dm = F.load("xdis.disasm")
    smh = dm.ns.get("show_module_header")
    dfile = dm.ns.get("disassemble_file")
    if not isinstance(smh, FuncRef) or not isinstance(dfile, FuncRef):
        raise AnalysisError("anchor vanished: xdis.disasm.show_module_header / disassemble_file")
    rep.analysed(smh.qualname)
    rep.analysed(dfile.qualname)

    def dt_hook(spec, name, fv, args, kw, node):
        if "fromtimestamp" in name:
            return _Sym("dt", "obj!")
        return NotImplemented
    flds = {"timestamp": _Sym("timestamp"), "source_size": _Sym("source_size"), "sip_hash": _Sym("sip_hash")}
    sp = _Spec(F, hooks=[dt_hook])
    sp.run(smh, [(3, 8), _Sym("co", "obj!"), flds["timestamp"]], dict(out=_Sym("out", "obj!"), is_pypy=False, magic_int=3413, source_size=flds["source_size"],
                                                                     sip_hash=flds["sip_hash"], header=True, show_filename=True))
    for fname, marker in (("timestamp", "Timestamp in code"), ("source_size", "Source code size"), ("sip_hash", "SipHash")):
        ws = [e for k, e in _flat(sp.effects) if k == "call" and str(e.args[0]) == "out.write" and marker in _show(e.args[1])]
        got = None
        ok_ = False
        if len(ws) == 1:
            gs = [_show(g) for g in ws[0].guards if _show(g) != "out"]
            got = {"printed when": gs, "text": _show(ws[0].args[1])[:70]}
            ok_ = gs == ["IsNot(%s, None)" % fname] and fname in _show(ws[0].args[1])
        rep.ob("R6", smh.qualname, "header-line:%s" % fname, ok_, expected="written exactly when %s is not None, showing its value (0 is a value)" % fname, derived=got,
               msg="the %s line of `pydisasm -F header` is not printed exactly when the format stores the field: a stored value of 0 (empty source file, reproducible-build "
                   "timestamp) disappears or an absent field is shown" % fname)
    # the values handed to show_module_header are load_module's
    lm_vals = [_Sym(n) for n in ("version_tuple", "timestamp", "magic_int", "co", "is_pypy", "source_size", "sip_hash")]
    seen_ = []

    def lm_hook(spec, name, fv, args, kw, node):
        if name.endswith("load_module"):
            return tuple(lm_vals)
        if name.endswith("show_module_header"):
            seen_.append(([_show(a) for a in args], {k: _show(v) for k, v in kw.items()}))
            return None
        if name.endswith("check_object_path") or name.endswith("is_graal") or "IS_GRAAL" in name:
            return _Sym("path")
        return NotImplemented
    sp = _Spec(F, hooks=[lm_hook], opaque_funcs={"disco", "xdis.disasm.disco"})
    try:
        sp.run(dfile, [_Sym("filename", "str")], dict(outstream=_Sym("outstream", "obj!"), asm_format="header"))
    except Exception as ex:
        seen_.append((["not analysable: %s" % ex], {}))
    want_pos = ["version_tuple", "co", "timestamp", "outstream", "is_pypy", "magic_int", "source_size", "sip_hash"]
    okp = len(seen_) == 1 and seen_[0][0][:8] == want_pos
    rep.ob("R6", dfile.qualname, "header-values-are-load_module's", okp, expected=want_pos, derived=seen_[:1],
           msg="`pydisasm -F header` does not print the fields load_module returned (argument order / source)")
    rep.assumptions = ["reference/pyc_header.json (PEP 3147/552 layouts, validated against py_compile output of CPython 3.6-3.13 in all invalidation modes)",
                       "fp.read(n) returns n bytes (truncation is C11's subject)", "struct.unpack semantics"]


def get_ok(seq, li, hostfast):
    if not li:
        return "no loader call after the header"
    i = li[0]
    before = seq[:i]
    if "seek" in before:
        return "seek before the code object is read"
    if hostfast:
        return True
    if before and before[-1] not in ("read", "read-magic"):
        return "operation %s between header and loader" % before[-1]
    return True
