"""C08 -- magic-number knowledge is coherent and agrees with CPython's registry (DESIGN.md section 4, C08)."""
import re
import struct

from ..fold import FoldError, FuncRef, ModuleNS, PyExc
from ..loadmod import analyse
from ..report import AnalysisError
from ..sve import Guard, Op, Raise, Ret, Spec, Sym, leaves, show
from ..tables import ref_json, tables


def fn(T, mod, name):
    m = T.F.modules.get(mod)
    if m is None or not isinstance(m.ns.get(name), FuncRef):
        raise AnalysisError("anchor vanished: %s.%s" % (mod, name))
    return m.ns[name]


def run(rep, tier):
    rep.explanation = ("constant folding of xdis/magics.py and xdis/op_imports.py (tables as the module-level statements denote "
                       "them), symbolic specialisation of int2magic/magic2int, folding of magic_int2tuple / get_opcode / sysinfo2magic per "
                       "table row; compared with CPython's own magic registry")
    rep.rule("R1", "int2magic packs its argument as the little-endian u16 first field of a 4-byte string on every return path; magic2int "
                   "unpacks the little-endian u16 first field of a 4-byte string => mutual inverses on 0..65535 by struct semantics")
    rep.rule("R2", "every (magic -> major.minor) row of CPython's registry is a key of magicint2version and parses to that major.minor")
    rep.rule("R3", "every magic load_module accepts resolves to a version tuple and get_opcode(version, is_pypy) finds a table")
    rep.rule("R4", "for every release name in the tables, magics[name] / sysinfo2magic(release) is the magic that release really writes")
    T = tables()
    F = T.F
    reg = ref_json("magic_registry.json")
    M = T.magics
    m2v = M["magicint2version"]
    rep.floor("magic rows", len(m2v), 215)
    rep.floor("release names", len(M["canonic_python_version"]), 450)
    rep.floor("registry rows", len(reg["rows"]), 180)
    # ---------------------------------------------------------------- R1
    f_i2m = fn(T, "xdis.magics", "int2magic")
    f_m2i = fn(T, "xdis.magics", "magic2int")
    rep.analysed(f_i2m.qualname)
    rep.analysed(f_m2i.qualname)
    # int2magic / magic2int decided on values (folded), however the four bytes are put together: every number of the table, the 16-bit boundaries and the
    # neighbours of the two pre-release numbers that end in 0x99 0x00
    from ..fold import FoldError as _FE, PyExc as _PE
    probe = sorted(set(m2v) | {0, 1, 255, 256, 0x7FFF, 0x8000, 0xFFFE, 0xFFFF, 39169, 39170, 39171, 39172})
    bad_i, bad_m = [], []
    for n_ in probe:
        want_b = struct.pack("<H", n_) + (b"\x99\x00" if n_ in (39170, 39171) else b"\r\n")
        try:
            got_b = F.apply(f_i2m, [n_], {})
        except (_PE, _FE) as ex:
            got_b = "raises %s" % str(ex)[:60]
        if not (isinstance(got_b, (bytes, bytearray)) and bytes(got_b) == want_b):
            bad_i.append("%d -> %r (want %r)" % (n_, got_b, want_b))
        try:
            got_n = F.apply(f_m2i, [want_b], {})
        except (_PE, _FE) as ex:
            got_n = "raises %s" % str(ex)[:60]
        if got_n != n_:
            bad_m.append("%r -> %r (want %d)" % (want_b, got_n, n_))
    rep.ob("R1", "xdis.magics.int2magic", "u16le-then-tail:%d-numbers" % len(probe), not bad_i, expected="struct.pack('<H', n) + CR LF (0x99 0x00 for 39170, 39171)", derived=bad_i[:3] or "equal",
           msg="int2magic: %s" % "; ".join(bad_i[:2]))
    rep.ob("R1", "xdis.magics.magic2int", "first-u16le-of-4-bytes:%d-headers" % len(probe), not bad_m, expected="the little-endian u16 in the first two of the four bytes", derived=bad_m[:3] or "equal",
           msg="magic2int: %s" % "; ".join(bad_m[:2]))
    sp = Spec(F)
    mg = Sym("magic", "bytes", {"n": 4})
    out = sp.run(f_m2i, [mg])
    for g, l in leaves(out):
        v = l.value if isinstance(l, Ret) else None
        ok = isinstance(v, Sym) and v.info and v.info.get("read") is mg and v.info.get("idx") == 0 and str(v.info.get("fmt", "")).startswith("<H") \
            and struct.calcsize(v.info["fmt"]) == 4
        rep.ob("R1", "xdis.magics.magic2int", "u16le-first-of-4", ok, expected="unpack('<H..', magic)[0] with calcsize 4", derived=show(v))
    # ---------------------------------------------------------------- R2
    f_t = fn(T, "xdis.magics", "magic_int2tuple")
    rep.analysed(f_t.qualname)
    rep.analysed("xdis.magics.py_str2tuple")
    seen = set()
    for r in reg["rows"]:
        mgc = r["magic"]
        if mgc in seen:
            continue
        seen.add(mgc)
        want = (r["major"], r["minor"])
        if mgc not in m2v:
            rep.ob("R2", "xdis.magics.magicint2version", "magic=%d:present" % mgc, False, expected="%d.%d" % want, derived=None,
                   msg="CPython registry magic %d (Python %d.%d%s) is not in xdis's table" % (mgc, want[0], want[1], r["tag"]))
            continue
        try:
            got = F.apply(f_t, [mgc], {})
        except (PyExc, FoldError) as e:
            got = "raises %s" % e
        rep.ob("R2", "xdis.magics.magicint2version", "magic=%d:version" % mgc, isinstance(got, tuple) and tuple(got[:2]) == want,
               expected=list(want), derived=got, where=None, msg="magic %d: registry says %d.%d, xdis's row %r parses to %r" % (mgc, want[0], want[1], m2v[mgc], got))
    # int2magic of every table magic is the byte string the tables are keyed by (and what a file of that release starts with): the folder applies int2magic to each
    # of the table's own keys; `versions` must map the result to the same release name as magicint2version
    vers_tbl = M.get("versions")
    nkeys = 0
    if isinstance(vers_tbl, dict):
        for mgc in sorted(m2v):
            try:
                hb = F.apply(f_i2m, [mgc], {})
            except (PyExc, FoldError) as e:
                hb = "raises %s" % e
            import struct as _st
            # what a file of that release starts with: the 16-bit magic, then CR LF -- except 1.0 - 1.2, whose MAGIC was the plain long 0x999902 / 0x999903
            real = _st.pack("<H", mgc) + (b"\x99\x00" if mgc in (39170, 39171) else b"\r\n")
            okh = isinstance(hb, (bytes, bytearray)) and bytes(hb) == real and bytes(hb) in vers_tbl and vers_tbl[bytes(hb)] == m2v[mgc]
            nkeys += 1
            if not okh:
                rep.ob("R1", "xdis.magics.int2magic", "magic=%d:header-bytes-are-the-table-key" % mgc, False, expected="%r, a key of `versions` naming %r" % (real, m2v[mgc]),
                       derived=repr(hb), msg="int2magic(%d) gives %r, which the magic tables do not list for %r: int2magic is not the inverse of magic2int on the header such files really carry" % (
                           mgc, hb, m2v[mgc]))
        rep.ob("R1", "xdis.magics.int2magic", "table-magics:header-bytes-are-the-table-keys", True, derived="%d table magics examined (failures are listed individually)" % nkeys)
    rep.floor("table magics whose header bytes were compared with the table keys", nkeys, 200)
    # ---------------------------------------------------------------- R3
    f_go = fn(T, "xdis.disasm", "get_opcode")
    rep.analysed(f_go.qualname)
    rep.analysed("xdis.load.load_module_from_file_object")
    n_acc = 0
    for mgc in sorted(m2v):
        # every table key must resolve to a version tuple: the loader relies on it (only KeyError is handled there, C11-R1)
        try:
            vt_ = F.apply(f_t, [mgc], {})
            okv = isinstance(vt_, tuple) and len(vt_) >= 2 and all(isinstance(x, int) for x in vt_)
        except (PyExc, FoldError) as e:
            vt_, okv = "raises %s" % e, False
        rep.ob("R3", "xdis.magics.magic_int2tuple", "magic=%d:resolves" % mgc, okv, expected="a (major, minor[, micro]) tuple", derived=vt_,
               msg="magic %d is in the table (%r) but magic_int2tuple cannot turn it into a version: load_module fails with a non-ImportError" % (mgc, m2v[mgc]))
        hs = analyse(T, mgc)
        if hs.disposition == "reject" and not all(k == "reject:ImportError" for k in hs.leaf_kinds):
            rep.ob("R3", "xdis.load.load_module_from_file_object", "magic=%d:clean-disposition" % mgc, False, expected="accepted, or refused with ImportError", derived=hs.leaf_kinds,
                   msg="a file with table magic %d makes the loader raise %s" % (mgc, hs.leaf_kinds))
        if hs.disposition != "accept" or hs.ret is None:
            continue
        n_acc += 1
        version, ispypy = hs.ret[0], hs.ret[4]
        variants = [ispypy]
        if isinstance(ispypy, Guard):
            variants = [ispypy.a, ispypy.b]
        if not isinstance(version, tuple):
            rep.ob("R3", "xdis.load.load_module_from_file_object", "magic=%d:version-tuple" % mgc, False, derived=show(version),
                   msg="accepted magic does not yield a concrete version tuple")
            continue
        for pv in variants:
            if not isinstance(pv, bool):
                rep.ob("R3", "xdis.load.is_pypy", "magic=%d:is_pypy" % mgc, False, derived=show(pv))
                continue
            try:
                mod = F.apply(f_go, [version, pv], {})
                ok = isinstance(mod, ModuleNS) and mod.name.startswith("xdis.opcodes.opcode_")
                got = mod.name if ok else repr(mod)
                if ok and tuple(mod.ns.get("version_tuple", ())[:2]) != tuple(version[:2]):
                    # a table is found, but it is another version's: the file loads and is then decoded with the wrong opcodes
                    ok = False
                    got = "%s, the table of %s" % (mod.name, ".".join(str(x_) for x_ in mod.ns.get("version_tuple", ())[:2]))
            except (PyExc, FoldError) as e:
                ok, got = False, "raises %s" % e
            rep.ob("R3", "xdis.disasm.get_opcode", "magic=%d:pypy=%s" % (mgc, pv), ok, expected="an opcode table", derived=got,
                   msg="a file with magic %d loads (version %r, is_pypy=%s) but cannot be disassembled: %s" % (mgc, version, pv, got))
    rep.floor("accepted magics", n_acc, 150)
    # ---------------------------------------------------------------- R4
    cpv = M["canonic_python_version"]
    magics = M["magics"]
    f_s2m = fn(T, "xdis.magics", "sysinfo2magic")
    rep.analysed(f_s2m.qualname)
    last = reg["last_row_per_minor"]
    exc = reg["release_exceptions"]
    n_rel = 0
    for name in sorted(cpv):
        mm = re.match(r"^(\d)\.(\d+)(?:\.(\d+))?$", name)
        if not mm:
            continue
        minor = "%s.%s" % (mm.group(1), mm.group(2))
        if minor not in last:
            continue
        want = exc.get(name, last[minor])
        n_rel += 1
        got = magics.get(name)
        goti = struct.unpack("<H", got[:2])[0] if isinstance(got, bytes) and len(got) == 4 else got
        alts = reg.get("minor_alternatives", {}).get(name, [want]) if mm.group(3) is None else [want]
        rep.ob("R4", "xdis.magics.magics", "release=%s" % name, goti in alts, expected=want, derived=goti,
               msg="magics[%r] is magic %r; CPython %s writes %d" % (name, goti, name, want))
        if mm.group(3) is not None:
            vi = (int(mm.group(1)), int(mm.group(2)), int(mm.group(3)), "final", 0)
            try:
                r = F.apply(f_s2m, [vi], {})
                ri = struct.unpack("<H", r[:2])[0] if isinstance(r, bytes) and len(r) == 4 else repr(r)
            except (PyExc, FoldError) as e:
                ri = "raises %s" % e
            rep.ob("R4", "xdis.magics.sysinfo2magic", "release=%s" % name, ri == want, expected=want, derived=ri,
                   msg="sysinfo2magic(%r) gives %r; CPython %s writes %d" % (vi, ri, name, want))
    for rel, want in sorted(reg["interpreter_writes"].items()):
        vi = tuple(int(p) for p in rel.split(".")) + ("final", 0)
        try:
            r = F.apply(f_s2m, [vi], {})
            ri = struct.unpack("<H", r[:2])[0] if isinstance(r, bytes) and len(r) == 4 else repr(r)
        except (PyExc, FoldError) as e:
            ri = "raises %s" % e
        rep.ob("R4", "xdis.magics.sysinfo2magic", "installed=%s" % rel, ri == want, expected=want, derived=ri,
               msg="sysinfo2magic for installed interpreter %s gives %r; its MAGIC_NUMBER is %d" % (rel, ri, want))
    rep.floor("numeric release names checked", n_rel, 200)
    # ---------------------------------------------------------------- R5 (notes)
    for nm in ("PYPY3_MAGICS", "GRAAL3_MAGICS"):
        for k in M.get(nm, ()):
            if k not in m2v:
                rep.note("%s contains %d which is not a table key" % (nm, k))
    rep.configurations = len(m2v)
    rep.assumptions = ["reference/magic_registry.json = comment table of CPython 3.13.0 Lib/importlib/_bootstrap_external.py + MAGIC_NUMBER of nine installed interpreters",
                       "struct.pack/unpack semantics for '<H'", "the folder's model of module-level Python semantics"]
