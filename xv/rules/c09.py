"""C09 -- opcode tables match the interpreter's own opcode module (DESIGN.md section 4, C09).

Decides from the *folded* table modules (constant folding of xdis/opcodes/*.py, no import):
 R1  for 2.7, 3.6-3.13: opmap, HAVE_ARGUMENT, EXTENDED_ARG and the seven operand categories equal the frozen dump of
     that CPython's `opcode` module.
 R2  for every table reachable from op_imports: name<->number bijection, categorised opcodes are defined and take an
     operand (unless the reference has the same gap), hasjrel and hasjabs disjoint, EXTENDED_ARG defined with the right
     shift, frozenset views equal the category lists at module end.
 R3  every report names the def_op/rm_op statement (file:line) that last set the offending entry (provenance).
"""
from ..report import AnalysisError
from ..tables import CATEGORIES, REF_VERSIONS, ref_opcodes, tables, vt

VIEWS = {"hasjrel": "JREL_OPS", "hasjabs": "JABS_OPS", "hasconst": "CONST_OPS", "hasname": "NAME_OPS",
         "haslocal": "LOCAL_OPS", "hasfree": "FREE_OPS", "hascompare": "COMPARE_OPS", "hasnargs": "NARGS_OPS",
         "hasvargs": "VARGS_OPS", "hasstore": "STORE_OPS"}


def prov(m, field, key):
    return m.prov.get((field, key)) or m.prov.get((field, None)) or m.rel


def short(m):
    return m.name.split(".")[-1]


def run(rep, tier):
    rep.explanation = ("constant folding of the declarative opcode-table modules (AST interpretation of base.py's builder "
                       "functions over the module-level def_op/rm_op calls), compared with frozen dumps of CPython's opcode "
                       "module; no xdis code imported or run")
    rep.rule("R1", "folded table of a referenced version equals CPython's opcode module: opmap, HAVE_ARGUMENT, EXTENDED_ARG, 7 categories")
    rep.rule("R2", "every reachable table: name/number bijection; categorised opcodes defined and operand-taking; hasjrel/hasjabs disjoint; "
                   "EXTENDED_ARG defined, shift 16 (<3.6) / 8 (>=3.6); frozenset views equal the lists at module end")
    rep.rule("R5", "get_opcode_module(version, variant) hands out the table of that version and flavour (CPython / PyPy), also when the other flavour of the same "
                   "version was asked for before (evaluated by the folder in one shared module state, each selection twice, interleaved)")
    T = tables()
    rep.floor("opcode table modules folded", len(T.all_tables), 43)
    rep.floor("tables reachable from op_imports", len(T.reachable), 39)
    rep.floor("op_imports keys", len(T.op_imports), 300)
    refs = {}
    # ---------------------------------------------------------------- R1
    for v in REF_VERSIONS:
        ref = ref_opcodes(v)
        refs[vt(v)] = ref
        m = T.table_for_version(v)
        if m is None:
            rep.ob("R1", "xdis.op_imports.op_imports", "%s:no-table" % v, False, msg="no opcode table registered for released version %s" % v)
            continue
        name = short(m)
        rep.analysed(m.name)
        opmap = m.ns["opmap"]
        refmap = ref["opmap_norm"]
        for nm in sorted(set(opmap) | set(refmap)):
            a, b = opmap.get(nm), refmap.get(nm)
            if a != b:
                where = prov(m, "opmap", nm) if nm in opmap else (prov(m, "opname", b) if b is not None else m.rel)
                rep.ob("R1", name, "opmap:%s" % nm, False, expected=b, derived=a, where=where,
                       msg="opcode %s is %r in xdis's %s table, %r in CPython %s" % (nm, a, v, b, v))
        rep.ob("R1", name, "opmap", True, expected=len(refmap), derived=len(opmap))
        # opname[] carries CPython's own spelling (e.g. SLICE+0); opmap keys may be normalised to identifiers
        bad_sp = []
        for nm_raw, num in sorted(ref["opmap"].items()):
            if num < len(m.ns["opname"]) and m.ns["opname"][num] != nm_raw:
                bad_sp.append((num, nm_raw, m.ns["opname"][num]))
        rep.ob("R1", name, "opname-spelling", not bad_sp, expected="opname[n] is CPython's name for n", derived=bad_sp[:6] or "equal",
               where=prov(m, "opname", bad_sp[0][0]) if bad_sp else None, msg="opname[] differs from CPython %s's: %s" % (v, bad_sp[:4]))
        for fld in ("HAVE_ARGUMENT", "EXTENDED_ARG"):
            rep.ob("R1", name, fld, m.ns.get(fld) == ref[fld], expected=ref[fld], derived=m.ns.get(fld), where=prov(m, fld, None))
        for cat in CATEGORIES:
            a = set(m.ns.get(cat, []))
            b = set(ref.get(cat, []))
            for op in sorted(a ^ b):
                nm = m.ns["opname"][op] if op < len(m.ns["opname"]) else "?"
                rep.ob("R1", name, "%s:%s" % (cat, nm), False, expected=(op in b), derived=(op in a), where=prov(m, cat, op),
                       msg="opcode %d (%s) %s in xdis's %s, %s in CPython %s's %s" % (op, nm, "is" if op in a else "is not", cat,
                                                                                      "is" if op in b else "is not", v, cat))
            rep.ob("R1", name, cat, True, expected=sorted(b), derived=sorted(a))
        # categories that exist only in newer opcode modules (hasarg, hasexc from 3.12): compared where the reference has them
        for cat in ("hasarg", "hasexc"):
            if cat not in ref:
                continue
            a = set(m.ns.get(cat, []))
            b = set(ref.get(cat, []))
            rep.ob("R1", name, cat, a == b, expected=sorted(b), derived=sorted(a), where=prov(m, cat, None),
                   msg="%s of xdis's %s table differs from CPython %s's: only in xdis %s, only in CPython %s" % (cat, v, v, sorted(a - b)[:8], sorted(b - a)[:8]))
    # ---------------------------------------------------------------- R2
    for mname, m in sorted(T.reachable.items()):
        name = short(m)
        rep.analysed(mname)
        ns = m.ns
        for need in ("opmap", "opname", "HAVE_ARGUMENT", "version_tuple"):
            if need not in ns:
                raise AnalysisError("table %s has no %s" % (mname, need))
        ver = tuple(ns["version_tuple"][:2])
        opmap, opname = ns["opmap"], ns["opname"]
        ref = refs.get(ver) if not ns.get("is_pypy") else None
        # bijection
        bynum = {}
        for nm, num in opmap.items():
            bynum.setdefault(num, []).append(nm)
        for num, nms in sorted(bynum.items()):
            rep.ob("R2", name, "one-name-per-number:%d" % num, len(nms) == 1, expected=1, derived=sorted(nms), where=prov(m, "opmap", nms[-1]),
                   msg="opcode number %d carries the names %s" % (num, sorted(nms)))
        for nm, num in sorted(opmap.items()):
            got = opname[num].replace("+", "_") if 0 <= num < len(opname) else None
            rep.ob("R2", name, "opname[opmap[%s]]" % nm, got == nm, expected=nm, derived=got, where=prov(m, "opmap", nm),
                   msg="opmap[%r]=%d but opname[%d]=%r" % (nm, num, num, got))
        defined_nums = set(opmap.values())
        for num in range(len(opname)):
            if T.is_defined(m, num) and num not in defined_nums:
                rep.ob("R2", name, "opname-without-opmap:%d" % num, False, expected="<%d>" % num, derived=opname[num], where=prov(m, "opname", num),
                       msg="opname[%d]=%r but no opmap entry maps to %d" % (num, opname[num], num))
        # categories
        have = ns["HAVE_ARGUMENT"]
        for cat in CATEGORIES:
            for op in sorted(set(ns.get(cat, []))):
                refgap_undefined = ref is not None and op in ref.get(cat, []) and op not in ref["opmap"].values()
                ok_def = op in defined_nums or refgap_undefined
                rep.ob("R2", name, "%s:%d:defined" % (cat, op), ok_def, where=prov(m, cat, op),
                       msg="opcode %d is in %s but is not a defined opcode of this table" % (op, cat))
                refgap_noarg = ref is not None and op in ref.get(cat, []) and op < ref["HAVE_ARGUMENT"]
                rep.ob("R2", name, "%s:%d:has-operand" % (cat, op), op >= have or refgap_noarg, where=prov(m, cat, op), expected=">= %d" % have, derived=op,
                       msg="opcode %d is in %s but is below HAVE_ARGUMENT=%d (takes no operand)" % (op, cat, have))
        both = set(ns.get("hasjrel", [])) & set(ns.get("hasjabs", []))
        rep.ob("R2", name, "hasjrel&hasjabs", not both, expected=[], derived=sorted(both),
               where=prov(m, "hasjabs", sorted(both)[0]) if both else None, msg="opcodes that are both relative and absolute jumps")
        # EXTENDED_ARG
        if ver >= (1, 5) or "EXTENDED_ARG" in opmap:
            ea = ns.get("EXTENDED_ARG")
            has_ea = "EXTENDED_ARG" in opmap
            if ver >= (2, 0):
                rep.ob("R2", name, "EXTENDED_ARG:defined", has_ea and ea == opmap.get("EXTENDED_ARG"), expected=opmap.get("EXTENDED_ARG"), derived=ea,
                       where=prov(m, "opmap", "EXTENDED_ARG"))
            if has_ea:
                want = 16 if ver < (3, 6) else 8
                rep.ob("R2", name, "EXTENDED_ARG_SHIFT", ns.get("EXTENDED_ARG_SHIFT") == want, expected=want, derived=ns.get("EXTENDED_ARG_SHIFT"),
                       where=prov(m, "EXTENDED_ARG_SHIFT", None))
        # frozenset views
        for lst, view in VIEWS.items():
            if view in ns or lst in ns:
                a = ns.get(view)
                b = frozenset(ns.get(lst, []))
                rep.ob("R2", name, "view:%s" % view, a == b, expected=sorted(b), derived=sorted(a) if a is not None else None,
                       where=prov(m, lst, None), msg="%s is not frozenset(%s) at module end (table edited after update_sets/finalize?)" % (view, lst))
    # ---------------------------------------------------------------- thorough: analyser cross-examination
    if tier == "thorough":
        from ..replay import replay_opmaps
        from ..repo import REPO_ROOT
        maps, notes = replay_opmaps(REPO_ROOT)
        agree = skipped = 0
        for mod, m in sorted(T.all_tables.items()):
            r = maps.get(mod)
            if r is None:
                skipped += 1
                continue
            mine = {k.replace("+", "_"): v for k, v in m.ns["opmap"].items()}
            if r != mine:
                raise AnalysisError("the folder and the independent literal replay disagree on %s: %s" % (mod, sorted(set(r.items()) ^ set(mine.items()))[:6]))
            agree += 1
        rep.extra["cross_examination"] = {"method": "independent replay of literal def_op/rm_op calls (xv/replay.py)", "modules_agreeing": agree,
                                          "modules_not_replayable": skipped, "notes": {k: v for k, v in notes.items() if v != "replayed"}}
        rep.floor("tables confirmed by the independent replay", agree, 35)
    # ---------------------------------------------------------------- R2 (history): EXTENDED_ARG, its shift and HAVE_ARGUMENT for every version from 2.0 on
    from ..tables import ref_json as _ref_json
    hist = _ref_json("extended_arg_history.json")
    nh = 0
    for mname, m in sorted(T.reachable.items()):
        v = tuple(m.ns["version_tuple"][:2])
        key = "%d.%d" % v
        if key not in hist["extended_arg"]:
            continue
        nh += 1
        want_e = hist["extended_arg"][key]
        want_h = hist["have_argument"].get(key, hist["have_argument"]["default"])
        want_s = hist["shift"]["before_3.6"] if v < (3, 6) else hist["shift"]["from_3.6"]
        got_ = (m.ns.get("EXTENDED_ARG"), m.ns.get("opmap", {}).get("EXTENDED_ARG"), m.ns.get("EXTENDED_ARG_SHIFT"), m.ns.get("HAVE_ARGUMENT"))
        rep.ob("R2", short(m), "EXTENDED_ARG-number-shift-HAVE_ARGUMENT", got_ == (want_e, want_e, want_s, want_h), expected=[want_e, want_e, want_s, want_h], derived=list(got_),
               msg="%s: EXTENDED_ARG constant / opmap entry / shift / HAVE_ARGUMENT are %s; Python %s has %s" % (short(m), list(got_), key, [want_e, want_e, want_s, want_h]))
    rep.floor("tables compared with the EXTENDED_ARG history", nh, 25)
    # ---------------------------------------------------------------- R5 the table handed out for (version, variant) is that version's table of that flavour, on every call
    from ..fold import FoldError, ModuleNS, PyExc
    f_gom = T.F.modules["xdis.op_imports"].ns.get("get_opcode_module")
    if f_gom is None:
        raise AnalysisError("anchor vanished: xdis.op_imports.get_opcode_module")
    have = {}
    for m in T.reachable.values():
        have.setdefault(tuple(m.ns["version_tuple"][:2]), set()).add(bool(m.ns.get("is_pypy")))
    nsel = 0
    for v in sorted(have):
        flavours = [(None, False)] + ([("pypy", True)] if True in have[v] else [])
        if False not in have[v]:
            flavours = [("pypy", True)]
        # each flavour is asked for twice, interleaved: a lookup remembered under the wrong key shows as a later answer that differs
        for variant, want_pypy in flavours + flavours:
            try:
                got = T.F.apply(f_gom, [v, variant], {})
                ok = isinstance(got, ModuleNS) and tuple(got.ns.get("version_tuple", ())[:2]) == v and bool(got.ns.get("is_pypy")) == want_pypy
                shown = got.name if isinstance(got, ModuleNS) else repr(got)[:60]
            except (PyExc, FoldError) as e:
                ok, shown = False, "raises %s" % e
            nsel += 1
            rep.ob("R5", "xdis.op_imports.get_opcode_module", "%d.%d:%s" % (v[0], v[1], variant or "CPython"), ok, expected="the %s table of %d.%d" % (variant or "CPython", v[0], v[1]), derived=shown,
                   msg="get_opcode_module(%r, %r) hands out %s (asked in the order CPython, PyPy, CPython, PyPy for each version)" % (v, variant, shown))
    rep.floor("(version, flavour) selections evaluated", nsel, 70)
    rep.configurations = len(T.reachable)
    rep.extra["tables"] = sorted(short(m) for m in T.reachable.values())
    rep.extra["reference_versions"] = REF_VERSIONS
    rep.assumptions = ["reference/opcodes/*.json are faithful dumps of the `opcode` module of CPython 2.7.18, 3.6.15 ... 3.13.0 (built by reference/build/dump_opcode.py)",
                       "the folder models `import xdis` on a CPython 3.12 host; opcode_check()'s host comparison has no effect on tables"]
