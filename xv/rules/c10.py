"""C10 -- every marshal encoding of a constant decodes to the same value (DESIGN.md section 4, C10).

Necessary conditions decided from the specialised readers: type-code table, payload layout, result kind, read/format
agreement, reference-table discipline on every return path, NULL terminator distinct from None, interned-string table."""
from ..tables import tables
from .marshal_rules import reader_obligations


def run(rep, tier):
    rep.explanation = ("each t_* reader of the pure-Python unmarshaller is specialised per accepted magic with the stream symbolic; the "
                       "extracted payload layout, result constructor and reference-table effects on every return path are compared with "
                       "the marshal format (reference/marshal_format.json)")
    rep.rule("R1", "every marshal type code dispatches to a reader whose payload layout and result kind equal marshal.c's")
    rep.rule("R2", "every unpack(fmt, fp.read(n)) has calcsize(fmt) == n and explicit little-endian multi-byte formats")
    rep.rule("R3", "index i of the reference table holds the i-th FLAG_REF object: leaf readers register the returned object once; containers "
                   "reserve before their children and fill the slot with the returned object, or register a mutable object that is only mutated in place; "
                   "singletons and references never register; nothing is registered without FLAG_REF")
    rep.rule("R5", "TYPE_UNICODE payloads of 3.1+ producers are decoded as utf-8 with surrogatepass")
    rep.rule("R7", "the NULL terminator is distinguishable from every decodable value and the dict reader terminates only on it")
    rep.rule("R9", "TYPE_LONG: |n| 16-bit digits are read, digit j contributes digit << 15*j, the result is negated exactly when n < 0")
    rep.rule("R8", "TYPE_INTERNED appends exactly once to the interned-string table; TYPE_STRINGREF only indexes it")
    T = tables()
    reader_obligations(rep, T)
    rep.assumptions = ["reference/marshal_format.json (hand-encoded from marshal.c, validated by an independent reference reader against CPython 2.7, 3.6-3.13 and the repo's .pyc corpus)",
                       "value equality of what is read (float parsing, digit arithmetic) is not decided"]
