"""C11 -- corrupt or hostile bytecode files fail cleanly (DESIGN.md section 4, C11).

 R1 exception containment: in load_module / load_module_from_file_object every operation that can raise is either inside a
    try whose broad handler always raises ImportError, or in the frozen table of total operations; every explicit raise is
    ImportError.
 R2 effects: nothing in the call-graph closure of load_module executes, imports, compiles or writes.
 R3 progress: every input-driven loop of the unmarshaller reads from the stream on every iteration path (so iterations
    are bounded by the remaining bytes); recursion only through r_object, which consumes a byte first."""
import ast

from ..callgraph import CallGraph
from ..fold import FuncRef
from ..marshal_read import new_instance, robj_hook, unmarshaller
from ..report import AnalysisError
from ..repo import enclosing_function, get_repo, norm
from ..sve import (Cont, Fall, Op, Spec, Sym, flatten_effects, leaves, show)
from ..tables import tables
from .marshal_rules import accepted_magics

# operations allowed outside the catch-all, with the reason they cannot raise a non-ImportError for any *file content*
TOTAL = {
    "osp.exists": "filesystem predicate (not content dependent)",
    "osp.isfile": "filesystem predicate",
    "osp.getsize": "filesystem predicate",
    "open": "opening the file: failure is an OS condition, not file content",
    "fp.read": "read() of a binary stream returns short data at EOF, never raises on content",
    "fp.seek": "seek(0) on a regular file",
    "fp.close": "close",
    "magic2int": "unpacks exactly 4 bytes; load_module refuses files shorter than 50 bytes first",
    "int2magic": "packs a constant",
    "magic_int2tuple": "called under `except KeyError`; for table keys py_str2tuple is total (C08-R2/R3)",
    "len": "builtin on bytes",
    "type": "builtin on an exception instance",
    "ord": "on a 1-byte slice under a len(magic) >= 2 guard",
    "is_pypy": "membership tests and str.endswith",
    "ImportError": "constructing the exception that is raised",
    "sys.exc_info": "inside the handler",
    "traceback.print_exc": "inside the handler (stderr)",
    "load_module_from_file_object": "analysed itself",
}
SINKS = {
    "builtin:exec", "builtin:eval", "builtin:compile", "builtin:__import__", "builtin:execfile", "builtin:input",
}
SINK_PREFIXES = ("ext:importlib", "ext:imp.", "ext:py_compile", "ext:runpy", "ext:pickle", "ext:subprocess", "ext:os.system", "ext:os.remove", "ext:os.rename",
                 "ext:os.mkdir", "ext:os.makedirs", "ext:os.unlink", "ext:os.rmdir", "ext:os.popen", "ext:os.exec", "ext:os.spawn", "ext:shutil", "ext:tempfile",
                 "ext:ctypes", "ext:socket", "ext:urllib")


def broad_handler_raises_importerror(t):
    for h in t.handlers:
        broad = h.type is None or (isinstance(h.type, ast.Name) and h.type.id in ("Exception", "BaseException"))
        if not broad:
            continue
        body = h.body
        has_return = any(isinstance(n, (ast.Return, ast.Continue, ast.Break)) for s in body for n in ast.walk(s))
        last = body[-1] if body else None
        ok = isinstance(last, ast.Raise) and last.exc is not None and raises_importerror(last)
        return ok and not has_return
    return False


def raises_importerror(r):
    e = r.exc
    if isinstance(e, ast.Call):
        e = e.func
    return isinstance(e, ast.Name) and e.id == "ImportError"


def protection(node, fn):
    """'protected' if inside the body of a try with a broad handler that always raises ImportError;
    'handler' if inside such a handler; else 'open'"""
    child = node
    p = getattr(node, "_parent", None)
    while p is not None and p is not fn:
        if isinstance(p, ast.Try):
            in_body = any(child is s for s in p.body)
            if in_body and broad_handler_raises_importerror(p):
                return "protected"
        if isinstance(p, ast.ExceptHandler):
            pass
        child = p
        p = getattr(p, "_parent", None)
    return "open"


def in_handler_for(node, fn, names):
    """is node inside the body of a try that has a handler for one of `names`?"""
    child = node
    p = getattr(node, "_parent", None)
    while p is not None and p is not fn:
        if isinstance(p, ast.Try) and any(child is s for s in p.body):
            for h in p.handlers:
                if h.type is not None and ast.unparse(h.type) in names:
                    return True
        child = p
        p = getattr(p, "_parent", None)
    return False


def validated_lookup(repo, m, fn, node):
    """D[k] is total when an earlier statement of the same function called, under `except KeyError: ... raise`, a repo function
    whose body performs D[<its parameter>] with the argument k, and k is not rebound in between."""
    if not (isinstance(node.value, ast.Name) and isinstance(node.slice, ast.Name)):
        return False
    D, k = node.value.id, node.slice.id
    for c in ast.walk(fn):
        if not (isinstance(c, ast.Call) and isinstance(c.func, ast.Name) and c.lineno < node.lineno):
            continue
        if not (len(c.args) == 1 and isinstance(c.args[0], ast.Name) and c.args[0].id == k):
            continue
        r = repo.resolve_name(m, c.func.id)
        if r[0] != "function":
            continue
        cm, cf = repo.functions[r[1]]
        if not cf.args.args:
            continue
        p0 = cf.args.args[0].arg
        does = any(isinstance(x, ast.Subscript) and isinstance(x.value, ast.Name) and x.value.id == D and isinstance(x.slice, ast.Name) and x.slice.id == p0
                   for x in ast.walk(cf))
        if not does or not in_handler_for(c, fn, ("KeyError",)):
            continue
        # the KeyError handler must always raise, and k must not be rebound between the call and the lookup
        rebound = any(isinstance(x, ast.Name) and x.id == k and isinstance(x.ctx, ast.Store) and c.lineno < x.lineno < node.lineno for x in ast.walk(fn))
        if rebound:
            continue
        t = getattr(c, "_parent", None)
        while t is not None and not isinstance(t, ast.Try):
            t = getattr(t, "_parent", None)
        if t is None:
            continue
        hk = [h for h in t.handlers if h.type is not None and ast.unparse(h.type) == "KeyError"]
        if hk and all(isinstance(s_, (ast.If, ast.Raise)) for s_ in hk[0].body) and isinstance(hk[0].body[-1], (ast.Raise, ast.If)) and \
                not any(isinstance(x, (ast.Return, ast.Pass)) for s_ in hk[0].body for x in ast.walk(s_)) and handler_always_raises(hk[0].body):
            return True
    return False


def handler_always_raises(body):
    last = body[-1]
    if isinstance(last, ast.Raise):
        return True
    if isinstance(last, ast.If):
        return bool(last.orelse) and handler_always_raises(last.body) and handler_always_raises(last.orelse)
    return False


def inner_guards(guards, tag):
    """the guards an effect acquired inside the loop `tag` (those after its in-loop marker)"""
    out, seen = [], False
    for g in guards:
        if isinstance(g, Op) and g.op == "in-loop" and g.args and g.args[0] == tag:
            seen = True
            out = []
            continue
        if seen:
            out.append(g)
    return out if seen else list(guards)


def run(rep, tier):
    rep.explanation = ("structural exception-containment analysis of the loader (try/except coverage of every raising operation, frozen table of total "
                       "operations), call-graph closure against a sink list, and per-loop progress analysis of the unmarshaller's one-iteration summaries")
    rep.rule("R1", "after the sanity checks every operation of load_module / load_module_from_file_object that can raise on file content is inside a try whose "
                   "broad handler always raises ImportError, or is a listed total operation; every explicit raise is ImportError")
    rep.rule("R2", "no exec/eval/compile/import/pickle/subprocess/filesystem-write is reachable from load_module")
    rep.rule("R3", "every input-driven loop of the unmarshaller performs, on every iteration path, a stream read that fails at EOF; r_object reads a byte before dispatching")
    repo = get_repo()
    T = tables()
    cg = CallGraph(repo, T)
    um = "xdis.unmarshal._VersionIndependentUnmarshaller"
    if um + ".r_object" in repo.functions:
        cg.add_edges(um + ".r_object", [q for q in repo.functions if q.startswith(um + ".t_")])
    # ---------------------------------------------------------------- R1
    n_sites = 0
    for q in ("xdis.load.load_module", "xdis.load.load_module_from_file_object"):
        m, fn = repo.function(q)
        rep.analysed(q)
        for node in ast.walk(fn):
            if enclosing_function(node) is not fn:
                continue
            if isinstance(node, ast.Raise):
                n_sites += 1
                ok = node.exc is None or raises_importerror(node)
                if node.exc is None:
                    ok = False
                rep.ob("R1", q, "raise:%s" % norm(node.exc)[:40] if node.exc else "raise:bare", ok, expected="raise ImportError(...)", derived=norm(node)[:80],
                       where=repo.where(m, node), msg="an explicit raise in the loader is not ImportError")
                continue
            if isinstance(node, ast.Call):
                text = ast.unparse(node.func)
                what = "call:%s" % text
            elif isinstance(node, ast.Subscript) and isinstance(node.ctx, ast.Load) and not isinstance(node.slice, ast.Slice):
                text = ast.unparse(node)
                what = "lookup:%s" % text
                # constant index into a freshly unpacked tuple etc. is fine only when protected; treated like any operation
            else:
                continue
            n_sites += 1
            prot = protection(node, fn)
            if prot == "protected":
                rep.ob("R1", q, what, True, derived="inside the catch-all")
                continue
            if isinstance(node, ast.Call) and text in TOTAL:
                if text == "magic_int2tuple" and not in_handler_for(node, fn, ("KeyError",)):
                    rep.ob("R1", q, what, False, expected="under `except KeyError`", derived="unguarded", where=repo.where(m, node),
                           msg="magic_int2tuple raises KeyError for an unknown magic; outside the catch-all it must be under except KeyError")
                else:
                    rep.ob("R1", q, what, True, derived="total: " + TOTAL[text])
                continue
            if isinstance(node, ast.Subscript) and validated_lookup(repo, m, fn, node):
                rep.ob("R1", q, what, True, derived="total: the same lookup already succeeded inside a dominating, KeyError-guarded call")
                continue
            if isinstance(node, ast.Call) and isinstance(node.func, ast.Attribute) and isinstance(node.func.value, ast.Constant):
                rep.ob("R1", q, what, True, derived="method of a literal")
                continue
            rep.ob("R1", q, what, False, expected="inside the try/except Exception -> ImportError, or a listed total operation", derived="outside the catch-all",
                   where=repo.where(m, node),
                   msg="%s can raise an exception other than ImportError for crafted file content (it runs outside the catch-all)" % text)
    rep.floor("raising operations classified in the loader", n_sites, 40)
    # the >= 50 byte guard that makes magic2int total
    m, fn = repo.function("xdis.load.load_module")
    guard = False
    for node in ast.walk(fn):
        if isinstance(node, ast.If):
            t = ast.unparse(node.test)
            if "getsize" in t and "<" in t and any(isinstance(s, ast.Raise) and raises_importerror(s) for s in node.body):
                for c in ast.walk(node.test):
                    if isinstance(c, ast.Constant) and isinstance(c.value, int) and c.value >= 8:
                        guard = True
    rep.ob("R1", "xdis.load.load_module", "short-file-guard", guard, expected="files shorter than the header are refused with ImportError before parsing", derived=guard)
    # ---------------------------------------------------------------- R2
    seen = cg.reachable(["xdis.load.load_module"])
    rep.floor("functions reachable from load_module", len(seen), 80)
    rep.call_sites = sum(len(cg.sites[q]) for q in seen)
    nsink = 0
    for q in sorted(seen):
        rep.analysed(q)
        for s in cg.sites[q]:
            for t in s.targets:
                bad = t in SINKS or t.startswith(SINK_PREFIXES)
                if t == "builtin:open":
                    mode = None
                    if len(s.node.args) > 1 and isinstance(s.node.args[1], ast.Constant):
                        mode = s.node.args[1].value
                    for k in s.node.keywords:
                        if k.arg == "mode" and isinstance(k.value, ast.Constant):
                            mode = k.value.value
                    bad = mode is not None and any(c in str(mode) for c in "wax+")
                if bad:
                    nsink += 1
                    rep.ob("R2", q, "sink:%s" % t, False, expected="no code execution / import / filesystem write", derived=ast.unparse(s.node)[:80], where=s.where,
                           msg="%s is reachable from load_module via %s" % (t, " -> ".join(cg.path_to(seen, q)[-4:])))
        rep.ob("R2", q, "no-sink", True)
    # positive control: the sink list must recognise the repo's own uses elsewhere (check_object_path compiles and writes a temp file)
    ctl = cg.reachable(["xdis.load.check_object_path"])
    hits = [t for q in ctl for s in cg.sites[q] for t in s.targets if t in SINKS or t.startswith(SINK_PREFIXES)]
    if not hits:
        raise AnalysisError("positive control failed: sinks in check_object_path (compile/tempfile/py_compile) not recognised")
    rep.extra["positive_control_sinks_in_check_object_path"] = sorted(set(hits))
    # ---------------------------------------------------------------- R3
    umod, cls, tbl = unmarshaller(T)
    acc = accepted_magics(T)
    probe = [a for a in acc if tuple(a[2][:2]) in ((2, 7), (3, 8), (3, 12))][:3] or acc[:1]
    nloops = 0
    for mg, passed, version in probe:
        for code, suffix in sorted(tbl.items()):
            f = cls.lookup("t_" + suffix)
            if not isinstance(f, FuncRef):
                continue
            sp = Spec(T.F, opaque_funcs={"to_portable"})
            sp.hooks.append(robj_hook)
            inst = new_instance(cls, passed, version)
            sp.run(f, [inst, True, Sym("bytes_for_s", "bool")])
            for k, e in flatten_effects(sp.effects):
                if k != "loop-begin":
                    continue
                ls = e.args[3]
                cond = show(ls.cond)
                driven = ("fld(" in cond) or cond in ("True",) or any(isinstance(v, Sym) and v.info and "read" in v.info and ("%s:%s" % (ls.tag, n_)) in cond
                                                                    for n_, v in ls.pre.items() if isinstance(n_, str))
                in_memory = cond.startswith("iter-more(zip(obj#") or cond.startswith("iter-more(obj#")
                if in_memory and not driven:
                    continue
                nloops += 1
                # every path of the iteration that continues must have consumed from the stream
                bad = []
                for g, l in leaves(ls.out):
                    if not isinstance(l, (Fall, Cont)):
                        continue
                    gs = set(repr(x) for x in g)
                    reads = [x for x in ls.effects if x.kind in ("robj", "unpack") and all(repr(c) in gs for c in inner_guards(x.guards, ls.tag))]
                    if not reads:
                        bad.append([show(x) for x in g])
                rep.ob("R3", f.qualname, "loop(%s):reads-every-iteration@%d.%d" % (cond[:40], version[0], version[1]), not bad, expected="a stream read on every continuing path",
                       derived=bad or "reads", where="xdis/unmarshal.py:%d" % f.node.lineno,
                       msg="an input-driven loop can iterate without consuming input: a hostile count makes it spin")
    rep.floor("input-driven unmarshaller loops", nloops, 15)
    ro = cls.lookup("r_object")
    sp = Spec(T.F)
    inst = new_instance(cls, probe[0][1], probe[0][2])
    sp.opaque_funcs.update(q for q in repo.functions if q.startswith(um + ".t_"))
    sp.run(ro, [inst])
    eff = [(k, e) for k, e in flatten_effects(sp.effects)]
    first = eff[0] if eff else None
    ok = first is not None and first[0] == "read" and first[1].args[1] == 1
    rep.ob("R3", ro.qualname, "consumes-a-byte-before-dispatch", ok, expected="fp.read(1) is the first effect", derived=str(first[1])[:100] if first else None)
    rep.analysed(ro.qualname)
    rep.extra["sinks_reachable"] = nsink
    rep.assumptions = ["the table of total operations in rules/c11.py (each with its reason)", "allocation size of fp.read(n) for hostile n, wall time, recursion depth "
                       "(RecursionError is an Exception and is converted) and crashes inside the built-in marshal on the host fast path are not decided",
                       "OS-level failures of open()/getsize() are not file content"]
