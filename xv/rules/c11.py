"""C11 -- corrupt or hostile bytecode files fail cleanly (DESIGN.md section 4, C11).

 R1 exception containment: in load_module / load_module_from_file_object every operation that can raise is either inside a
    try whose broad handler always raises ImportError, or in the frozen table of total operations; every explicit raise is
    ImportError.
 R2 effects: nothing in the call-graph closure of load_module executes, imports, compiles or writes.
 R3 progress: every input-driven loop of the unmarshaller reads from the stream on every iteration path (so iterations
    are bounded by the remaining bytes); recursion only through r_object, which consumes a byte first.
 R4 header: for every magic of the table, and for probes outside it, every exit of the specialised header path of
    load_module_from_file_object is a return or `raise ImportError`.
 R5 fast reader (the dropbox magic 62135 is decoded by xdis.marsh._FastUnmarshaller): the cursor never moves backwards, every
    primitive that the loops rely on advances it by at least one byte, and every loop calls one on each continuing path.
 R6 memory: no allocation whose size is an unvalidated count decoded from the file (sequence repetition, sized buffers,
    materialised ranges, comprehensions that do not read) in any function reachable from load_module."""
import ast

import itertools

from ..alloc import CountTaint, positive_control
from ..callgraph import CallGraph
from ..fold import ClassRef, FuncRef, Instance
from ..loadmod import analyse, magic_bytes
from ..marshal_read import new_instance, robj_hook, unmarshaller
from ..report import AnalysisError
from ..repo import enclosing_function, get_repo, norm
from ..sve import (Cont, Fall, Op, Raise, Ret, Spec, Sym, atoms_of, eval_term, flatten_effects, leaves, show)
from ..tables import tables
from .marshal_rules import accepted_magics

# operations allowed outside the catch-all, with the reason they cannot raise a non-ImportError for any *file content*
TOTAL = {
    "osp.exists": "filesystem predicate (not content dependent)",
    "osp.isfile": "filesystem predicate",
    "osp.getsize": "filesystem predicate",
    "open": "opening the file: failure is an OS condition, not file content",
    "fp.read": "read() of a binary stream returns short data at EOF, never raises on content",
    "fp.seek": "seek(0) on a regular file",
    "fp.close": "close",
    "magic2int": "unpacks exactly 4 bytes; load_module refuses files shorter than 50 bytes first",
    "int2magic": "packs a constant",
    "magic_int2tuple": "called under `except KeyError`; for table keys py_str2tuple is total (C08-R2/R3)",
    "len": "builtin on bytes",
    "type": "builtin on an exception instance",
    "ord": "on a 1-byte slice under a len(magic) >= 2 guard",
    "is_pypy": "membership tests and str.endswith",
    "ImportError": "constructing the exception that is raised",
    "sys.exc_info": "inside the handler",
    "traceback.print_exc": "inside the handler (stderr)",
    "load_module_from_file_object": "analysed itself",
}
SINKS = {
    "builtin:exec", "builtin:eval", "builtin:compile", "builtin:__import__", "builtin:execfile", "builtin:input",
}
SINK_PREFIXES = ("ext:importlib", "ext:imp.", "ext:py_compile", "ext:runpy", "ext:pickle", "ext:subprocess", "ext:os.system", "ext:os.remove", "ext:os.rename",
                 "ext:os.mkdir", "ext:os.makedirs", "ext:os.unlink", "ext:os.rmdir", "ext:os.popen", "ext:os.exec", "ext:os.spawn", "ext:shutil", "ext:tempfile",
                 "ext:ctypes", "ext:socket", "ext:urllib")


def broad_handler_raises_importerror(t):
    for h in t.handlers:
        broad = h.type is None or (isinstance(h.type, ast.Name) and h.type.id in ("Exception", "BaseException"))
        if not broad:
            continue
        body = h.body
        has_return = any(isinstance(n, (ast.Return, ast.Continue, ast.Break)) for s in body for n in ast.walk(s))
        last = body[-1] if body else None
        ok = isinstance(last, ast.Raise) and last.exc is not None and raises_importerror(last)
        return ok and not has_return
    return False


def raises_importerror(r):
    e = r.exc
    if isinstance(e, ast.Call):
        e = e.func
    return isinstance(e, ast.Name) and e.id == "ImportError"


def protection(node, fn):
    """'protected' if inside the body of a try with a broad handler that always raises ImportError;
    'handler' if inside such a handler; else 'open'"""
    child = node
    p = getattr(node, "_parent", None)
    while p is not None and p is not fn:
        if isinstance(p, ast.Try):
            in_body = any(child is s for s in p.body)
            if in_body and broad_handler_raises_importerror(p):
                return "protected"
        if isinstance(p, ast.ExceptHandler):
            pass
        child = p
        p = getattr(p, "_parent", None)
    return "open"


def in_handler_for(node, fn, names):
    """is node inside the body of a try that has a handler for one of `names`?"""
    child = node
    p = getattr(node, "_parent", None)
    while p is not None and p is not fn:
        if isinstance(p, ast.Try) and any(child is s for s in p.body):
            for h in p.handlers:
                if h.type is not None and ast.unparse(h.type) in names:
                    return True
        child = p
        p = getattr(p, "_parent", None)
    return False


def _keyerror_guard_ok(call, fn):
    """the call is not inside a try that swallows KeyError: either no KeyError/broad handler encloses it, or the enclosing KeyError handler always raises"""
    child = call
    p = getattr(call, "_parent", None)
    while p is not None and p is not fn:
        if isinstance(p, ast.Try) and any(child is s_ for s_ in p.body):
            hk = [h for h in p.handlers if h.type is None or ast.unparse(h.type) in ("KeyError", "LookupError", "Exception", "BaseException")]
            if hk:
                h = hk[0]
                return bool(h.body) and not any(isinstance(x, (ast.Return, ast.Pass, ast.Continue, ast.Break)) for s_ in h.body for x in ast.walk(s_)) and handler_always_raises(h.body)
        child = p
        p = getattr(p, "_parent", None)
    return True


def ensures_key(repo, q, D, pidx, depth=0):
    """does function q return normally only after D[<its parameter number pidx>] succeeded?  Either it performs that lookup itself (a KeyError then leaves it), or
    it hands the parameter to a repo function that does, in a place where a KeyError is not swallowed."""
    if depth > 3 or q not in repo.functions:
        return False
    m, fn = repo.functions[q]
    params = [a.arg for a in fn.args.args]
    if pidx >= len(params):
        return False
    p0 = params[pidx]
    if any(isinstance(x, ast.Name) and x.id == p0 and isinstance(x.ctx, ast.Store) for x in ast.walk(fn)):
        return False
    for x in ast.walk(fn):
        if isinstance(x, ast.Subscript) and isinstance(x.value, ast.Name) and x.value.id == D and isinstance(x.slice, ast.Name) and x.slice.id == p0 and _keyerror_guard_ok(x, fn):
            return True
    for c in ast.walk(fn):
        if isinstance(c, ast.Call) and isinstance(c.func, ast.Name):
            r = repo.resolve_name(m, c.func.id)
            if r[0] != "function":
                continue
            for i, a in enumerate(c.args):
                if isinstance(a, ast.Name) and a.id == p0 and _keyerror_guard_ok(c, fn) and ensures_key(repo, r[1], D, i, depth + 1):
                    return True
    return False


def validated_lookup(repo, m, fn, node):
    """D[k] is total when an earlier statement of the same function called a repo function that returns normally only after D[<the argument k>] succeeded
    (directly or through helpers; a KeyError on the way must not be swallowed), and k is not rebound in between."""
    if not (isinstance(node.value, ast.Name) and isinstance(node.slice, ast.Name)):
        return False
    D, k = node.value.id, node.slice.id
    for c in ast.walk(fn):
        if not (isinstance(c, ast.Call) and isinstance(c.func, ast.Name) and c.lineno < node.lineno):
            continue
        r = repo.resolve_name(m, c.func.id)
        if r[0] != "function":
            continue
        for i, a in enumerate(c.args):
            if not (isinstance(a, ast.Name) and a.id == k):
                continue
            if not _keyerror_guard_ok(c, fn) or not ensures_key(repo, r[1], D, i):
                continue
            rebound = any(isinstance(x, ast.Name) and x.id == k and isinstance(x.ctx, ast.Store) and c.lineno < x.lineno < node.lineno for x in ast.walk(fn))
            if not rebound:
                return True
    return False


_CONTAINED = {}


def classify_sites(repo, m, fn, q, depth):
    """[(what, ok, expected, derived, node, msg)] for every raising operation / explicit raise of fn (R1).  A call to a function of the same module that is not in
    the TOTAL table is accepted when every site of *that* function is accepted by the same classification (a contained helper)."""
    for n_ in ast.walk(fn):
        for ch in ast.iter_child_nodes(n_):
            if not hasattr(ch, "_parent"):
                ch._parent = n_
    out = []
    for node in ast.walk(fn):
        if enclosing_function(node) is not fn:
            continue
        if isinstance(node, ast.Raise):
            ok = node.exc is not None and raises_importerror(node)
            out.append(("raise:%s" % norm(node.exc)[:40] if node.exc else "raise:bare", ok, "raise ImportError(...)", norm(node)[:80], node, "an explicit raise in the loader is not ImportError"))
            continue
        if isinstance(node, ast.Call):
            text = ast.unparse(node.func)
            what = "call:%s" % text
        elif isinstance(node, ast.Subscript) and isinstance(node.ctx, ast.Load) and not isinstance(node.slice, ast.Slice):
            text = ast.unparse(node)
            what = "lookup:%s" % text
        else:
            continue
        prot = protection(node, fn)
        if prot == "protected":
            out.append((what, True, None, "inside the catch-all", node, None))
            continue
        if isinstance(node, ast.Call) and text in TOTAL:
            if text == "magic_int2tuple" and not in_handler_for(node, fn, ("KeyError",)):
                out.append((what, False, "under `except KeyError`", "unguarded", node,
                            "magic_int2tuple raises KeyError for an unknown magic; outside the catch-all it must be under except KeyError"))
            else:
                out.append((what, True, None, "total: " + TOTAL[text], node, None))
            continue
        if isinstance(node, ast.Subscript) and validated_lookup(repo, m, fn, node):
            out.append((what, True, None, "total: the same lookup already succeeded inside a dominating, KeyError-guarded call", node, None))
            continue
        if isinstance(node, ast.Call) and isinstance(node.func, ast.Attribute) and isinstance(node.func.value, ast.Constant):
            out.append((what, True, None, "method of a literal", node, None))
            continue
        if isinstance(node, ast.Call) and isinstance(node.func, ast.Name) and depth < 3:
            r = repo.resolve_name(m, node.func.id)
            if r[0] == "function" and r[1] in repo.functions and r[1].rsplit(".", 1)[0] == q.rsplit(".", 1)[0]:
                if r[1] not in _CONTAINED:
                    _CONTAINED[r[1]] = None  # recursion guard
                    hm, hf = repo.functions[r[1]]
                    sub = classify_sites(repo, hm, hf, r[1], depth + 1)
                    _CONTAINED[r[1]] = [x for x in sub if not x[1]]
                if _CONTAINED[r[1]] == []:
                    out.append((what, True, None, "contained helper: every raising operation of %s is itself contained and its raises are ImportError" % r[1], node, None))
                    continue
                if _CONTAINED[r[1]]:
                    b0 = _CONTAINED[r[1]][0]
                    out.append((what, False, "a helper whose own operations are contained", "%s: %s (%s)" % (r[1], b0[0], b0[3]), node,
                                "%s is called outside the catch-all and can raise something other than ImportError: %s" % (text, b0[0])))
                    continue
        out.append((what, False, "inside the try/except Exception -> ImportError, or a listed total operation", "outside the catch-all", node,
                    "%s can raise an exception other than ImportError for crafted file content (it runs outside the catch-all)" % text))
    return out


def handler_always_raises(body):
    last = body[-1]
    if isinstance(last, ast.Raise):
        return True
    if isinstance(last, ast.If):
        return bool(last.orelse) and handler_always_raises(last.body) and handler_always_raises(last.orelse)
    return False


def inner_guards(guards, tag):
    """the guards an effect acquired inside the loop `tag` (those after its in-loop marker)"""
    out, seen = [], False
    for g in guards:
        if isinstance(g, Op) and g.op == "in-loop" and g.args and g.args[0] == tag:
            seen = True
            out = []
            continue
        if seen:
            out.append(g)
    return out if seen else list(guards)


def header_rule(rep, T):
    m2v = T.magics["magicint2version"]
    probes = [(mg, magic_bytes(mg)) for mg in sorted(m2v)]
    known = {b for _, b in probes}
    ld = get_repo().function("xdis.load.load_module_from_file_object")[1]
    consts = sorted({c.value for c in ast.walk(ld) if isinstance(c, ast.Constant) and isinstance(c.value, int) and not isinstance(c.value, bool) and 0 <= c.value < 65536})
    extra = [b"\x00\x00\x00\x00", b"\xff\xff\xff\xff", b"abcd", b"\r\n\r\n", b"\x00\x00\r\n", b"\xff\xff\r\n"]
    extra += [magic_bytes(c) for c in consts] + [magic_bytes(c)[:2] + b"\x00\x00" for c in consts[:40]]
    n = 0
    for b in extra:
        if b not in known:
            known.add(b)
            probes.append((None, b))
    for mg, b in probes:
        hs = analyse(T, mg if mg is not None else -1, first4=b)
        bad = [k for k in hs.leaf_kinds if k not in ("accept", "dropbox", "reject:ImportError")]
        n += 1
        lab = "magic=%d" % mg if mg is not None else "first4=%s" % b.hex()
        rep.ob("R4", "xdis.load.load_module_from_file_object", "%s:exits" % lab, not bad, expected="return, or raise ImportError", derived=hs.leaf_kinds,
               msg="a file starting with %r leaves the loader through %s" % (b, bad))
    rep.floor("header configurations (table magics + probes)", n, 230)
    rep.configurations += n


ADVANCING = ("_read1", "_r_short", "_r_long", "_r_long64")


def fast_reader_rule(rep, repo, T, cg):
    F = T.F
    mm = F.load("xdis.marsh")
    FU = mm.ns.get("_FastUnmarshaller")
    if not isinstance(FU, ClassRef):
        raise AnalysisError("anchor vanished: xdis.marsh._FastUnmarshaller")
    disp = FU.ns.get("dispatch")
    if not isinstance(disp, dict) or len(disp) < 15:
        raise AnalysisError("anchor vanished: _FastUnmarshaller.dispatch")
    d25 = F.load("xdis.dropbox.decrypt25")
    fq = "xdis.marsh._FastUnmarshaller"
    extra_targets = [f.qualname for f in disp.values() if isinstance(f, FuncRef)] + ["xdis.dropbox.decrypt25.load_code"]
    if fq + ".load" in repo.functions:
        cg.add_edges(fq + ".load", [q for q in extra_targets if q in repo.functions])
    reach = cg.reachable(["xdis.dropbox.decrypt25.fix_dropbox_pyc"])
    rep.floor("functions reachable from fix_dropbox_pyc", len(reach), 25)
    # ---- (a) every store to the cursor
    nstores = 0
    for q in sorted(reach):
        m, fn = repo.functions[q]
        stores = [n_ for n_ in ast.walk(fn) if isinstance(n_, (ast.Assign, ast.AugAssign)) and enclosing_function(n_) is fn and
                  any(isinstance(t, ast.Attribute) and t.attr == "bufpos" for t in (n_.targets if isinstance(n_, ast.Assign) else [n_.target]))]
        if not stores or fn.name == "__init__":
            continue
        rep.analysed(q)
        for st in stores:
            nstores += 1
            text = norm(st)
            if isinstance(st, ast.AugAssign) and isinstance(st.op, ast.Add) and isinstance(st.value, ast.Constant) and isinstance(st.value.value, int):
                rep.ob("R5", q, "cursor-store:%s" % text, st.value.value >= 0, expected="advance >= 0", derived=st.value.value, where=repo.where(m, st))
                continue
            ok, why = symbolic_monotone(F, FU, q, st) if q.startswith("xdis.marsh.") else (None, "not a fast-reader primitive")
            if ok is None:
                ok, why = validated_by_unpack(fn, st)
            rep.ob("R5", q, "cursor-store:%s" % text, ok, expected="the new position is >= the old one on every path that stores it", derived=why, where=repo.where(m, st),
                   msg="the read position can move backwards (%s): a negative length field re-reads earlier bytes, so a container loop never reaches end of input" % why)
    rep.floor("cursor stores in the fast reader", nstores, 3)
    # ---- (b) the advancing primitives advance
    for name in ADVANCING:
        f = mm.ns.get(name)
        if not isinstance(f, FuncRef):
            raise AnalysisError("anchor vanished: xdis.marsh.%s" % name)
        me = Instance(FU)
        me.attrs.update(bufstr=Sym("buf", "bytes"), bufpos=Sym("p", "int"))
        sp = Spec(F)
        out = sp.run(f, [me])
        adv = None
        try:
            adv = eval_term(me.attrs["bufpos"], {"p": 0, repr(Sym("p", "int")): 0})
        except Exception:
            pass
        nonraising = [l for g, l in leaves(out) if not isinstance(l, Raise)]
        rep.ob("R5", f.qualname, "advances", isinstance(adv, int) and adv >= 1 and bool(nonraising), expected="cursor + k, k >= 1, on every returning path",
               derived=show(me.attrs["bufpos"]), msg="%s can return without consuming input" % name)
        rep.analysed(f.qualname)
    ld = FU.lookup("load")
    me = Instance(FU)
    me.attrs.update(bufstr=Sym("buf", "bytes"), bufpos=Sym("p", "int"), _stringtable=Sym("stringtable", "list"), python_version=None)
    sp = Spec(F, opaque_funcs=set(extra_targets))
    sp.run(ld, [me])
    first_store = [e for k, e in flatten_effects(sp.effects) if k in ("store-attr", "call")]
    kinds = [(k, show(e.args[2]) if k == "store-attr" else str(e.args[0])) for k, e in flatten_effects(sp.effects) if k in ("store-attr", "call")]
    ok = bool(kinds) and kinds[0] == ("store-attr", "p + 1")
    rep.ob("R5", ld.qualname, "consumes-a-byte-before-dispatch", ok, expected="bufpos += 1 before the dispatched reader runs", derived=kinds[:3])
    rep.analysed(ld.qualname)
    # ---- (c) loops of the dispatch functions of both marsh readers (_FastUnmarshaller: dropbox path; _Unmarshaller: fast_load=True)
    UM = mm.ns.get("_Unmarshaller")
    if not isinstance(UM, ClassRef):
        raise AnalysisError("anchor vanished: xdis.marsh._Unmarshaller")
    um_prims = ("r_byte", "r_short", "r_long", "r_long64", "load")
    for name in um_prims:
        f = UM.lookup(name)
        if not isinstance(f, FuncRef):
            raise AnalysisError("anchor vanished: xdis.marsh._Unmarshaller.%s" % name)
        ok, why = strict_first_read(f.node)
        rep.ob("R5", f.qualname, "advances", ok, expected="begins with self._read(k), k >= 1, whose result is indexed, passed to Ord() or tested for emptiness (raises at end of input)",
               derived=why, msg="%s can return at end of input without raising: loops that rely on it do not terminate" % name)
        rep.analysed(f.qualname)
    nloops = 0
    for C, prims in ((FU, ADVANCING), (UM, um_prims)):
        cq = "xdis.marsh." + C.name
        dsp = C.ns.get("dispatch")
        if not isinstance(dsp, dict) or len(dsp) < 15:
            raise AnalysisError("anchor vanished: %s.dispatch" % cq)
        funcs = {}
        for code, f in dsp.items():
            if isinstance(f, FuncRef):
                funcs[f.qualname] = f
        for qn, f in sorted(funcs.items()):
            cnt = [0]

            def hook(spec, name, fv, args, kw, node, prims=prims, cq=cq):
                base = name.split(".")[-1]
                if (base in prims and (name.startswith(cq + ".") or C is FU)) or name == cq + ".load":
                    cnt[0] += 1
                    r = Sym("%s#%d" % (base, cnt[0]), "int" if base != "load" else None)
                    spec.effect("adv", base, r, node=node)
                    return r
                if base == "Ord" and args and isinstance(args[0], Sym):
                    return args[0]
                if base == "_read" and len(args) >= 1:
                    cnt[0] += 1
                    return Sym("rd#%d" % cnt[0], "bytes")
                return NotImplemented
            me = Instance(C)
            me.attrs.update(bufstr=Sym("buf", "bytes"), bufpos=Sym("p", "int"), _stringtable=Sym("stringtable", "list"), python_version=None, _read=Sym("readfunc", "func"))
            sp = Spec(F, hooks=[hook])
            sp.run(f, [me])
            rep.analysed(qn)
            for k, e in flatten_effects(sp.effects):
                if k not in ("loop-begin", "loop"):
                    continue
                ls = e.args[3]
                nloops += 1
                bad = []
                for g, l in leaves(ls.out):
                    if not isinstance(l, (Fall, Cont)):
                        continue
                    gs = set(repr(x) for x in g)
                    adv = [x for x in ls.effects if x.kind == "adv" and all(repr(c) in gs for c in inner_guards(x.guards, ls.tag))]
                    if not adv:
                        bad.append([show(x) for x in g])
                rep.ob("R5", qn, "loop(%s):advances-every-iteration" % show(ls.cond)[:40], not bad, expected="a call of %s on every continuing path" % "/".join(prims),
                       derived=bad or "advances", msg="a loop of the marsh reader can iterate without consuming input")
    rep.floor("loops in marsh-reader dispatch functions", nloops, 9)


def strict_first_read(fn):
    """the function's first statement reads k >= 1 bytes through self._read and uses the result in a way that raises on a short read"""
    body = [s for s in fn.body if not (isinstance(s, ast.Expr) and isinstance(s.value, ast.Constant))]
    if not body:
        return False, "empty"
    first = body[0]
    calls = [c for c in ast.walk(first) if isinstance(c, ast.Call) and norm(c.func) == "self._read"]
    if not calls:
        return False, "first statement %r does not read" % norm(first)[:60]
    c = calls[0]
    if not (len(c.args) == 1 and isinstance(c.args[0], ast.Constant) and isinstance(c.args[0].value, int) and c.args[0].value >= 1):
        return False, "reads %s bytes" % norm(c.args[0] if c.args else c)
    par = None
    for x in ast.walk(first):
        if c in list(ast.iter_child_nodes(x)):
            par = x
    if isinstance(par, ast.Call) and norm(par.func) in ("Ord", "ord"):
        return True, "Ord(self._read(%d))" % c.args[0].value
    if isinstance(first, ast.Assign) and first.value is c and isinstance(first.targets[0], ast.Name):
        v = first.targets[0].id
        k = c.args[0].value
        for s in body[1:3]:
            if isinstance(s, ast.If) and norm(s.test) == "not %s" % v and s.body and isinstance(s.body[-1], ast.Raise):
                return True, "if not %s: raise" % v
        for s in body[1:2 + k]:
            if isinstance(s, (ast.If, ast.For, ast.While, ast.Try, ast.Return)):
                break
            for x in ast.walk(s):
                if isinstance(x, ast.Subscript) and isinstance(x.value, ast.Name) and x.value.id == v and isinstance(x.slice, ast.Constant) and x.slice.value == k - 1:
                    return True, "%s[%d] is indexed" % (v, k - 1)
    return False, "result of the read is not checked"


def symbolic_monotone(F, FU, q, st):
    """decide `new cursor >= old cursor` for the cursor stores of a module-level primitive f(self, *ints) by evaluating the
    specialiser's own store terms and path conditions on a separating set of integers"""
    mod, _, name = q.rpartition(".")
    f = F.load(mod).ns.get(name)
    if not isinstance(f, FuncRef):
        return None, "not a module-level function"
    params = [a.arg for a in f.node.args.args]
    me = Instance(FU)
    me.attrs.update(bufstr=Sym("buf", "bytes"), bufpos=Sym("p", "int"))
    syms = [Sym(a, "int") for a in params[1:]]
    sp = Spec(F)
    sp.run(f, [me] + syms)
    stores = [e for k, e in flatten_effects(sp.effects) if k == "store-attr" and e.args[1] == "bufpos"]
    if not stores:
        return None, "no store seen by the specialiser"
    vals = (-2 ** 31, -5, -1, 0, 1, 7)
    worst = None
    for e in stores:
        terms = list(e.guards) + [e.args[2]]
        atoms = {}
        for t in terms:
            atoms_of(t, atoms)
        others = sorted(n_ for n_, a in atoms.items() if n_ != "p" and not (isinstance(a, Sym) and a.kind in ("bytes", "stream")))
        for p0 in (0, 3):
            for L in (0, 3, 20):
                for combo in itertools.product(vals, repeat=len(others)):
                    val = {"p": p0, "len(buf)": L}
                    val.update(dict(zip(others, combo)))
                    val_ = LenVal(val, L)
                    try:
                        if not all(eval_term(c, val_) for c in e.guards):
                            continue
                        new = eval_term(e.args[2], val_)
                    except Exception as ex:
                        return None, "store term not evaluable: %s" % ex
                    if not isinstance(new, int) or new < p0:
                        worst = "with %s the cursor goes from %d to %r" % (", ".join("%s=%d" % kv for kv in zip(others, combo)), p0, new)
                        return False, worst
    return True, "monotone on the separating set %s" % (vals,)


class LenVal(dict):
    """valuation in which len(buf) is an atom"""
    def __init__(self, d, L):
        dict.__init__(self, d)
        self.L = L

    def __contains__(self, k):
        return dict.__contains__(self, k) or k.startswith("len(")

    def __getitem__(self, k):
        if dict.__contains__(self, k):
            return dict.__getitem__(self, k)
        if k.startswith("len("):
            return self.L
        raise KeyError(k)


def once_assigned(fn):
    """{name: value expression} for local names bound by exactly one plain assignment in fn (temporaries)"""
    seen = {}
    for x in ast.walk(fn):
        if isinstance(x, ast.Name) and isinstance(x.ctx, ast.Store):
            seen[x.id] = seen.get(x.id, 0) + 1
    out = {}
    for a in ast.walk(fn):
        if isinstance(a, ast.Assign) and len(a.targets) == 1 and isinstance(a.targets[0], ast.Name) and seen.get(a.targets[0].id) == 1:
            out[a.targets[0].id] = a.value
    return out


def through_temporaries(e, temps, depth=0):
    """the expression with once-assigned temporaries replaced by what they were assigned (two levels)"""
    if isinstance(e, ast.Name) and e.id in temps and depth < 3:
        return through_temporaries(temps[e.id], temps, depth + 1)
    return e


def validated_by_unpack(fn, st):
    """idiom of decrypt25.load_code:   data = self.bufstr[self.bufpos : self.bufpos + N];  struct.unpack('<%dL' % M, data) with M = N / 4;
    self.bufpos += N.   struct rejects a negative repeat count and a buffer of the wrong size, so reaching the store implies 0 <= N <= bytes left."""
    if not (isinstance(st, ast.AugAssign) and isinstance(st.op, ast.Add) and isinstance(st.value, ast.Name)):
        return False, "the advance is not provably non-negative"
    N = st.value.id
    body = [s for s in ast.walk(fn) if isinstance(s, ast.Assign) and s.lineno < st.lineno]
    sliced = None
    M = None
    for s in body:
        t = s.targets[0]
        if not isinstance(t, ast.Name):
            continue
        v = s.value
        if isinstance(v, ast.Subscript) and isinstance(v.slice, ast.Slice) and norm(v.value) == "self.bufstr" and v.slice.lower is not None and v.slice.upper is not None \
                and norm(v.slice.lower) == "self.bufpos" and norm(v.slice.upper) in ("self.bufpos + %s" % N, "%s + self.bufpos" % N):
            sliced = t.id
        if isinstance(v, ast.BinOp) and isinstance(v.op, (ast.Div, ast.FloorDiv)) and isinstance(v.left, ast.Name) and v.left.id == N and isinstance(v.right, ast.Constant) and v.right.value == 4:
            M = t.id
    unpacked = False
    temps = once_assigned(fn)
    for c in ast.walk(fn):
        if isinstance(c, ast.Call) and norm(c.func) in ("struct.unpack", "unpack") and c.lineno < st.lineno and len(c.args) == 2 and sliced and M:
            fmt, data = c.args
            fmt = through_temporaries(fmt, temps)  # the format may have been given a name first
            if isinstance(data, ast.Name) and data.id == sliced and isinstance(fmt, ast.BinOp) and isinstance(fmt.op, ast.Mod) and isinstance(fmt.left, ast.Constant) \
                    and fmt.left.value in ("<%dL", "<%dI", "<%dl", "<%di") and isinstance(fmt.right, ast.Name) and fmt.right.id == M:
                unpacked = True
    rebound = any(isinstance(x, ast.Name) and x.id == N and isinstance(x.ctx, ast.Store) and x.lineno > min([s.lineno for s in body if isinstance(s.targets[0], ast.Name) and s.targets[0].id in (sliced, M)] or [0])
                  and x.lineno < st.lineno for x in ast.walk(fn))
    if sliced and M and unpacked and not rebound:
        return True, "validated by struct.unpack('<%%dL' %% (%s/4)) of exactly the bytes skipped" % N
    return False, "the advance %s is neither a positive constant nor validated" % N


STRINGIFIERS = ("str", "repr", "ascii", "format", "unicode")


def _stringified_params(fn):
    ps = {a.arg for a in fn.args.args}
    out = set()
    for n in ast.walk(fn):
        if isinstance(n, ast.Call) and isinstance(n.func, ast.Name) and n.func.id in STRINGIFIERS and n.args and isinstance(n.args[0], ast.Name) and n.args[0].id in ps:
            out.add(n.args[0].id)
    return out


def _object_text_sinks(fn, summaries_for_call):
    """[(node, what)]: places where an object that r_object() returned -- an arbitrary, possibly shared, object graph -- is turned into text"""
    def from_robj(e):
        return isinstance(e, ast.Call) and ast.unparse(e.func).endswith("r_object")
    tainted = set()
    for n in ast.walk(fn):
        if isinstance(n, ast.Assign) and from_robj(n.value):
            tainted |= {t.id for t in n.targets if isinstance(t, ast.Name)}

    def hot(e):
        return from_robj(e) or (isinstance(e, ast.Name) and e.id in tainted)
    out = []
    for n in ast.walk(fn):
        if isinstance(n, ast.Call):
            hits = [a for a in n.args if hot(a)]
            if hits and isinstance(n.func, ast.Name) and n.func.id in STRINGIFIERS:
                out.append((n, "%s() of an unmarshalled object" % n.func.id))
            elif hits and summaries_for_call(n):
                out.append((n, "handed to %s, which turns its argument into text" % ast.unparse(n.func)))
        elif isinstance(n, ast.BinOp) and isinstance(n.op, ast.Mod) and isinstance(n.left, (ast.Constant, ast.JoinedStr)) and isinstance(getattr(n.left, "value", ""), str):
            parts = n.right.elts if isinstance(n.right, ast.Tuple) else [n.right]
            if any(hot(p_) for p_ in parts):
                out.append((n, "%-formatting of an unmarshalled object"))
        elif isinstance(n, ast.FormattedValue) and hot(n.value):
            out.append((n, "f-string of an unmarshalled object"))
    return out


def object_text_rule(rep, repo, cg, seen):
    """R7: a reference graph of depth d in the file has d + 1 nodes but 2**d leaves when written out as text"""
    ctl = ast.parse("def t_ctl(self):\n    name = self.r_object()\n    a = str(name)\n    b = '%s' % (name,)\n    c = len(name)\n    return a, b, c\n").body[0]
    if len(_object_text_sinks(ctl, lambda n: False)) != 2:
        raise AnalysisError("positive control failed for the object-to-text rule")
    summ = {q: _stringified_params(repo.functions[q][1]) for q in seen}
    nfun = 0
    for q in sorted(seen):
        m, fn = repo.functions[q]
        if not any(isinstance(n, ast.Call) and ast.unparse(n.func).endswith("r_object") for n in ast.walk(fn)):
            continue
        nfun += 1
        by_node = {id(s.node): s for s in cg.sites.get(q, ())}

        def summaries_for_call(n, by_node=by_node):
            s = by_node.get(id(n))
            return bool(s) and any(summ.get(t) for t in s.targets)
        hits = _object_text_sinks(fn, summaries_for_call)
        for node, what in hits:
            rep.ob("R7", q, "object-to-text:%s" % norm(node)[:60], False, expected="objects read from the file are stored or type-checked, never formatted", derived=what, where=repo.where(m, node),
                   msg="%s: a few hundred bytes of back-references (a DAG of depth d has 2**d leaves as text) make load_module run out of time and memory" % what)
        if not hits:
            rep.ob("R7", q, "no-object-to-text", True)
    rep.floor("functions that read objects with r_object", nfun, 8)


def allocation_rule(rep, repo, cg, seen):
    ctl = positive_control()
    if ctl != ["comprehension-without-read", "materialised-range", "padded-buffer", "repeat", "sized-buffer"]:
        raise AnalysisError("positive control failed for the sized-allocation rule: %s" % ctl)
    rep.extra["positive_control_sized_allocations"] = ctl
    nf = ntaint = 0
    from ..alloc import derive_sources, INT_SOURCES
    sources = derive_sources({q: repo.functions[q][1] for q in seen})
    rep.extra["functions_returning_a_stream_integer"] = sorted(sources - set(INT_SOURCES))
    for q in sorted(seen):
        m, fn = repo.functions[q]
        ct = CountTaint(fn, sources)
        nf += 1
        if ct.tainted:
            ntaint += 1
        hits = ct.sinks()
        for node, kind, text in hits:
            rep.ob("R6", q, "%s:%s" % (kind, norm(node)[:60]), False, expected="allocation bounded by the bytes actually read", derived=text[:100], where=repo.where(m, node),
                   msg="memory proportional to a count taken from the file is allocated before any element is read: a few bytes of input can demand gigabytes")
        if not hits:
            rep.ob("R6", q, "no-sized-allocation", True, derived="count-tainted names: %s" % sorted(ct.tainted)[:8])
    rep.floor("functions with a count decoded from the stream", ntaint, 8)


def run(rep, tier):
    rep.explanation = ("structural exception-containment analysis of the loader (try/except coverage of every raising operation, frozen table of total "
                       "operations), call-graph closure against a sink list, and per-loop progress analysis of the unmarshaller's one-iteration summaries")
    rep.rule("R1", "after the sanity checks every operation of load_module / load_module_from_file_object that can raise on file content is inside a try whose "
                   "broad handler always raises ImportError, or is a listed total operation; every explicit raise is ImportError")
    rep.rule("R2", "no exec/eval/compile/import/pickle/subprocess/filesystem-write is reachable from load_module")
    rep.rule("R4", "every exit of the header path of load_module_from_file_object, specialised to each table magic and to probes outside the table, "
                   "is a return or raise ImportError")
    rep.rule("R5", "xdis.marsh fast reader (dropbox path): every store to the cursor is monotone; _read1/_r_short/_r_long/_r_long64/load advance by >= 1 byte; "
                   "every loop of a dispatch function calls one of them on each continuing path")
    rep.rule("R6", "no function reachable from load_module allocates memory proportional to an unvalidated count decoded from the file without reading per element")
    rep.rule("R7", "no function reachable from load_module turns an object returned by r_object() into text (str / repr / format / % / f-string, directly or through a "
                   "helper that stringifies its argument): shared references make the text exponentially larger than the file")
    rep.rule("R3", "every input-driven loop of the unmarshaller performs, on every iteration path, a stream read that fails at EOF; r_object reads a byte before dispatching")
    repo = get_repo()
    T = tables()
    cg = CallGraph(repo, T)
    um = "xdis.unmarshal._VersionIndependentUnmarshaller"
    if um + ".r_object" in repo.functions:
        cg.add_edges(um + ".r_object", [q for q in repo.functions if q.startswith(um + ".t_")])
    # ---------------------------------------------------------------- R1
    n_sites = 0
    for q in ("xdis.load.load_module", "xdis.load.load_module_from_file_object"):
        m, fn = repo.function(q)
        rep.analysed(q)
        for what, ok, exp, derived, node, msg in classify_sites(repo, m, fn, q, 0):
            n_sites += 1
            rep.ob("R1", q, what, ok, expected=exp, derived=derived, where=repo.where(m, node) if not ok else None, msg=msg)
    rep.floor("raising operations classified in the loader", n_sites, 40)
    # the size guard that makes the header reads total: load_module specialised with the file-system probes answered (exists, is a file) and the reported size a
    # ranged symbol; for every size below the 8 bytes the shortest header takes, every path must end in ImportError (decided by interval reasoning, whatever
    # the form of the test or of its bound)
    from ..sve import Raise as _Raise, Spec as _Spec, Sym as _Sym, leaves as _leaves, show as _show
    from ..tables import tables as _tables
    F_ = _tables().F
    lm_ = F_.load("xdis.load").ns.get("load_module")
    SIZE_ = _Sym("SIZE", "int")

    def fs_hook(spec, name, fv, args, kw, node):
        base = (name or "").split(".")[-1]
        if base in ("exists", "isfile"):
            return True
        if base == "getsize":
            return SIZE_
        if base == "load_module_from_file_object":
            return _Sym("result", "tuple")
        return NotImplemented
    sp_ = _Spec(F_, hooks=[fs_hook])
    sp_.ranges = {repr(SIZE_): (0, 7)}
    try:
        outs_ = [(type(l_).__name__, _show(getattr(l_, "exc", None))) for g_, l_ in _leaves(sp_.run(lm_, [_Sym("filename", "str")], {}))]
    except Exception as ex:
        outs_ = [("not evaluable", str(ex)[:80])]
    guard = bool(outs_) and all(k_ == "Raise" and "ImportError" in e_ for k_, e_ in outs_)
    rep.ob("R1", "xdis.load.load_module", "short-file-guard", guard, expected="files shorter than the header (0..7 bytes) are refused with ImportError before parsing", derived=outs_[:3],
           msg="load_module does not refuse a file of fewer than 8 bytes with ImportError: the header reads then fail with struct.error / IndexError")
    # ---------------------------------------------------------------- R2
    seen = cg.reachable(["xdis.load.load_module"])
    rep.floor("functions reachable from load_module", len(seen), 80)
    rep.call_sites = sum(len(cg.sites[q]) for q in seen)
    nsink = 0
    for q in sorted(seen):
        rep.analysed(q)
        for s in cg.sites[q]:
            for t in s.targets:
                bad = t in SINKS or t.startswith(SINK_PREFIXES)
                if t == "builtin:open":
                    mode = None
                    if len(s.node.args) > 1 and isinstance(s.node.args[1], ast.Constant):
                        mode = s.node.args[1].value
                    for k in s.node.keywords:
                        if k.arg == "mode" and isinstance(k.value, ast.Constant):
                            mode = k.value.value
                    bad = mode is not None and any(c in str(mode) for c in "wax+")
                if bad:
                    nsink += 1
                    rep.ob("R2", q, "sink:%s" % t, False, expected="no code execution / import / filesystem write", derived=ast.unparse(s.node)[:80], where=s.where,
                           msg="%s is reachable from load_module via %s" % (t, " -> ".join(cg.path_to(seen, q)[-4:])))
        rep.ob("R2", q, "no-sink", True)
    # positive control: the sink list must recognise the repo's own uses elsewhere (check_object_path compiles and writes a temp file)
    ctl = cg.reachable(["xdis.load.check_object_path"])
    hits = [t for q in ctl for s in cg.sites[q] for t in s.targets if t in SINKS or t.startswith(SINK_PREFIXES)]
    if not hits:
        raise AnalysisError("positive control failed: sinks in check_object_path (compile/tempfile/py_compile) not recognised")
    rep.extra["positive_control_sinks_in_check_object_path"] = sorted(set(hits))
    # ---------------------------------------------------------------- R3
    umod, cls, tbl = unmarshaller(T)
    acc = accepted_magics(T)
    probe = [a for a in acc if tuple(a[2][:2]) in ((2, 7), (3, 8), (3, 12))][:3] or acc[:1]
    nloops = 0
    for mg, passed, version in probe:
        for code, suffix in sorted(tbl.items()):
            f = cls.lookup("t_" + suffix)
            if not isinstance(f, FuncRef):
                continue
            sp = Spec(T.F, opaque_funcs={"to_portable"})
            sp.hooks.append(robj_hook)
            inst = new_instance(cls, passed, version)
            sp.run(f, [inst, True, Sym("bytes_for_s", "bool")])
            for k, e in flatten_effects(sp.effects):
                if k != "loop-begin":
                    continue
                ls = e.args[3]
                cond = show(ls.cond)
                driven = ("fld(" in cond) or cond in ("True",) or any(isinstance(v, Sym) and v.info and "read" in v.info and ("%s:%s" % (ls.tag, n_)) in cond
                                                                    for n_, v in ls.pre.items() if isinstance(n_, str))
                in_memory = cond.startswith("iter-more(zip(obj#") or cond.startswith("iter-more(obj#")
                if in_memory and not driven:
                    continue
                nloops += 1
                # every path of the iteration that continues must have consumed from the stream
                bad = []
                for g, l in leaves(ls.out):
                    if not isinstance(l, (Fall, Cont)):
                        continue
                    gs = set(repr(x) for x in g)
                    reads = [x for x in ls.effects if x.kind in ("robj", "unpack") and all(repr(c) in gs for c in inner_guards(x.guards, ls.tag))]
                    if not reads:
                        bad.append([show(x) for x in g])
                rep.ob("R3", f.qualname, "loop(%s):reads-every-iteration@%d.%d" % (cond[:40], version[0], version[1]), not bad, expected="a stream read on every continuing path",
                       derived=bad or "reads", where="xdis/unmarshal.py:%d" % f.node.lineno,
                       msg="an input-driven loop can iterate without consuming input: a hostile count makes it spin")
    rep.floor("input-driven unmarshaller loops", nloops, 15)
    ro = cls.lookup("r_object")
    sp = Spec(T.F)
    inst = new_instance(cls, probe[0][1], probe[0][2])
    sp.opaque_funcs.update(q for q in repo.functions if q.startswith(um + ".t_"))
    out_ro = sp.run(ro, [inst])
    eff = [(k, e) for k, e in flatten_effects(sp.effects)]
    first = eff[0] if eff else None
    ok = first is not None and first[0] == "read" and first[1].args[1] == 1
    rep.ob("R3", ro.qualname, "consumes-a-byte-before-dispatch", ok, expected="fp.read(1) is the first effect", derived=str(first[1])[:100] if first else None)
    # end of input must end the decode: r_object may not return normally on a path whose condition is "the read gave nothing"
    if ok:
        rd = first[1].args[2]
        soft = []
        for g, l in leaves(out_ro):
            empties = [x for x in g if (isinstance(x, Op) and x.op == "not" and repr(x.args[0]) == repr(rd)) or show(x) in (
                "Eq(len(%s), 0)" % show(rd), "Eq(%s, b'')" % show(rd), "not(len(%s))" % show(rd), "Lt(len(%s), 1)" % show(rd))]
            if empties and not isinstance(l, Raise):
                soft.append("%s under %s" % (type(l).__name__ + ("(%s)" % show(getattr(l, "value", None))[:30]), show(empties[0])))
        rep.ob("R3", ro.qualname, "end-of-input-raises", not soft, expected="an empty read raises (ord(b'') / explicit raise); no path returns a value when nothing was read",
               derived=soft or "no path tests for an empty read and continues", where="xdis/unmarshal.py:%d" % ro.node.lineno,
               msg="at end of input r_object %s instead of raising: a dict without its terminator, or a container with a forged count, is decoded for ever" % "; ".join(soft))
    rep.analysed(ro.qualname)
    header_rule(rep, T)
    fast_reader_rule(rep, repo, T, cg)
    allocation_rule(rep, repo, cg, seen)
    object_text_rule(rep, repo, cg, seen)
    rep.extra["sinks_reachable"] = nsink
    rep.assumptions = ["the table of total operations in rules/c11.py (each with its reason)", "allocation size of fp.read(n) for hostile n, wall time, recursion depth "
                       "(RecursionError is an Exception and is converted) and crashes inside the built-in marshal on the host fast path are not decided",
                       "OS-level failures of open()/getsize() are not file content"]
