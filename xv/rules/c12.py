"""C12 -- listings are total, faithful to the instruction stream, and clean (DESIGN.md section 4, C12)."""
import ast

from ..callgraph import CallGraph
from ..fold import ClassRef, FuncRef, Instance
from ..marshal_read import guards_apply
from ..par import pmap
from ..report import AnalysisError, SubReport, merge_sub
from ..repo import get_repo
from ..sve import (Brk, Cont, Fall, Guard, Op, Raise, Ret, Spec, Sym, conjuncts, flatten_effects, leaves, show)
from ..tables import tables

FORMATS = ["classic", "bytes", "extended", "extended-bytes", "asm"]


def stdout_sinks(cg, q):
    """(site, what) for calls in function q that write to standard output"""
    out = []
    for s in cg.sites.get(q, ()):
        for t in s.targets:
            if t == "builtin:print":
                kws = {k.arg for k in s.node.keywords}
                f = [k.value for k in s.node.keywords if k.arg == "file"]
                if "file" not in kws:
                    out.append((s, "print() without file="))
                elif f and ast.unparse(f[0]) in ("sys.stdout", "stdout"):
                    out.append((s, "print(file=sys.stdout)"))
            elif s.text in ("sys.stdout.write", "stdout.write", "sys.stdout.writelines"):
                out.append((s, s.text))
    return out


def operand_walk_rule(rep, repo):
    """R6: the two ways the operand walk of the extended formatters can run off the instruction window."""
    from ..repo import enclosing_function, norm
    n_arith = n_lookup = 0
    for q, (m, fn) in sorted(repo.functions.items()):
        if not q.startswith("xdis.opcodes.format."):
            continue
        params = {a.arg for a in fn.args.args}
        if "instructions" not in params:
            continue
        body_nodes = [n for n in ast.walk(fn) if enclosing_function(n) is fn]
        # (a) instructions[v +/- c]
        for n in body_nodes:
            if not (isinstance(n, ast.Subscript) and isinstance(n.value, ast.Name) and n.value.id == "instructions" and isinstance(n.slice, ast.BinOp)
                    and isinstance(n.slice.op, (ast.Add, ast.Sub))):
                continue
            names = [x.id for x in ast.walk(n.slice) if isinstance(x, ast.Name)]
            if len(names) != 1:
                continue
            v = names[0]
            n_arith += 1
            guarded = False
            for g in body_nodes:
                if isinstance(g, ast.If) and g.lineno < n.lineno and g.body and isinstance(g.body[-1], ast.Return):
                    t = norm(g.test)
                    if "len(instructions)" in t and any(isinstance(x, ast.Name) and x.id == v for x in ast.walk(g.test)):
                        rebound = any(isinstance(x, ast.Name) and x.id == v and isinstance(x.ctx, ast.Store) and g.lineno < x.lineno < n.lineno for x in body_nodes)
                        if not rebound:
                            guarded = True
            rep.ob("R6", q, "index:%s" % norm(n), guarded, expected="`if %s >= len(instructions) - k: return` before the use" % v, derived="guarded" if guarded else "no bounds test on %s" % v,
                   where=repo.where(m, n), msg="instructions[%s] is read without a bounds test: when the operand walk reaches the first instruction of the code object the "
                                               "extended formats raise IndexError (and otherwise the operand text comes from the wrong instruction)" % norm(n.slice))
        # (b) results of get_instruction_index_from_offset
        for n in body_nodes:
            if isinstance(n, ast.Assign) and isinstance(n.value, ast.Call) and isinstance(n.value.func, ast.Name) and n.value.func.id == "get_instruction_index_from_offset" \
                    and isinstance(n.targets[0], ast.Name):
                v = n.targets[0].id
                n_lookup += 1
                par = getattr(n, "_parent", None)
                blk = None
                for fld in ("body", "orelse", "finalbody"):
                    b = getattr(par, fld, None)
                    if isinstance(b, list) and n in b:
                        blk = b
                nxt = blk[blk.index(n) + 1] if blk and blk.index(n) + 1 < len(blk) else None
                ok = isinstance(nxt, ast.If) and norm(nxt.test) in ("%s is None" % v, "not %s" % v) and nxt.body and isinstance(nxt.body[-1], (ast.Return, ast.Raise, ast.Break, ast.Continue))
                rep.ob("R6", q, "lookup-result:%s" % v, ok, expected="`if %s is None: return ...` immediately after the lookup" % v, derived=norm(nxt)[:60] if nxt is not None else None,
                       where=repo.where(m, n), msg="get_instruction_index_from_offset returns None when the offset is not in the window; using it as an index raises TypeError")
    rep.floor("arithmetic window indexes in the extended formatters", n_arith, 2)
    rep.floor("window lookups in the extended formatters", n_lookup, 4)


def _decoder_work(mname):
    from . import dis_rules
    return dis_rules.table_worker(mname, ("C02", "C03", "C04"))


def run(rep, tier):
    rep.explanation = ("call-graph reachability (resolved through the repo's own table/dispatch bindings) for stray output; per-format specialisation of the "
                       "listing loop (symbolic instruction) for exactly-once emission; def-use of the rendered columns in Instruction.disassemble; "
                       "format-name coverage")
    rep.rule("R1", "nothing reachable from disassemble_file prints to standard output (print without file=, sys.stdout.write) except through the output stream parameter")
    rep.rule("R2", "in the listing loop every instruction is written exactly once, in iteration order, except CACHE entries (hidden) and, in xasm only, EXTENDED_ARG prefixes (folded)")
    rep.rule("R3", "the rendered offset, opcode name, '>>' mark and line number column come from that instruction's offset / opname / is_jump_target / starts_line")
    rep.rule("R4", "every format name pydisasm accepts is dispatched on somewhere in the listing code")
    rep.rule("R6", "extended formatters (xdis/opcodes/format): an index into the instruction window computed by arithmetic on a walk position is preceded by a "
                   "bounds test against len(instructions) that returns; every result of get_instruction_index_from_offset is tested for None before use")
    rep.rule("R5", "the instruction records the listing renders are the decoder's: per (opcode table, opcode) the offset/width/operand (C02 rules), "
                   "the operand value and text (C03 rules) and the jump target and label set (C04 rules) agree with Lib/dis.py of that version")
    T = tables()
    F = T.F
    repo = get_repo()
    cg = CallGraph(repo, T)
    um = "xdis.unmarshal._VersionIndependentUnmarshaller"
    if um + ".r_object" in repo.functions:
        cg.add_edges(um + ".r_object", [q for q in repo.functions if q.startswith(um + ".t_")])
    root = "xdis.disasm.disassemble_file"
    if root not in repo.functions:
        raise AnalysisError("anchor vanished: %s" % root)
    seen = cg.reachable([root])
    rep.floor("functions reachable from disassemble_file", len(seen), 120)
    rep.call_sites = sum(len(cg.sites[q]) for q in seen)
    for q in seen:
        rep.analysed(q)
    # ---------------------------------------------------------------- R1
    # printing is the *contract* of these (they print the text they are asked to show); they are reached only through name-based resolution
    contract = {"xdis.std._StdApi._print", "xdis.cross_dis.show_code"}
    nsinks = 0
    for q in sorted(seen):
        for s, what in stdout_sinks(cg, q):
            nsinks += 1
            if q in contract:
                rep.note("%s (%s): printing is its documented contract" % (q, s.where))
                continue
            path = cg.path_to(seen, q)
            rep.ob("R1", q, "stdout:%s" % ast.unparse(s.node)[:50], False, expected="no write to standard output", derived=what, where=s.where,
                   msg="%s is reachable from disassemble_file via %s" % (what, " -> ".join(path[-4:]) or root))
    for q in sorted(seen):
        if not stdout_sinks(cg, q):
            rep.ob("R1", q, "no-stdout-write", True)
    # positive control: the rule must recognise a stray print in a synthetic module
    ctl = ast.parse("def f(x, out):\n    print('dbg', x)\n    print(x, file=out)\n")
    hits = [n for n in ast.walk(ctl) if isinstance(n, ast.Call) and isinstance(n.func, ast.Name) and n.func.id == "print" and "file" not in {k.arg for k in n.keywords}]
    if len(hits) != 1:
        raise AnalysisError("positive control for R1 failed")
    # ---------------------------------------------------------------- R2 listing loop per format
    B = F.modules["xdis.bytecode"].ns.get("Bytecode")
    db = B.lookup("disassemble_bytes") if isinstance(B, ClassRef) else None
    if not isinstance(db, FuncRef):
        raise AnalysisError("anchor vanished: xdis.bytecode.Bytecode.disassemble_bytes")
    for fmt in FORMATS:
        for v in ("2.7", "3.12"):
            opc = T.table_for_version(v)
            self_ = Instance(B)
            self_.attrs.update(opc=opc)
            sp = Spec(F, opaque_funcs={"get_instructions_bytes", "getline", "get_docstring"})
            sp.gen_elem_hook = lambda spec, gen, tag: Sym("instr", "obj!")

            def hook(spec, name, fv, args, kw, node):
                if name.endswith("get_instructions_bytes"):
                    spec.effect("gen", name, tuple(args), tuple(sorted(kw.items())), node=node)
                    return Sym("instructions_gen", "gen", {})
                return NotImplemented
            sp.hooks.append(hook)
            out = Sym("out", "obj!")
            sp.run(db, [self_, Sym("code", "bytes")], dict(file=out, asm_format=fmt, line_starts=Sym("line_starts", "dict"), show_source=False,
                                                           varnames=Sym("varnames", "tuple"), names=Sym("names", "tuple"), constants=Sym("constants", "tuple"),
                                                           cells=Sym("cells", "tuple")))
            ls = None
            for k, e in flatten_effects(sp.effects):
                if k == "loop-begin" and "instructions_gen" in show(e.args[3].cond):
                    ls = e.args[3]
            cfg = "%s@%s" % (fmt, v)
            if ls is None:
                rep.ob("R2", db.qualname, "%s:loop" % cfg, False, expected="a loop over get_instructions_bytes(...)", derived="not found")
                continue
            rep.configurations += 1
            emits = [e for e in ls.effects if e.kind == "call" and str(e.args[0]).endswith("out.write") and "disassemble" in show(e.args[1])]
            bad = []
            for g, l in leaves(ls.out):
                gl = []
                for x in g:
                    gl.extend(conjuncts(x))
                n = sum(1 for e in emits if guards_apply(e.guards, g))
                cond = [show(x) for x in gl]
                if isinstance(l, Cont):
                    txt = " and ".join(cond)
                    allowed = ("Eq(attr(instr, 'opname'), 'CACHE')" in txt) or (fmt == "asm" and "Eq(attr(instr, 'opname'), 'EXTENDED_ARG')" in txt)
                    if n != 0 or not allowed:
                        bad.append(("skip", cond[-3:], n))
                elif isinstance(l, Fall):
                    if n != 1:
                        bad.append(("emit-count", cond[-3:], n))
                else:
                    bad.append((type(l).__name__, cond[-3:], n))
            rep.ob("R2", db.qualname, "%s:exactly-once" % cfg, not bad and bool(emits), expected="one file.write(instr.disassemble(...)) per instruction; skips only for CACHE (and EXTENDED_ARG in xasm)",
                   derived=bad or len(emits), msg="an instruction can be listed %s" % ("twice or not at all on paths %s" % bad))
            # the instruction written is the loop's instruction (possibly re-created with only starts_line/offset changed)
            srcs = set()
            for e in emits:
                a = e.args[1][0]
                s = show(a)
                srcs.add("instr" in s)
            rep.ob("R2", db.qualname, "%s:writes-the-iterated-instruction" % cfg, srcs == {True}, derived=sorted(srcs))
            # iteration source
            gens = [e for e in sp.effects if e.kind == "gen"]
            rep.ob("R2", db.qualname, "%s:source-is-instruction-stream" % cfg, len(gens) == 1 and show(gens[0].args[1][0]) == "code", expected="get_instructions_bytes(bytecode, ...)",
                   derived=[show(g.args[1]) for g in gens][:2])
    # ---------------------------------------------------------------- R3 rendering def-use
    I = F.modules["xdis.instruction"].ns.get("Instruction")
    dis = I.lookup("disassemble") if isinstance(I, ClassRef) else None
    if not isinstance(dis, FuncRef):
        raise AnalysisError("anchor vanished: xdis.instruction.Instruction.disassemble")
    rep.analysed(dis.qualname)
    for fmt in ("classic", "bytes"):
        opc = T.table_for_version("3.8")
        sp = Spec(F)
        me = Sym("self", "obj!")
        fields = Sym("fields_list", "list")
        sp.run(dis, [me, opc], dict(line_starts=Sym("line_starts", "dict"), lineno_width=3, mark_as_current=False, asm_format=fmt, instructions=Sym("instructions", "list")))
        apps = [e for k, e in flatten_effects(sp.effects) if k == "mutate" and e.args[0] == "append"]
        app_txt = [(show(e.args[2]), [show(g) for g in e.guards]) for e in apps]

        def find(pred):
            return [(t, g) for t, g in app_txt if pred(t)]
        off = find(lambda t: "attr(self, 'offset')" in t)
        rep.ob("R3", dis.qualname, "%s:offset-column" % fmt, len(off) == 1 and not off[0][1], expected="repr(self.offset) rendered unconditionally", derived=off)
        opn = find(lambda t: "attr(self, 'opname')" in t and "ljust" in t)
        rep.ob("R3", dis.qualname, "%s:opname-column" % fmt, len(opn) == 1 and not opn[0][1], expected="self.opname rendered unconditionally", derived=opn)
        mark = find(lambda t: t == "('>>',)")
        nomark = find(lambda t: t == "('  ',)")
        okm = len(mark) == 1 and mark[0][1] == ["attr(self, 'is_jump_target')"] and len(nomark) == 1 and nomark[0][1] == ["not(attr(self, 'is_jump_target'))"]
        rep.ob("R3", dis.qualname, "%s:jump-target-mark" % fmt, okm, expected="'>>' iff self.is_jump_target", derived=[mark, nomark])
        ln = find(lambda t: "attr(self, 'starts_line')" in t)
        okl = len(ln) == 1 and ln[0][1] == ["IsNot(attr(self, 'starts_line'), None)"]
        blank = [(t, g) for t, g in app_txt if g == ["not(IsNot(attr(self, 'starts_line'), None))"]]
        rep.ob("R3", dis.qualname, "%s:line-column" % fmt, okl and len(blank) == 1, expected="self.starts_line rendered iff it is not None, blanks otherwise", derived=[ln, blank])
    # ---------------------------------------------------------------- R4 formats
    pm = repo.modules.get("xdis.bin.pydisasm")
    if pm is None:
        raise AnalysisError("anchor vanished: xdis.bin.pydisasm")
    choices = None
    for n in ast.walk(pm.tree):
        if isinstance(n, ast.Call) and ast.unparse(n.func).endswith("Choice") and n.args and isinstance(n.args[0], (ast.List, ast.Tuple)):
            choices = [c.value for c in n.args[0].elts if isinstance(c, ast.Constant)]
    if not choices:
        raise AnalysisError("anchor vanished: click.Choice([...]) of format names in pydisasm")
    compared = set()
    for q in seen:
        m, fn = repo.functions[q]
        for n in ast.walk(fn):
            if isinstance(n, ast.Compare):
                names = [x for x in [n.left] + n.comparators if isinstance(x, ast.Name) and x.id in ("asm_format", "format")]
                if names:
                    for x in [n.left] + n.comparators:
                        for c in ast.walk(x):
                            if isinstance(c, ast.Constant) and isinstance(c.value, str):
                                compared.add(c.value)
    for ch in choices:
        ok = ch == "classic" or ch in compared or (ch == "xasm" and "xasm" in compared)
        rep.ob("R4", "xdis.bin.pydisasm.main", "format:%s" % ch, ok, expected="compared with asm_format somewhere reachable", derived=sorted(compared))
    stray = sorted(c for c in compared if c not in choices and c not in ("asm", "dis"))
    for s_ in stray:
        rep.note("format literal %r is compared with asm_format but is not a format pydisasm accepts (dead branch?)" % s_)
    # ---------------------------------------------------------------- R6 operand walk of the extended formatters
    operand_walk_rule(rep, repo)
    # ---------------------------------------------------------------- R5 the decoded records (shared engine with C02/C03/C04)
    from . import dis_rules
    names = sorted(T.reachable)
    results = pmap(_decoder_work, names)
    subs = {p: SubReport(p) for p in ("C02", "C03", "C04")}
    nops = 0
    for res in results:
        for (p_, rule, construct, detail, ok, exp, got, where, msg) in res:
            if p_ == "META":
                nops += detail
            elif p_ in subs:
                subs[p_].ob(rule, construct, detail, ok, expected=exp, derived=got, where=where, msg=msg)
    rep.floor("(table, opcode) decoder specialisations", nops, 4000)
    for p_ in sorted(subs):
        merge_sub(rep, subs[p_], "R5", p_)
    rep.extra["stdout_sink_sites_reachable"] = nsinks
    rep.extra["unresolved_calls"] = len(cg.unresolved)
    rep.assumptions = ["call resolution by the binding rules of xv/callgraph.py; unresolved attribute calls on container/stream method names are external",
                       "totality of the stack-simulating extended formatter (index/shape errors) is data-dependent and not decided; text equality with dis is not compared"]
