"""C12 -- listings are total, faithful to the instruction stream, and clean (DESIGN.md section 4, C12)."""
import ast
import os

from ..callgraph import CallGraph
from ..fold import ClassRef, FuncRef, Instance
from ..marshal_read import guards_apply
from ..par import pmap
from ..report import AnalysisError, SubReport, merge_sub
from ..repo import get_repo
from ..sve import (Brk, Cont, Fall, Guard, Op, Raise, Ret, Spec, Sym, conjuncts, flatten_effects, leaves, show)
from ..tables import tables

FORMATS = ["classic", "bytes", "extended", "extended-bytes", "asm"]


def stdout_sinks(cg, q):
    """(site, what) for calls in function q that write to standard output"""
    out = []
    for s in cg.sites.get(q, ()):
        for t in s.targets:
            if t == "builtin:print":
                kws = {k.arg for k in s.node.keywords}
                f = [k.value for k in s.node.keywords if k.arg == "file"]
                if "file" not in kws:
                    out.append((s, "print() without file="))
                elif f and ast.unparse(f[0]) in ("sys.stdout", "stdout"):
                    out.append((s, "print(file=sys.stdout)"))
            elif s.text in ("sys.stdout.write", "stdout.write", "sys.stdout.writelines"):
                out.append((s, s.text))
    return out


# unguarded constant indexes confirmed by reading to be unreachable, one reason each
ARGLIST_INDEX_EXCEPTIONS = {
    ("xdis.opcodes.opcode_36.extended_format_CALL_FUNCTION_KW", "arglist[0]"):
        "under `instructions[1].opname == 'MAKE_FUNCTION'`, but instructions[1] of a CALL_FUNCTION_KW is always the LOAD_CONST of the keyword-name tuple",
}


def operand_walk_rule(rep, repo):
    """R6: the two ways the operand walk of the extended formatters can run off the instruction window."""
    from ..repo import enclosing_function, norm
    n_arith = n_lookup = 0
    for q, (m, fn) in sorted(repo.functions.items()):
        if not q.startswith("xdis.opcodes.format."):
            continue
        params = {a.arg for a in fn.args.args}
        if "instructions" not in params:
            continue
        body_nodes = [n for n in ast.walk(fn) if enclosing_function(n) is fn]
        # (a) instructions[v +/- c]
        for n in body_nodes:
            if not (isinstance(n, ast.Subscript) and isinstance(n.value, ast.Name) and n.value.id == "instructions" and isinstance(n.slice, ast.BinOp)
                    and isinstance(n.slice.op, (ast.Add, ast.Sub))):
                continue
            names = [x.id for x in ast.walk(n.slice) if isinstance(x, ast.Name)]
            if len(names) != 1:
                continue
            v = names[0]
            n_arith += 1
            guarded = False
            for g in body_nodes:
                if isinstance(g, ast.If) and g.lineno < n.lineno and g.body and isinstance(g.body[-1], ast.Return):
                    t = norm(g.test)
                    if "len(instructions)" in t and any(isinstance(x, ast.Name) and x.id == v for x in ast.walk(g.test)):
                        rebound = any(isinstance(x, ast.Name) and x.id == v and isinstance(x.ctx, ast.Store) and g.lineno < x.lineno < n.lineno for x in body_nodes)
                        if not rebound:
                            guarded = True
            rep.ob("R6", q, "index:%s" % norm(n), guarded, expected="`if %s >= len(instructions) - k: return` before the use" % v, derived="guarded" if guarded else "no bounds test on %s" % v,
                   where=repo.where(m, n), msg="instructions[%s] is read without a bounds test: when the operand walk reaches the first instruction of the code object the "
                                               "extended formats raise IndexError (and otherwise the operand text comes from the wrong instruction)" % norm(n.slice))
        # (b) results of get_instruction_index_from_offset
        for n in body_nodes:
            if isinstance(n, ast.Assign) and isinstance(n.value, ast.Call) and isinstance(n.value.func, ast.Name) and n.value.func.id == "get_instruction_index_from_offset" \
                    and isinstance(n.targets[0], ast.Name):
                v = n.targets[0].id
                n_lookup += 1
                par = getattr(n, "_parent", None)
                blk = None
                for fld in ("body", "orelse", "finalbody"):
                    b = getattr(par, fld, None)
                    if isinstance(b, list) and n in b:
                        blk = b
                nxt = blk[blk.index(n) + 1] if blk and blk.index(n) + 1 < len(blk) else None
                ok = isinstance(nxt, ast.If) and norm(nxt.test) in ("%s is None" % v, "not %s" % v) and nxt.body and isinstance(nxt.body[-1], (ast.Return, ast.Raise, ast.Break, ast.Continue))
                rep.ob("R6", q, "lookup-result:%s" % v, ok, expected="`if %s is None: return ...` immediately after the lookup" % v, derived=norm(nxt)[:60] if nxt is not None else None,
                       where=repo.where(m, n), msg="get_instruction_index_from_offset returns None when the offset is not in the window; using it as an index raises TypeError")
    rep.floor("arithmetic window indexes in the extended formatters", n_arith, 2)
    rep.floor("window lookups in the extended formatters", n_lookup, 4)
    # (c) constant-index access to the argument list returned by get_arglist
    n_idx = 0
    registered = set()
    for mq, mod in repo.modules.items():
        if mq.startswith("xdis.opcodes."):
            for d_ in ast.walk(mod.tree):
                if isinstance(d_, ast.Dict):
                    for v_ in d_.values:
                        if isinstance(v_, ast.Name) and v_.id.startswith("extended_format_"):
                            registered.add(v_.id)
                elif isinstance(d_, ast.Assign) and isinstance(d_.targets[0], ast.Subscript) and isinstance(d_.value, ast.Name) and d_.value.id.startswith("extended_format_"):
                    registered.add(d_.value.id)
    for q, (m, fn) in sorted(repo.functions.items()):
        if not (q.startswith("xdis.opcodes.") and "instructions" in {a.arg for a in fn.args.args}):
            continue
        if fn.name.startswith("extended_format_") and fn.name not in registered and not any(
                isinstance(c_, ast.Call) and isinstance(c_.func, ast.Name) and c_.func.id == fn.name for m2 in repo.modules.values() for c_ in ast.walk(m2.tree)):
            continue  # defined but neither registered in a formatter table nor called: unreachable from a listing
        body_nodes = [n for n in ast.walk(fn) if enclosing_function(n) is fn]
        lists = {}  # list variable -> count variable
        for n in body_nodes:
            if isinstance(n, ast.Assign) and isinstance(n.value, ast.Call) and isinstance(n.value.func, ast.Name) and n.value.func.id == "get_arglist" \
                    and isinstance(n.targets[0], ast.Tuple) and len(n.targets[0].elts) == 3 and isinstance(n.targets[0].elts[0], ast.Name):
                lists[n.targets[0].elts[0].id] = n.targets[0].elts[1].id if isinstance(n.targets[0].elts[1], ast.Name) else None
        for n in body_nodes:
            if not (isinstance(n, ast.Subscript) and isinstance(n.value, ast.Name) and n.value.id in lists and isinstance(n.slice, ast.Constant) and isinstance(n.slice.value, int)):
                continue
            k = n.slice.value
            lv, cv = n.value.id, lists[n.value.id]
            n_idx += 1
            guarded = False
            p_ = getattr(n, "_parent", None)
            child = n
            while p_ is not None and p_ is not fn:
                if isinstance(p_, ast.If) and any(child is s_ or child in ast.walk(s_) for s_ in p_.body):
                    for c in ast.walk(p_.test):
                        if isinstance(c, ast.Compare) and len(c.ops) == 1 and isinstance(c.left, ast.Name) and isinstance(c.comparators[0], ast.Constant) \
                                and isinstance(c.comparators[0].value, int):
                            if c.left.id == cv and ((isinstance(c.ops[0], ast.Eq) and c.comparators[0].value > k) or (isinstance(c.ops[0], ast.Gt) and c.comparators[0].value >= k)
                                                    or (isinstance(c.ops[0], ast.GtE) and c.comparators[0].value > k)):
                                guarded = True
                        if isinstance(c, ast.Compare) and "len(%s)" % lv in norm(c):
                            guarded = True
                    tn = norm(p_.test)
                    if k == 0 and (tn == lv or tn.startswith(lv + " and ") or (" and %s and " % lv) in (" " + tn + " ") or tn.startswith("(%s and" % lv) or tn.startswith("%s\n" % lv)):
                        guarded = True
                    if k == 0 and any(isinstance(v_, ast.Name) and v_.id == lv for b_ in ast.walk(p_.test) if isinstance(b_, ast.BoolOp) and isinstance(b_.op, ast.And) for v_ in b_.values):
                        guarded = True
                child = p_
                p_ = getattr(p_, "_parent", None)
            if not guarded and (q, norm(n)) in ARGLIST_INDEX_EXCEPTIONS:
                rep.ob("R6", q, "arglist-index:%s" % norm(n), True, derived="confirmed exception: " + ARGLIST_INDEX_EXCEPTIONS[(q, norm(n))])
                continue
            rep.ob("R6", q, "arglist-index:%s" % norm(n), guarded, expected="guarded by the returned count (== n > index), len(%s) or, for index 0, the truth of %s" % (lv, lv),
                   derived="guarded" if guarded else "no guard establishes %d item(s)" % (k + 1), where=repo.where(m, n),
                   msg="%s can be empty (a call without arguments): %s raises IndexError in the extended formats" % (lv, norm(n)))
    rep.floor("constant indexes into get_arglist results", n_idx, 8)
    # (d) '%' format strings handed to the unary / binary / ternary helpers
    n_fmt = 0
    want_n = {"extended_format_unary_op": 1, "extended_format_binary_op": 2, "extended_format_ternary_op": 3}

    def fmt_ok(fmt, n):
        try:
            fmt % tuple("x" * n)
        except Exception as ex:
            return False, "%s: %s" % (type(ex).__name__, ex)
        return fmt.replace("%%", "").count("%s") == n, "placeholders"
    dynamic = []
    for q, (m, fn) in sorted(repo.functions.items()):
        if not q.startswith("xdis.opcodes."):
            continue
        for c in ast.walk(fn):
            if isinstance(c, ast.Call) and isinstance(c.func, ast.Name) and c.func.id in want_n and len(c.args) >= 3 and enclosing_function(c) is fn:
                a = c.args[2]
                if isinstance(a, ast.Constant) and isinstance(a.value, str):
                    n_fmt += 1
                    ok, why = fmt_ok(a.value, want_n[c.func.id])
                    rep.ob("R6", q, "format:%r" % a.value, ok, expected="%d '%%s' placeholders, every other '%%' doubled" % want_n[c.func.id], derived=why, where=repo.where(m, c),
                           msg="the format string %r raises or mis-renders when the operands are substituted" % a.value)
                elif not (isinstance(a, ast.Name) and a.id in {x.arg for x in fn.args.args}):
                    dynamic.append((q, m, c))
    from ..tables import tables as _tables
    T_ = _tables()
    for q, m, c in dynamic:
        # a format string computed from the operand: enumerate it over the operator table it is taken from
        mod, _, name = q.rpartition(".")
        ns = T_.F.load(mod).ns
        f = ns.get(name)
        src_ = ast.unparse(repo.functions[q][1])
        ops = ns.get("_nb_ops") if "_nb_ops" in src_ else [("operand", 0), ("operand", 1)]
        I = T_.F.load("xdis.instruction").ns.get("Instruction")
        if not (isinstance(f, FuncRef) and isinstance(ops, list) and isinstance(I, ClassRef)):
            rep.ob("R6", q, "format:computed", False, expected="a constant format string or one enumerable over _nb_ops", derived=norm(c.args[2])[:80], where=repo.where(m, c))
            continue
        seen_ = []

        def hook(spec, name_, fv, args, kw, node):
            if name_.split(".")[-1] in want_n and len(args) >= 3:
                seen_.append((name_.split(".")[-1], args[2]))
                return ("", None)
            return NotImplemented
        for k in range(len(ops)):
            inst = Instance(I)
            inst.attrs["argval"] = k
            inst.attrs["arg"] = k
            sp = Spec(T_.F, hooks=[hook])
            before = len(seen_)
            sp.run(f, [T_.F.load(mod), [inst]])
            n_fmt += 1
            got = seen_[before:] or [(None, None)]
            hn, fmt = got[0]
            ok, why = (fmt_ok(fmt, want_n[hn]) if isinstance(fmt, str) else (False, "format string not constant for operator %r: %s" % (ops[k], show(fmt))))
            rep.ob("R6", q, "format:%s" % (ops[k][1] if isinstance(ops[k], tuple) and "_nb_ops" in src_ else "operand=%d" % k), ok, expected="a valid format string with %s placeholders" % (want_n.get(hn)),
                   derived=fmt if isinstance(fmt, str) else why, where=repo.where(m, c),
                   msg="operator %r gives the format string %r: %s" % (ops[k], fmt, why))
    rep.floor("format strings of the %-based formatter helpers", n_fmt, 30)


def listing_row_rule(rep, T, F, B):
    """R9: decided on the text Instruction.disassemble produces with the arguments the listing loop really passes in each configuration"""
    from ..fold import FoldError, PyExc
    I = F.modules["xdis.instruction"].ns.get("Instruction")
    dis_m = B.lookup("dis") if isinstance(B, ClassRef) else None
    disfn = I.lookup("disassemble") if isinstance(I, ClassRef) else None
    if not isinstance(dis_m, FuncRef) or not isinstance(disfn, FuncRef):
        raise AnalysisError("anchor vanished: xdis.bytecode.Bytecode.dis / xdis.instruction.Instruction.disassemble")
    fields = [a.target.id for a in I.node.body if isinstance(a, ast.AnnAssign) and isinstance(a.target, ast.Name)]
    if "starts_line" not in fields or "is_jump_target" not in fields:
        raise AnalysisError("anchor vanished: Instruction.starts_line / is_jump_target")

    def concrete(opc, vt, line, target):
        i = Instance(I)
        for f in fields:
            i.attrs[f] = None
        i.attrs.update(opcode=opc.ns["opmap"]["LOAD_CONST"], opname="LOAD_CONST", arg=1, argval="x", argrepr="'xyz'", offset=10, starts_line=line, is_jump_target=target, optype="const",
                       has_arg=True, inst_size=3 if vt < (3, 6) else 2, has_extended_arg=False, fallthrough=True)
        return i
    n = 0
    for mname, opc in sorted(T.reachable.items()):
        if "LOAD_CONST" not in opc.ns.get("opmap", {}):
            continue
        vt = tuple(opc.ns["version_tuple"][:2])
        for fmt in ("classic", "bytes"):
            self_ = Instance(B)
            self_.attrs.update(opc=opc, codeobj=Sym("co", "obj!"), current_offset=None, _cell_names=Sym("cells", "tuple"), _linestarts=Sym("linestarts", "dict"), _line_offset=0,
                               exception_entries=None)
            sp = Spec(F, opaque_funcs={"get_instructions_bytes", "getline", "get_docstring"})

            def mk(spec, gen, tag):
                i = Instance(I)
                for f in fields:
                    i.attrs[f] = Sym("instr." + f, "obj")
                return i
            sp.gen_elem_hook = mk
            calls = []

            def hook(spec, name, fv, args, kw, node):
                if name.endswith("get_instructions_bytes"):
                    return Sym("instructions_gen", "gen", {})
                if name.endswith("Instruction.disassemble"):
                    calls.append((list(args), dict(kw)))
                    return Sym("row", "str")
                return NotImplemented
            sp.hooks.append(hook)
            sp.run(dis_m, [self_], dict(asm_format=fmt, show_source=False))
            cfg = "%s@%s" % (fmt, mname.split(".")[-1])
            if not calls:
                rep.ob("R9", dis_m.qualname, "%s:renders-through-Instruction.disassemble" % cfg, False, expected="a call of Instruction.disassemble in the listing loop", derived="none seen")
                continue
            n += 1
            bad = []
            undecided = False
            for args, kw in calls:
                def neutral(a):
                    if isinstance(a, (Sym, Op, Guard)):
                        k_ = getattr(a, "kind", "")
                        return {} if k_ == "dict" else ([] if k_ == "list" or "mutated" in show(a) else False)
                    return a
                a2 = [neutral(a) for a in args]
                k2 = {k: neutral(v_) for k, v_ in kw.items()}
                try:
                    t_line = F.apply(disfn, [concrete(opc, vt, 777, False)] + a2, dict(k2))
                    t_none = F.apply(disfn, [concrete(opc, vt, None, False)] + a2, dict(k2))
                    t_tgt = F.apply(disfn, [concrete(opc, vt, None, True)] + a2, dict(k2))
                except (PyExc, FoldError) as ex:
                    undecided = True
                    rep.note("R9 %s: the row text could not be folded (%s)" % (cfg, str(ex)[:80]))
                    continue
                if not all(isinstance(t, str) for t in (t_line, t_none, t_tgt)):
                    undecided = True
                    continue
                if "777" not in t_line:
                    bad.append("the row of an instruction that starts line 777 does not show it: %r" % t_line)
                if "777" in t_none:
                    bad.append("a line number is shown for an instruction that starts no line: %r" % t_none)
                if ">>" not in t_tgt or ">>" in t_none:
                    bad.append("'>>' mark: jump target %r / other %r" % (t_tgt, t_none))
                for what, tok in (("offset", "10"), ("opcode name", "LOAD_CONST"), ("operand text", "'xyz'")):
                    if tok not in t_none.split() and tok not in t_none:
                        bad.append("%s %s missing from the row %r" % (what, tok, t_none))
            if undecided and not bad:
                continue
            rep.ob("R9", dis_m.qualname, "%s:row-shows-line-mark-offset-name-operand" % cfg, not bad, expected="line number iff starts_line, '>>' iff jump target, offset, opcode name, operand",
                   derived=bad[:3] or "as expected", msg="; ".join(bad[:2]))
    rep.floor("listing rows decided per (table, format)", n, 40)


def _decoder_work(mname):
    from . import dis_rules
    return dis_rules.table_worker(mname, ("C02", "C03", "C04"))


def run(rep, tier):
    rep.explanation = ("call-graph reachability (resolved through the repo's own table/dispatch bindings) for stray output; per-format specialisation of the "
                       "listing loop (symbolic instruction) for exactly-once emission; def-use of the rendered columns in Instruction.disassemble; "
                       "format-name coverage")
    rep.rule("R1", "nothing reachable from disassemble_file prints to standard output (print without file=, sys.stdout.write) except through the output stream parameter")
    rep.rule("R2", "the listing loop run on a scripted stream of concrete instruction records (line start, inline CACHE entry, jump target, EXTENDED_ARG prefix starting a line, "
                   "SET_LINENO, per table 1.5 / 2.7 / 3.8 / 3.12 and per format) renders every instruction exactly once, in order, except CACHE entries (hidden outside the "
                   "bytes formats) and, in xasm only, EXTENDED_ARG prefixes (folded into the next instruction, which takes the prefix's offset); in classic and bytes each row "
                   "carries the record's own offset, line start (SET_LINENO's line for its successor) and jump-target mark; every row is written to the stream once")
    rep.rule("R3", "Instruction.disassemble folded on concrete records (LOAD_CONST, POP_TOP, JUMP_FORWARD; tables 2.7, 3.8, 3.12; classic and bytes): the text shows that record's "
                   "offset, opcode name and operand, '>>' iff is_jump_target and the line number iff starts_line is set")
    rep.rule("R4", "every format name pydisasm accepts is dispatched on somewhere in the listing code")
    rep.rule("R6", "extended formatters: an index into the instruction window computed by arithmetic on a walk position is preceded by a bounds test against "
                   "len(instructions) that returns; every result of get_instruction_index_from_offset is tested for None before use; a constant index into the "
                   "list returned by get_arglist is guarded by its length / count; every format string given to the %-based unary/binary/ternary helpers "
                   "(constant, or enumerated over the 3.11+ operator table) has the right placeholders and escapes every other '%'")
    rep.rule("R7", "a parameter whose default is None and that some listing path really leaves at None (omitted, None passed, the caller's own optional handed on; "
                   "least fixpoint over the reachable call sites) is tested for None before every use that needs a value (attribute, index, `in`, iteration, call, arithmetic)")
    rep.rule("R8", "every operand formatter registered in a table's opcode_arg_fmt returns a string for each operand value the compiler of that table's versions can emit "
                   "(RAISE_VARARGS 0-3 in Python 1/2 and 0-2 in 3, IS_OP / CONTAINS_OP / CALL_FUNCTION_EX 0-1, FORMAT_VALUE 0-7, MAKE_FUNCTION 0-15 from 3.6, BINARY_OP 0-25, "
                   "the intrinsic numbers, sample magnitudes elsewhere); evaluated by the folder on those finite domains")
    rep.rule("R9", "per opcode table and for the classic and bytes formats: the arguments Bytecode.dis() -> disassemble_bytes hands to Instruction.disassemble (captured at the "
                   "call, whatever their form) are given to the real Instruction.disassemble with a concrete instruction, and the folded text shows the line number iff the "
                   "instruction starts a line, '>>' iff it is a jump target, and its offset, opcode name and operand text")
    rep.rule("R5", "the instruction records the listing renders are the decoder's: per (opcode table, opcode) the offset/width/operand (C02 rules), "
                   "the operand value and text (C03 rules) and the jump target and label set (C04 rules) agree with Lib/dis.py of that version")
    T = tables()
    F = T.F
    repo = get_repo()
    cg = CallGraph(repo, T)
    um = "xdis.unmarshal._VersionIndependentUnmarshaller"
    if um + ".r_object" in repo.functions:
        cg.add_edges(um + ".r_object", [q for q in repo.functions if q.startswith(um + ".t_")])
    root = "xdis.disasm.disassemble_file"
    if root not in repo.functions:
        raise AnalysisError("anchor vanished: %s" % root)
    seen = cg.reachable([root])
    rep.floor("functions reachable from disassemble_file", len(seen), 120)
    rep.call_sites = sum(len(cg.sites[q]) for q in seen)
    for q in seen:
        rep.analysed(q)
    # ---------------------------------------------------------------- R7 optional parameters on the listing paths
    from .. import nullness
    nullness.positive_control()
    nroots = [r for r in (root, "xdis.disasm.disco", "xdis.bytecode.Bytecode.dis", "xdis.bytecode.Bytecode.__init__", "xdis.bytecode.Bytecode.__iter__",
                          "xdis.bytecode.Bytecode.info", "xdis.instruction.Instruction.disassemble", "xdis.std._StdApi.dis") if r in repo.functions]
    nseen = cg.reachable(nroots)
    maybe, why = nullness.may_be_none(repo, cg, nseen, nroots)
    n_guarded = 0
    for q in sorted(nseen):
        m_, fn_ = repo.functions[q]
        ops = [p_ for p_ in nullness.optional_params(fn_) if (q, p_) in maybe]
        if not ops:
            continue
        nn = nullness.Nullness(fn_, ops)
        bad = nn.run()
        n_guarded += nn.guarded
        by = {}
        for nm, node, how in bad:
            by.setdefault(nm, []).append((how, node))
        for p_ in ops:
            hits_ = by.get(p_, [])
            rep.ob("R7", q, "optional:%s" % p_, not hits_, expected="every use of %s that needs a value is preceded by a test for None" % p_,
                   derived=[("%s at %s" % (how, ast.unparse(node)[:50])) for how, node in hits_[:3]] or "guarded or only handed on",
                   where=repo.where(m_, hits_[0][1]) if hits_ else None,
                   msg="%s may be None here (%s) and is used %s without a test: the listing aborts with a TypeError / AttributeError" % (
                       p_, why.get((q, p_), "public operation, the argument is optional"), hits_[0][0] if hits_ else ""))
    rep.floor("optional parameters that can be None on a listing path", len([1 for (q, p_) in maybe if q in nseen]), 12)
    rep.floor("None-guarded uses of such parameters", n_guarded, 3)
    # ---------------------------------------------------------------- R8 operand formatters are total on the operands the compiler emits
    from ..fold import FoldError, FuncRef as _FR, PyExc
    GENERIC = (0, 1, 2, 3, 255, 256, 257, 65535)

    def domain(opname, v):
        if opname == "RAISE_VARARGS":
            return range(0, 4) if v < (3, 0) else range(0, 3)
        if opname in ("IS_OP", "CONTAINS_OP", "CALL_FUNCTION_EX"):
            return (0, 1)
        if opname == "FORMAT_VALUE":
            return range(0, 8)
        if opname == "MAKE_FUNCTION" and v >= (3, 6):
            return range(0, 16)
        if opname in ("MAKE_FUNCTION", "MAKE_CLOSURE"):
            return (0, 1, 2, 255) if v < (3, 0) else (0, 1, 2, 255, 256, 0x101, 0x10000, 0x10101, 0x7FFF0000)
        if opname == "BINARY_OP":
            return range(0, 26)
        if opname == "CALL_INTRINSIC_1":
            return range(1, 12)
        if opname == "CALL_INTRINSIC_2":
            return range(1, 5)
        return GENERIC
    n_fmt = 0
    done_fmt = {}
    for mname, mod in sorted(T.reachable.items()):
        fmts = mod.ns.get("opcode_arg_fmt")
        if not isinstance(fmts, dict):
            continue
        v = tuple(mod.ns["version_tuple"][:2])
        for opn, ff in sorted(fmts.items()):
            if not isinstance(ff, _FR) or opn not in mod.ns["opmap"]:
                continue
            dom = tuple(domain(opn, v))
            key = (ff.qualname, opn, dom)
            if key in done_fmt:
                done_fmt[key].append(mname.split(".")[-1])
                continue
            done_fmt[key] = [mname.split(".")[-1]]
            badv = []
            for a_ in dom:
                try:
                    r_ = F.apply(ff, [a_], {})
                    if not isinstance(r_, str):
                        badv.append("%d -> %r" % (a_, r_))
                except (PyExc, FoldError) as ex:
                    badv.append("%d raises %s" % (a_, str(ex)[:40]))
            n_fmt += 1
            rep.ob("R8", ff.qualname, "total:%s@%s" % (opn, "py2" if v < (3, 0) else "py3"), not badv, expected="a string for every operand in %s" % (list(dom) if len(dom) < 12 else "%d..%d" % (dom[0], dom[-1])),
                   derived=badv[:4] or "strings", where="%s:%d" % (ff.module.replace(".", "/") + ".py" if hasattr(ff, "module") and isinstance(ff.module, str) else "", ff.node.lineno),
                   msg="the operand formatter of %s (first table: %s) fails for an operand the compiler emits (%s): every listing format aborts on such an instruction" % (
                       opn, mname.split(".")[-1], "; ".join(badv[:2])))
    rep.floor("operand formatters evaluated on their operand domains", n_fmt, 20)
    # ---------------------------------------------------------------- R1
    # printing is the *contract* of these (they print the text they are asked to show); they are reached only through name-based resolution
    contract = {"xdis.std._StdApi._print", "xdis.cross_dis.show_code"}
    nsinks = 0
    for q in sorted(seen):
        for s, what in stdout_sinks(cg, q):
            nsinks += 1
            if q in contract:
                rep.note("%s (%s): printing is its documented contract" % (q, s.where))
                continue
            path = cg.path_to(seen, q)
            rep.ob("R1", q, "stdout:%s" % ast.unparse(s.node)[:50], False, expected="no write to standard output", derived=what, where=s.where,
                   msg="%s is reachable from disassemble_file via %s" % (what, " -> ".join(path[-4:]) or root))
    for q in sorted(seen):
        if not stdout_sinks(cg, q):
            rep.ob("R1", q, "no-stdout-write", True)
    # positive control: the rule must recognise a stray print in a synthetic module
    ctl = ast.parse("def f(x, out):\n    print('dbg', x)\n    print(x, file=out)\n")
    hits = [n for n in ast.walk(ctl) if isinstance(n, ast.Call) and isinstance(n.func, ast.Name) and n.func.id == "print" and "file" not in {k.arg for k in n.keywords}]
    if len(hits) != 1:
        raise AnalysisError("positive control for R1 failed")
    # ---------------------------------------------------------------- R2 listing loop per format, decided on a scripted instruction stream
    # The decoder is replaced by a scripted list of concrete instruction records (a line start, an inline CACHE entry where the table has one, an EXTENDED_ARG prefix
    # that starts a line followed by its instruction, a SET_LINENO where the table has one, a final instruction); Instruction.disassemble is replaced by a recorder.
    # The specialiser then runs the loop concretely, whatever its form, and the sequence of rows written to the stream is compared with what the property says.
    from ..fold import BoundMethod
    B = F.modules["xdis.bytecode"].ns.get("Bytecode")
    db = B.lookup("disassemble_bytes") if isinstance(B, ClassRef) else None
    I_ = F.modules["xdis.instruction"].ns.get("Instruction")
    if not isinstance(db, FuncRef) or not isinstance(I_, ClassRef):
        raise AnalysisError("anchor vanished: xdis.bytecode.Bytecode.disassemble_bytes / xdis.instruction.Instruction")
    rfields = [a.target.id for a in I_.node.body if isinstance(a, ast.AnnAssign) and isinstance(a.target, ast.Name)]

    def rec(**kw):
        i = Instance(I_)
        for f_ in rfields:
            i.attrs[f_] = None
        i.attrs.update(has_extended_arg=False, fallthrough=True, is_jump_target=False, starts_line=None, arg=0, argval=0, argrepr="", has_arg=True, inst_size=2, optype=None)
        i.attrs.update(kw)
        return i
    for fmt in FORMATS:
        for v in ("1.5", "2.7", "3.8", "3.12"):
            opc = T.table_for_version(v)
            om = opc.ns["opmap"]
            stream = [rec(opname="LOAD_CONST", opcode=om["LOAD_CONST"], offset=0, starts_line=1)]
            if "CACHE" in om:
                stream.append(rec(opname="CACHE", opcode=om["CACHE"], offset=2))
            stream.append(rec(opname="STORE_NAME", opcode=om["STORE_NAME"], offset=4, is_jump_target=True))
            if "EXTENDED_ARG" in om:
                stream.append(rec(opname="EXTENDED_ARG", opcode=om["EXTENDED_ARG"], offset=6, starts_line=2, arg=1))
                stream.append(rec(opname="LOAD_NAME", opcode=om["LOAD_NAME"], offset=8, arg=256, has_extended_arg=True))
            if "SET_LINENO" in om:
                stream.append(rec(opname="SET_LINENO", opcode=om["SET_LINENO"], offset=10, arg=3, argval=3))
            stream.append(rec(opname="POP_TOP", opcode=om["POP_TOP"], offset=12, has_arg=False))
            stream.append(rec(opname="RETURN_VALUE", opcode=om["RETURN_VALUE"], offset=14, has_arg=False, starts_line=4))
            ANY = Sym("OPNAME", "str")
            stream.append(rec(opname=ANY, opcode=Sym("OPCODE", "int"), offset=16, has_arg=False))  # an instruction of any name: who else is left out?
            generic = []
            self_ = Instance(B)
            self_.attrs.update(opc=opc)
            sp = Spec(F, opaque_funcs={"getline", "get_docstring"})
            sp.record_classes = {"Instruction"}
            rows, srcs = [], []

            def hook(spec, name, fv, args, kw, node, rows=rows, srcs=srcs, stream=stream, generic=generic):
                if name.endswith("get_instructions_bytes"):
                    srcs.append(show(args[0]) if args else show(kw.get("bytecode")))
                    return list(stream)
                if name.endswith("Instruction.disassemble") and isinstance(fv, BoundMethod) and isinstance(fv.self, Instance):
                    a_ = fv.self.attrs
                    if not isinstance(a_.get("opname"), str):
                        generic.append((a_.get("opname"), [g_ for g_ in spec.guards if not (isinstance(g_, Op) and g_.op == "in-loop")]))
                        if os.environ.get("XV_DEBUG12"):
                            print("GENERIC", fmt, v, show(a_.get("opname"))[:200], [show(g_)[:200] for g_ in generic[-1][1]])
                        return "GENERIC;"
                    rows.append((a_.get("opname"), a_.get("offset"), a_.get("starts_line"), a_.get("is_jump_target")))
                    return "ROW%d;" % len(rows)
                return NotImplemented
            sp.hooks.append(hook)
            out = Sym("out", "obj!")
            cfg = "%s@%s" % (fmt, v)
            try:
                sp.run(db, [self_, Sym("code", "bytes")], dict(file=out, asm_format=fmt, line_starts={}, show_source=False, varnames=(), names=(), constants=(), cells=()))
            except Exception as ex:
                rep.ob("R2", db.qualname, "%s:rows" % cfg, False, expected="the listing loop runs on a scripted instruction stream", derived="not evaluable: %s" % str(ex)[:100])
                continue
            rep.configurations += 1
            written = "".join(show(e.args[1]) for k, e in flatten_effects(sp.effects) if k == "call" and str(e.args[0]).endswith("out.write"))
            order = [int(x.split(";")[0]) for x in written.split("ROW")[1:] if x.split(";")[0].isdigit()]
            # what the property asks for
            want = []
            pending_line = None
            prefix = None
            for r_ in stream[:-1]:
                a_ = r_.attrs
                if a_["opname"] == "CACHE" and fmt not in ("bytes", "extended-bytes"):
                    continue
                line = a_["starts_line"]
                if pending_line is not None:
                    line, pending_line = pending_line, None
                if a_["opname"] == "SET_LINENO":
                    pending_line = a_["argval"]
                if fmt == "asm" and a_["opname"] == "EXTENDED_ARG":
                    prefix = a_
                    continue
                off = a_["offset"]
                if prefix is not None:
                    off, prefix = prefix["offset"], None
                want.append((a_["opname"], off, line, a_["is_jump_target"]))
            strict = fmt in ("classic", "bytes")
            got_cmp = [(n_, o_, l_, t_) if strict else (n_, o_) for n_, o_, l_, t_ in rows]
            want_cmp = [(n_, o_, l_, t_) if strict else (n_, o_) for n_, o_, l_, t_ in want]
            if fmt == "extended-bytes":  # whether inline CACHE entries are shown in this format is not part of the property
                got_cmp = [x for x in got_cmp if x[0] != "CACHE"]
                want_cmp = [x for x in want_cmp if x[0] != "CACHE"]
            rep.ob("R2", db.qualname, "%s:rows" % cfg, got_cmp == want_cmp, expected=want_cmp, derived=got_cmp,
                   msg="for the scripted stream the %s listing renders %s; the property asks for %s (every instruction once, in order%s)" % (
                       fmt, got_cmp, want_cmp, ", with its own offset, line start and jump-target mark" if strict else ""))
            rep.ob("R2", db.qualname, "%s:each-row-written-once-in-order" % cfg, order == list(range(1, len(rows) + 1)), expected=list(range(1, len(rows) + 1)), derived=order,
                   msg="the rendered rows are not written to the output stream exactly once each, in order")
            # the instruction of any name: rendered exactly once for every opcode name of the table, CACHE / xasm's EXTENDED_ARG excepted
            from ..sve import eval_term as _ev
            wrong = []
            for nm_ in sorted(set(n_ for n_ in opc.ns["opname"] if isinstance(n_, str) and not n_.startswith("<"))) + ["SOME_FUTURE_OPCODE"]:
                try:
                    cnt = sum(1 for on_, gs_ in generic if repr(on_) == repr(ANY) and all(bool(_ev(g_, {repr(ANY): nm_})) for g_ in gs_))
                except Exception as ex:
                    wrong.append("%s: not evaluable (%s)" % (nm_, str(ex)[:60]))
                    break
                if nm_ == "CACHE" and fmt == "extended-bytes":
                    continue
                exp_ = 0 if (nm_ == "CACHE" and fmt != "bytes") or (fmt == "asm" and nm_ == "EXTENDED_ARG") else 1
                if cnt != exp_:
                    wrong.append("%s rendered %d time(s)" % (nm_, cnt))
            rep.ob("R2", db.qualname, "%s:every-opcode-name-rendered-once" % cfg, not wrong, expected="one row for an instruction of any name; none for CACHE (outside bytes) and xasm's EXTENDED_ARG",
                   derived=wrong[:4] or "%d names evaluated" % len(opc.ns["opname"]), msg="in the %s listing %s" % (fmt, "; ".join(wrong[:3])))
            rep.ob("R2", db.qualname, "%s:source-is-instruction-stream" % cfg, srcs == ["code"], expected="get_instructions_bytes(bytecode, ...) called once", derived=srcs[:3])

    # ---------------------------------------------------------------- R9 what the listing row of an instruction shows (per table, through Bytecode.dis)
    listing_row_rule(rep, T, F, B)
    # ---------------------------------------------------------------- R3 what Instruction.disassemble renders, decided on the folded text
    I = F.modules["xdis.instruction"].ns.get("Instruction")
    dis = I.lookup("disassemble") if isinstance(I, ClassRef) else None
    if not isinstance(dis, FuncRef):
        raise AnalysisError("anchor vanished: xdis.instruction.Instruction.disassemble")
    rep.analysed(dis.qualname)
    from ..fold import FoldError as _FE, PyExc as _PE
    ifields = [a.target.id for a in I.node.body if isinstance(a, ast.AnnAssign) and isinstance(a.target, ast.Name)]

    def record(opc, **kw):
        i = Instance(I)
        for f_ in ifields:
            i.attrs[f_] = None
        i.attrs.update(has_extended_arg=False, fallthrough=True, is_jump_target=False, starts_line=None)
        i.attrs.update(kw)
        return i
    for vs in ("2.7", "3.8", "3.12"):
        opc = T.table_for_version(vs)
        om = opc.ns["opmap"]
        wide = tuple(opc.ns["version_tuple"][:2]) >= (3, 6)
        samples = [
            ("LOAD_CONST", dict(opcode=om["LOAD_CONST"], opname="LOAD_CONST", arg=1, argval="xyz", argrepr="'xyz'", optype="const", has_arg=True, inst_size=2 if wide else 3), "'xyz'"),
            ("POP_TOP", dict(opcode=om["POP_TOP"], opname="POP_TOP", arg=None if not wide else 0, argval=None, argrepr="", optype=None, has_arg=False, inst_size=2 if wide else 1), None),
            ("JUMP_FORWARD", dict(opcode=om["JUMP_FORWARD"], opname="JUMP_FORWARD", arg=4, argval=1250, argrepr="to 1250", optype="jrel", has_arg=True, inst_size=2 if wide else 3), "1250"),
        ]
        for fmt in ("classic", "bytes"):
            for sname, fields_, operand in samples:
                bad = []
                try:
                    def row(off, line, tgt):
                        return F.apply(dis, [record(opc, offset=off, starts_line=line, is_jump_target=tgt, **fields_), opc, {}, 3, False, fmt, []], {})
                    a_, b_, c_, d_ = row(10, None, False), row(1234, None, False), row(10, 777, False), row(10, None, True)
                    if not all(isinstance(t_, str) for t_ in (a_, b_, c_, d_)):
                        raise _FE("not a string")
                    if "10" not in a_.split() or "1234" not in b_.split() or "1234" in a_.split():
                        bad.append("offset column: %r / %r" % (a_, b_))
                    if sname not in a_.split():
                        bad.append("opcode name missing: %r" % a_)
                    if operand and operand not in a_:
                        bad.append("operand text %s missing: %r" % (operand, a_))
                    if "777" not in c_ or "777" in a_:
                        bad.append("line column: starts line 777 -> %r, starts no line -> %r" % (c_, a_))
                    if ">>" not in d_ or ">>" in a_:
                        bad.append("'>>' mark: jump target -> %r, other -> %r" % (d_, a_))
                except (_PE, _FE) as ex:
                    bad.append("not evaluable: %s" % str(ex)[:80])
                rep.ob("R3", dis.qualname, "%s@%s:%s:row" % (fmt, vs, sname), not bad, expected="offset, opcode name, operand, '>>' iff jump target, line number iff it starts a line",
                       derived=bad[:3] or "as expected", msg="; ".join(bad[:2]))

    # ---------------------------------------------------------------- R4 formats
    pm = repo.modules.get("xdis.bin.pydisasm")
    if pm is None:
        raise AnalysisError("anchor vanished: xdis.bin.pydisasm")
    choices = None
    for n in ast.walk(pm.tree):
        if isinstance(n, ast.Call) and ast.unparse(n.func).endswith("Choice") and n.args and isinstance(n.args[0], (ast.List, ast.Tuple)):
            choices = [c.value for c in n.args[0].elts if isinstance(c, ast.Constant)]
    if not choices:
        raise AnalysisError("anchor vanished: click.Choice([...]) of format names in pydisasm")
    compared = set()
    for q in seen:
        m, fn = repo.functions[q]
        for n in ast.walk(fn):
            if isinstance(n, ast.Compare):
                names = [x for x in [n.left] + n.comparators if isinstance(x, ast.Name) and x.id in ("asm_format", "format")]
                if names:
                    for x in [n.left] + n.comparators:
                        for c in ast.walk(x):
                            if isinstance(c, ast.Constant) and isinstance(c.value, str):
                                compared.add(c.value)
    for ch in choices:
        ok = ch == "classic" or ch in compared or (ch == "xasm" and "xasm" in compared)
        rep.ob("R4", "xdis.bin.pydisasm.main", "format:%s" % ch, ok, expected="compared with asm_format somewhere reachable", derived=sorted(compared))
    stray = sorted(c for c in compared if c not in choices and c not in ("asm", "dis"))
    for s_ in stray:
        rep.note("format literal %r is compared with asm_format but is not a format pydisasm accepts (dead branch?)" % s_)
    # ---------------------------------------------------------------- R6 operand walk of the extended formatters
    operand_walk_rule(rep, repo)
    # ---------------------------------------------------------------- R5 the decoded records (shared engine with C02/C03/C04)
    from . import dis_rules
    dis_rules.restate_decoder(rep, T, "R5", tier)
    rep.extra["stdout_sink_sites_reachable"] = nsinks
    rep.extra["unresolved_calls"] = len(cg.unresolved)
    rep.assumptions = ["call resolution by the binding rules of xv/callgraph.py; unresolved attribute calls on container/stream method names are external",
                       "totality of the stack-simulating extended formatter (index/shape errors) is data-dependent and not decided; text equality with dis is not compared"]
