"""C13 -- a bytecode file read and written back is the same program for its Python (DESIGN.md section 4, C13).

 R1 the portable code marshallers (dump_code2 / dump_code3) write, for every class they accept and every version that class
    serves, exactly the field sequence and widths of that version's code-object layout (= what the reader of C01-R4 reads)
 R2 write_bytecode_file writes, per magic, the header layout that load_module reads for that magic (C06)
 R3 dispatch: a portable class is sent to a writer whose layout is that class's layout, or the writer raises; a class with
    fields the writer never emits (Code311) must not be accepted
 R4 the chunk assembly of dumps() turns every chunk the writers produce into the same bytes"""
import ast
import struct

from ..fold import ClassRef, FuncRef, Instance
from ..loadmod import magic_bytes
from ..report import AnalysisError
from ..repo import get_repo
from ..sve import (Fall, Guard, Op, Raise, Ret, Spec, Sym, flatten_effects, leaves, show)
from ..tables import ref_json, tables
from .c06 import expected_layout, release_magics
from .c14 import classify_write

SERVES = {"Code2": [(2, 1), (2, 2), (2, 3), (2, 4), (2, 5), (2, 6), (2, 7)], "Code3": [(3, 0), (3, 1), (3, 2), (3, 3), (3, 4), (3, 5), (3, 6), (3, 7)],
          "Code38": [(3, 8), (3, 9)], "Code310": [(3, 10)], "Code311": [(3, 11), (3, 12), (3, 13)], "Code15": [(1, 5), (1, 6), (2, 0)], "Code13": [(1, 0), (1, 1), (1, 2), (1, 3), (1, 4)]}
CLASSMOD = {"Code13": "xdis.codetype.code13", "Code15": "xdis.codetype.code15", "Code2": "xdis.codetype.code20", "Code3": "xdis.codetype.code30",
            "Code38": "xdis.codetype.code38", "Code310": "xdis.codetype.code310", "Code311": "xdis.codetype.code311"}
FIELD_ATTR = {"argcount": "co_argcount", "posonlyargcount": "co_posonlyargcount", "kwonlyargcount": "co_kwonlyargcount", "nlocals": "co_nlocals", "stacksize": "co_stacksize",
              "flags": "co_flags", "code": "co_code", "consts": "co_consts", "names": "co_names", "varnames": "co_varnames", "freevars": "co_freevars", "cellvars": "co_cellvars",
              "filename": "co_filename", "name": "co_name", "qualname": "co_qualname", "firstlineno": "co_firstlineno", "exceptiontable": "co_exceptiontable",
              "localsplusnames": "co_localsplusnames", "localspluskinds": "co_localspluskinds"}
ATTRS = ["co_argcount", "co_posonlyargcount", "co_kwonlyargcount", "co_nlocals", "co_stacksize", "co_flags", "co_code", "co_consts", "co_names", "co_varnames",
         "co_freevars", "co_cellvars", "co_filename", "co_name", "co_qualname", "co_firstlineno", "co_lnotab", "co_linetable", "co_exceptiontable"]


def instance_of(F, cname):
    C = F.modules[CLASSMOD[cname]].ns.get(cname)
    if not isinstance(C, ClassRef):
        raise AnalysisError("anchor vanished: %s.%s" % (CLASSMOD[cname], cname))
    inst = Instance(C)
    # attributes the class's __init__ chain defines
    defined = set()
    for k in C.mro():
        init = k.ns.get("__init__")
        if isinstance(init, FuncRef):
            for n in ast.walk(init.node):
                if isinstance(n, ast.Attribute) and isinstance(n.ctx, ast.Store) and isinstance(n.value, ast.Name) and n.value.id == "self":
                    defined.add(n.attr)
    for a in ATTRS:
        if a in defined:
            inst.attrs[a] = Sym("x." + a, "tuple" if a in ("co_names", "co_varnames", "co_freevars", "cellvars") else None)
    return inst, C


class _Cond(list):
    """field list whose append() marks an entry written under a data-dependent guard"""
    cond = ()

    def append(self, item):
        if self.cond:
            item = ("%s?[%s]" % (item[0], self.cond[0][:60]), item[1])
        list.append(self, item)


def field_sequence(sp):
    """ordered [(attr name, 'w32'|'w16'|'obj')] written by a code marshaller"""
    out = _Cond()
    from .c14 import merge_chr_writes
    for k, e, _ in merge_chr_writes(flatten_effects(sp.effects)):
        # a field written only when a *value* of the object satisfies some test is a different layout for some objects
        out.cond = [show(g) for g in (e.guards or ()) if "x.co_" in show(g) and not show(g).startswith("in-loop")]
        if k == "call" and str(e.args[0]) == "WRITE":
            c = classify_write(e.args[1][0])
            if c[0] in ("le32", "le16") and isinstance(c[1], Sym) and c[1].name.startswith("x.co_"):
                out.append((c[1].name[2:], "w32" if c[0] == "le32" else "w16"))
            elif c[0] == "value" and isinstance(c[1], Sym) and c[1].name.startswith("x.co_"):
                if not out or out[-1] != (c[1].name[2:], "obj"):
                    out.append((c[1].name[2:], "obj"))
            elif c[0] == "le32" and isinstance(c[1], Op) and c[1].op == "len":
                inner = c[1].args[0]
                if isinstance(inner, Sym) and inner.name.startswith("x.co_") and (not out or out[-1] != (inner.name[2:], "obj")):
                    out.append((inner.name[2:], "obj"))
        elif k == "call" and str(e.args[0]).endswith("_Marshaller.dump"):
            a = e.args[1][1] if len(e.args[1]) > 1 else None
            if isinstance(a, Sym) and a.name.startswith("x.co_"):
                if not out or out[-1] != (a.name[2:], "obj"):
                    out.append((a.name[2:], "obj"))
            elif isinstance(a, Guard):
                names = sorted(set(x.name[2:] for x in (a.a, a.b) if isinstance(x, Sym)))
                out.append(("|".join(names), "obj"))
    return out


def run(rep, tier):
    rep.explanation = ("specialisation of the portable code marshallers per accepted class (symbolic field values, byte sink uninterpreted), of the type dispatch per "
                       "portable class, and of write_bytecode_file per magic: emitted field sequence / header trace compared with the per-version layouts that the "
                       "reader is checked against in C01 and C06")
    rep.rule("R1", "dump_code2/dump_code3 emit the field sequence and widths of the code-object layout of every version the accepted class serves")
    rep.rule("R2", "write_bytecode_file writes the header layout load_module reads for the same magic (magic bytes, PEP 552 flag word, timestamp, source size)")
    rep.rule("R3", "each portable class is dispatched to a writer that emits its layout, or raises; classes whose fields the writer never emits are refused")
    rep.rule("R6", "a Python 2 code object is written with all identifier fields (names, varnames, freevars, cellvars, filename, name) as TYPE_STRING")
    rep.rule("R7", "for a Python 2 target a plain str constant is written as TYPE_STRING and an integer that fits 32 bits as TYPE_INT (Python 2 distinguishes str/unicode and int/long)")
    rep.rule("R5", "the reading half of the round trip: every obligation of the unmarshaller (C01 rules: per-type layouts and kinds, unpack formats, "
                   "reference table, t_code field sequence and bindings, bytes-vs-text, fields kept by the portable classes) holds")
    rep.rule("R8", "the writers of the constants a code object carries (None, bool, int, float, complex, bytes, text, tuple, list, set, frozenset, dict) emit marshal's "
                   "type codes and payload layouts: C14's writer rules R1-R3 and R9, restated")
    rep.rule("R4", "dumps() converts str chunks byte-for-byte (one byte per char) and passes bytes chunks through unchanged")
    T = tables()
    F = T.F
    mm = F.modules.get("xdis.marsh")
    M = mm.ns.get("_Marshaller") if mm else None
    if not isinstance(M, ClassRef):
        raise AnalysisError("anchor vanished: xdis.marsh._Marshaller")
    lay = ref_json("code_layout.json")["layouts"]
    # ---------------------------------------------------------------- R3 dispatch per class
    accepted = {}
    for cname in ("Code13", "Code15", "Code2", "Code3", "Code38", "Code310", "Code311"):
        inst, C = instance_of(F, cname)
        chosen = []

        def hook(spec, name, fv, args, kw, node):
            if name.endswith("._Marshaller.dump_code2") or name.endswith("._Marshaller.dump_code3"):
                chosen.append(name.split(".")[-1])
                return None
            return NotImplemented
        sp = Spec(F, hooks=[hook])
        me = Instance(M)
        me.attrs.update(_write=Sym("WRITE"), python_version=SERVES[cname][-1])
        out = sp.run(M.lookup("dump"), [me, inst])
        raised = [l for g, l in leaves(out) if isinstance(l, Raise)]
        accepted[cname] = chosen[0] if chosen else None
        rep.analysed("xdis.marsh._Marshaller.dump")
        if cname == "Code311" and not chosen:
            rep.ob("R3", "xdis.marsh._Marshaller.dump", "Code311:refused", bool(raised), expected="raises: the 3.0-3.10 writers cannot represent a 3.11+ code object", derived="raises" if raised else "falls through")
        if cname in ("Code13", "Code15"):
            rep.ob("R3", "xdis.marsh._Marshaller.dump", "%s:refused" % cname, not chosen and bool(raised), expected="raises (no writer for 1.x layouts)", derived=chosen or "raises")
    # ---------------------------------------------------------------- R1 writer layout per class/version
    for cname, writer in sorted(accepted.items()):
        if writer is None:
            continue
        inst, C = instance_of(F, cname)
        w = M.lookup(writer)
        rep.analysed(w.qualname)
        groups = {}
        for v in SERVES[cname]:
            # the writer is specialised for each version the class serves (it may consult python_version)
            me = Instance(M)
            me.attrs.update(_write=Sym("WRITE"), python_version=v)
            sp = Spec(F, opaque_funcs={"xdis.marsh._Marshaller.dump"})
            sp.run(w, [me, inst])
            seq = field_sequence(sp)
            want = []
            for fname, kind in lay["%d.%d" % v]:
                if fname == "linetable":
                    a = "co_linetable" if "co_linetable" in inst.attrs else "co_lnotab"
                else:
                    a = FIELD_ATTR[fname]
                want.append((a, "obj" if kind == "obj" else ("w32" if kind == "<i" else "w16")))
            got = [(a.split("|")[0] if "|" in a and a.split("|")[0] in inst.attrs else a, k) for a, k in seq]
            # a hasattr-selected line table shows as a guarded choice; the instance has exactly one of them
            got = [((("co_linetable" if "co_linetable" in inst.attrs else "co_lnotab") if "co_l" in a and "|" in a else a), k) for a, k in got]
            ok = got == want
            groups.setdefault((ok, repr(want), repr(got)), []).append(v)
        for (ok, want, got), vs in groups.items():
            lab = "%d.%d" % vs[0] if len(vs) == 1 else "%d.%d-%d.%d" % (vs[0] + vs[-1])
            if ok:
                rep.ob("R1", w.qualname, "%s:layout@%s" % (cname, lab), True, expected=want[:120], derived="equal")
            else:
                dropped = cname == "Code311"
                rule = "R3" if dropped else "R1"
                rep.ob(rule, w.qualname, "%s:layout@%s" % (cname, lab), False, expected=want, derived=got,
                       msg=("%s objects are accepted by %s, which writes the 3.0-3.10 field layout: qualname, exception table and localsplus are never emitted and the "
                            "target interpreter rejects the file (bad marshal data); the writer must raise instead" % (cname, writer)) if dropped else
                           ("%s serves %s but %s writes a different field sequence/width than that version's marshal format" % (cname, lab, writer)))
    # ---------------------------------------------------------------- R2 header writer per magic
    f = F.modules["xdis.load"].ns.get("write_bytecode_file")
    if not isinstance(f, FuncRef):
        raise AnalysisError("anchor vanished: xdis.load.write_bytecode_file")
    rep.analysed(f.qualname)
    reg = ref_json("magic_registry.json")
    rel = release_magics(reg)
    m2v = T.magics["magicint2version"]
    f_t = F.modules["xdis.magics"].ns["magic_int2tuple"]
    n_hdr = 0
    for mg in sorted(m2v):
        if mg not in rel or mg in (39170, 39171, 11913, 5892):
            continue
        try:
            version = F.apply(f_t, [mg], {})
        except Exception:
            continue
        if tuple(version[:2]) < (1, 5):
            continue
        n_hdr += 1
        out_s = Sym("out", "stream")
        # distinctive concrete values: the header is compared as one byte string, so it does not matter how the writes are split, ordered into
        # temporaries or shared between version branches
        ts, size = 0x11223344, 0x55667788

        def hook(spec, name, fv, args, kw, node):
            if name == "builtin-open" or (fv is None):
                return out_s
            if name == "isinstance" and len(args) == 2 and isinstance(args[0], Sym) and args[0].name == "code_obj":
                return False
            if name == "isinstance" and len(args) == 2 and isinstance(args[0], int) and not isinstance(args[1], (type, tuple)):
                return False  # the timestamp is a plain int, not an instance of the (opaque) datetime class
            if name.endswith("marsh.dumps"):
                spec.effect("dumps", args[0], node=node)
                told.append(kw.get("python_version", args[2] if len(args) > 2 else "<not passed: the host's version>"))
                return Sym("payload", "bytes")
            return NotImplemented
        told = []
        sp = Spec(F, hooks=[hook])
        sp.run(f, [Sym("path", "str"), Sym("code_obj"), mg], {"compilation_ts": ts, "filesize": size})
        okv = len(told) == 1 and isinstance(told[0], tuple) and tuple(told[0][:2]) == tuple(version[:2])
        rep.ob("R2", f.qualname, "magic=%d:marshaller-told-target-version" % mg, okv, expected=list(version[:2]), derived=[show(t_) for t_ in told],
               msg="write_bytecode_file(magic %d) does not hand Python %d.%d to xdis.marsh.dumps: the marshaller then writes for the host's version" % (mg, version[0], version[1]))
        import struct as _struct
        stream, cond_writes = [], []
        for k, e in flatten_effects(sp.effects):
            if k != "stream.write":
                continue
            if e.guards:
                cond_writes.append(show(e.guards[0])[:60])
            a = e.args[1][0]
            if isinstance(a, (bytes, bytearray)):
                piece = bytes(a)
            elif isinstance(a, Op) and a.op == "call" and a.args[0] == "pack" and all(isinstance(x, (int, bytes, str)) for x in a.args[1:]):
                try:
                    piece = _struct.pack(*a.args[1:])
                except Exception as ex:
                    piece = "<pack%r: %s>" % (a.args[1:], ex)
            elif isinstance(a, Sym) and a.name == "payload":
                piece = "<payload>"
            else:
                piece = "<%s>" % show(a)[:60]
            if stream and isinstance(piece, bytes) and isinstance(stream[-1], bytes):
                stream[-1] += piece
            else:
                stream.append(piece)
        layout = expected_layout(mg, version)
        head = magic_bytes(mg)
        if layout == "pep552":
            head += b"\x00\x00\x00\x00"
        head += _struct.pack("<I", ts)
        if layout in ("ts_size", "pep552"):
            head += _struct.pack("<I", size)
        want = [head, "<payload>"]
        rep.ob("R2", f.qualname, "magic=%d:header" % mg, stream == want and not cond_writes, expected=[w_.hex() if isinstance(w_, bytes) else w_ for w_ in want],
               derived=[d_.hex() if isinstance(d_, bytes) else d_ for d_ in stream] + cond_writes[:2],
               msg="write_bytecode_file(magic %d, timestamp 0x11223344, source size 0x55667788) writes a header that load_module (and Python %d.%d) reads differently" % (mg, version[0], version[1]))
    rep.floor("header configurations", n_hdr, 20)
    # ---------------------------------------------------------------- R4 chunk assembly of dumps()
    d = mm.ns.get("dumps")
    if not isinstance(d, FuncRef):
        raise AnalysisError("anchor vanished: xdis.marsh.dumps")
    rep.analysed(d.qualname)
    # the marshaller is replaced by a stub that hands five known chunks (text with ordinals < 256, bytes incl. 0x00/0x80/0xff, an empty chunk) to the sink
    # dumps() gave it; the rest of dumps() is folded: the result must be those chunks, one byte per character, in order
    CH = ["a{", b"\xff\x00\x80", "\xe9\x7f", b"", "z"]
    want_b = b"".join(c if isinstance(c, bytes) else bytes(ord(ch) for ch in c) for c in CH)
    for pv in ((3, 8), (3, 12, 1), (2, 7), (1, 5), None):
        st = {}

        def hook4(spec, name, fv, args, kw, node, st=st):
            if name.endswith("marsh._Marshaller"):
                st["w"] = args[0] if args else kw.get("writefunc")
                st["told"] = kw.get("python_version", args[1] if len(args) > 1 else None)
                return Instance(M)
            if name.endswith("_Marshaller.dump"):
                w = st.get("w")
                for c in CH:
                    if callable(w):
                        w(c)
                    else:
                        spec.call(w, [c], {}, node, {})
                return None
            return NotImplemented
        sp4 = Spec(F, hooks=[hook4])
        try:
            o4 = sp4.run(d, [Sym("x")], {"python_version": pv})
            got4 = [getattr(l, "value", None) if isinstance(l, Ret) else "raises/falls: %s" % type(l).__name__ for g_, l in leaves(o4)]
        except Exception as ex:
            got4 = ["not evaluable: %s" % ex]
        rep.ob("R4", d.qualname, "chunks-joined-byte-per-char@target=%s" % (".".join(map(str, pv[:2])) if pv else "None"), got4 == [want_b], expected=repr(want_b),
               derived=[show(v_)[:80] for v_ in got4],
               msg="dumps(x, python_version=%r) does not return the marshaller's chunks byte for byte (text chunks one byte per character, bytes chunks unchanged, in order)" % (pv,))
    # ---------------------------------------------------------------- R6 / R7 Python 2 targets: text and integer kinds
    from .c14 import writer_trace
    Mcls = F.modules["xdis.marsh"].ns.get("_Marshaller")
    inst2, C2 = instance_of(F, "Code2")
    tr, _, _ = writer_trace(T, Mcls, "dump_code2", inst2, pyver=(2, 7))
    IDENT = ("co_names", "co_varnames", "co_freevars", "co_cellvars", "co_filename", "co_name")
    generic = []
    for kind, arg, g in tr:
        if kind == "dump" and isinstance(arg, Sym) and arg.name.startswith("x.") and arg.name[2:] in IDENT:
            generic.append(arg.name[2:])
    dc2 = Mcls.lookup("dump_code2")
    rep.ob("R6", dc2.qualname, "py2-identifier-fields-are-strings", not generic, expected="names, varnames, freevars, cellvars, filename, name written with dump_string (TYPE_STRING)",
           derived=generic or "all through dump_string", where="xdis/marsh.py:%d" % dc2.node.lineno,
           msg="%s of a Python 2 code object go(es) through the generic dump(), which writes a host str as TYPE_UNICODE: Python 2 refuses such a code object "
               "('non-string found in code slot' aborts 2.7)" % ", ".join(generic))
    # what a Python 2 target needs for the two constant kinds that Python 3 merged: text (str vs unicode) and integers (int vs long).
    # The generic dump() is specialised for a concrete value of each kind with python_version (2, 7); the writer it reaches decides the type code.
    dmp = Mcls.lookup("dump")
    for tn, val, want_w, meth_want in (("str", "abc", ("dump_string",), "TYPE_STRING ('s') for a plain str constant"),
                                       ("int", 5, ("dump_int",), "TYPE_INT ('i') for an integer that fits 32 bits")):
        reached = []

        def hook7(spec, name, fv, args, kw, node):
            base = name.split(".")[-1]
            if base.startswith("dump_") and name.startswith("xdis.marsh._Marshaller."):
                reached.append(base)
                return None
            return NotImplemented
        me7 = Instance(Mcls)
        me7.attrs.update(_write=Sym("WRITE"), python_version=(2, 7))
        sp7 = Spec(F, hooks=[hook7])
        sp7.run(dmp, [me7, val])
        okk = reached[:1] in [[w_] for w_ in want_w]
        rep.ob("R7", dmp.qualname, "py2-target:%s-writer" % tn, okk, expected=meth_want, derived=reached[:2],
               msg="written for a Python 2 target, a %s constant goes to %s: Python 2 loads %s, so the rewritten file is a different program" % (
                   tn, reached[:1], "a unicode object (u'...')" if tn == "str" else "a long (5L)"))
    # what the unmarshaller produced for the *other* member of each Python 2 pair (a str subclass carrying a u'...' literal, an int subclass carrying a
    # long) must keep its kind: the generic dump() is specialised for an instance of each wrapper class
    ct = F.modules.get("xdis.cross_types")
    for cname, arg, want_w, what in (("UnicodeForPython3", b"k", "dump_unicode", "a u'...' literal (TYPE_UNICODE)"), ("LongTypeForPython3", 5, "dump_long", "a long such as 5L (TYPE_LONG)")):
        Cw = ct.ns.get(cname) if ct else None
        if not isinstance(Cw, ClassRef):
            raise AnalysisError("anchor vanished: xdis.cross_types.%s" % cname)
        for pv in ((2, 7), (2, 4)):
            reached = []

            def hook7w(spec, name, fv, args, kw, node, reached=reached):
                base = name.split(".")[-1]
                if base.startswith("dump_") and name.startswith("xdis.marsh._Marshaller."):
                    reached.append(base)
                    return None
                return NotImplemented
            sp7 = Spec(F, hooks=[hook7w])
            try:
                val = sp7.call(Cw, [arg], {}, None, {})
                me7 = Instance(Mcls)
                me7.attrs.update(_write=Sym("WRITE"), python_version=pv)
                sp7.run(dmp, [me7, val])
            except Exception as ex:
                reached.append("not evaluable: %s" % ex)
            rep.ob("R7", dmp.qualname, "py2-target=%d.%d:%s-writer" % (pv[0], pv[1], cname), reached[:1] == [want_w], expected="%s for %s" % (want_w, what), derived=reached[:2],
                   msg="written for a Python %d.%d target, %s read from the original file goes to %s: the rewritten program has a constant of the other kind" % (pv[0], pv[1], what, reached[:1]))
    # the Python 2 machine-int writer: TYPE_INT exactly for values that fit 32 bits, TYPE_INT64 (two 32-bit halves) otherwise
    di = Mcls.lookup("dump_int")
    if not isinstance(di, FuncRef):
        raise AnalysisError("anchor vanished: xdis.marsh._Marshaller.dump_int")
    from ..sve import eval_term as _ev
    xi = Sym("x", "int")
    tr, out_di, sp_di = writer_trace(T, Mcls, "dump_int", xi, pyver=(2, 7))
    firsts = [(a, g) for kind, a, g in tr if kind == "write" and a[0] in ("ascii", "bytes-literal")]
    bad_i = []
    for val in (-2 ** 63, -2 ** 40, -2 ** 31 - 1, -2 ** 31, -1, 0, 1, 2 ** 31 - 1, 2 ** 31, 2 ** 40, 2 ** 63 - 1):
        try:
            codes_ = [a[1] for a, g in firsts if all(_ev(c, {repr(xi): val}) for c in g)]
        except Exception as ex:
            bad_i.append("not evaluable: %s" % ex)
            break
        want_c = "i" if -2 ** 31 <= val < 2 ** 31 else "I"
        if codes_[:1] != [want_c]:
            bad_i.append("%d -> %s (expected %r)" % (val, codes_[:1], want_c))
    rep.ob("R7", di.qualname, "py2-target:int-width", not bad_i, expected="'i' for -2**31 <= x < 2**31, 'I' otherwise", derived=bad_i[:4] or "11 boundary values agree",
           msg="a Python 2 machine int is written with the wrong width: %s (a 4-byte TYPE_INT keeps only the low 32 bits)" % "; ".join(bad_i[:3]))
    # ---------------------------------------------------------------- R5 the reader (shared engine with C01 / C10)
    from ..report import SubReport, merge_sub
    from . import c01
    sub = SubReport("C01", tier=tier)
    c01.run(sub, tier)
    merge_sub(rep, sub, "R5", "C01")
    rep.configurations += sub.configurations
    # ---------------------------------------------------------------- R8 the constant writers (shared with C14)
    from . import c14
    sub14 = SubReport("C14", tier=tier)
    c14.run(sub14, tier)
    merge_sub(rep, sub14, "R8", "C14", only_rules=("R1", "R2", "R3", "R9"))
    rep.assumptions = ["reference/code_layout.json and pyc_header.json as in C01/C06", "class -> served versions as selected by codeType2Portable",
                       "equality of executed behaviour, the round trip of constants' values and the py2 str/unicode distinction lost at read time are not decided"]
