"""C14 -- xdis.marsh and the built-in marshal are interchangeable on plain values (DESIGN.md section 4, C14).

 R1 the TYPE_* constants equal marshal.c's codes (and agree by role with unmarshal.UNMARSHAL_DISPATCH_TABLE)
 R2 every writer registered under a plain Python type emits: type byte, then the payload layout of that type code
 R3 text/bytes discipline: what reaches the byte sink is bytes, or text made only of chr(x & 0xFF) / ASCII literals / repr() of a
    number; a text payload is utf-8 *encoded* before its length is taken
 R4 every fast-reader function reads its type's layout; 32/16-bit readers assemble little-endian and sign-extend from the top bit"""
from ..fold import ClassRef, FuncRef, Instance
from ..report import AnalysisError
from ..sve import (Fall, Guard, Lin, Op, Raise, Ret, Spec, Sym, flatten_effects, leaves, show)
from ..tables import ref_json, tables

NAME2CONST = {"NULL": "TYPE_NULL", "None": "TYPE_NONE", "False": "TYPE_FALSE", "True": "TYPE_TRUE", "StopIteration": "TYPE_STOPITER", "Ellipsis": "TYPE_ELLIPSIS",
              "INT": "TYPE_INT", "INT64": "TYPE_INT64", "LONG": "TYPE_LONG", "FLOAT": "TYPE_FLOAT", "BINARY_FLOAT": "TYPE_BINARY_FLOAT", "COMPLEX": "TYPE_COMPLEX",
              "BINARY_COMPLEX": "TYPE_BINARY_COMPLEX", "STRING": "TYPE_STRING", "INTERNED": "TYPE_INTERNED", "STRINGREF": "TYPE_STRINGREF", "UNICODE": "TYPE_UNICODE",
              "ASCII": "TYPE_ASCII", "ASCII_INTERNED": "TYPE_ASCII_INTERNED", "SHORT_ASCII": "TYPE_SHORT_ASCII", "SHORT_ASCII_INTERNED": "TYPE_SHORT_ASCII_INTERNED",
              "TUPLE": "TYPE_TUPLE", "SMALL_TUPLE": "TYPE_SMALL_TUPLE", "LIST": "TYPE_LIST", "DICT": "TYPE_DICT", "SET": "TYPE_SET", "FROZENSET": "TYPE_FROZENSET",
              "CODE": "TYPE_CODE", "CODE_OLD": "TYPE_CODE_OLD", "REF": "TYPE_REF"}

# plain Python type -> (symbol kind of the value, expected type code, payload description)
PLAIN = [
    (type(None), None, "N", []), (bool, "bool", "T|F", []), (type(Ellipsis), None, ".", []),
    (int, "int", "l", ["i32 digit-count*sign", "u16 digits (15 bit)"]), (float, "float", "f|g", ["u8 n", "text[n]"]), (complex, "complex", "x|y", []),
    (bytes, "bytes", "s", ["i32 len", "bytes"]), (str, "str", "u", ["i32 len(utf8)", "utf8"]), (tuple, "tuple", "(", ["i32 n", "items"]),
    (list, "list", "[", ["i32 n", "items"]), (dict, "dict", "{", ["key value ... NULL"]), (set, "set", "<", ["i32 n", "items"]), (frozenset, "frozenset", ">", ["i32 n", "items"]),
]


def le_bytes_of(term):
    """if `term` is chr(bits(t,0,8)) + chr(bits(t,8,8)) + ... return (t, nbytes)"""
    parts = []

    def flat(x):
        if isinstance(x, Op) and x.op == "concat":
            for a in x.args:
                flat(a)
        else:
            parts.append(x)
    flat(term)
    t = None
    for k, p in enumerate(parts):
        if not (isinstance(p, Op) and p.op == "call" and p.args and p.args[0] == "chr" and len(p.args) == 2):
            return None
        b = p.args[1]
        if isinstance(b, Guard):
            return ("guarded", len(parts))
        if not (isinstance(b, Op) and b.op == "bits" and b.args[1] == 8 * k and b.args[2] == 8):
            return None
        if t is None:
            t = b.args[0]
        elif repr(b.args[0]) != repr(t):
            return None
    return (t, len(parts))


def classify_write(arg):
    if isinstance(arg, str):
        if all(ord(c) < 128 for c in arg):
            return ("ascii", arg)
        return ("text-literal", arg)
    if isinstance(arg, (bytes, bytearray)):
        return ("bytes-literal", bytes(arg))
    le = le_bytes_of(arg)
    if le is not None:
        return ("le%d" % (8 * le[1]), le[0])
    if isinstance(arg, Op) and arg.op == "call" and arg.args and arg.args[0] == "chr":
        return ("u8", arg.args[1])
    if isinstance(arg, Op) and arg.op == "call" and arg.args and arg.args[0] == "repr":
        return ("repr", arg.args[1])
    if isinstance(arg, Op) and arg.op == "call" and isinstance(arg.args[0], Op) and arg.args[0].op == "attr" and arg.args[0].args[1] == "encode":
        return ("encoded", arg.args[0].args[0], tuple(arg.args[1:]))
    if isinstance(arg, Op) and arg.op == "call" and arg.args and arg.args[0] == "pack":
        return ("packed", arg.args[1], arg.args[2:])
    if isinstance(arg, Sym):
        return ("value", arg)
    return ("other", arg)


def merge_chr_writes(flat):
    """merge runs of single-character writes (w_short writes its two bytes separately) into one concatenation: [(kind, effect, is_chr)]"""
    from ..sve import Effect
    merged = []
    for k, e in flat:
        is_chr = k == "call" and str(e.args[0]) == "WRITE" and isinstance(e.args[1][0], Op) and e.args[1][0].op == "call" and e.args[1][0].args[0] == "chr"
        cont = False
        if is_chr and merged and merged[-1][2] and repr(merged[-1][1].guards) == repr(e.guards):
            # only bytes of the *same* value continue a group: chr(bits(t, 8k, 8)) after k bytes of t
            prev_le = le_bytes_of(merged[-1][1].args[1][0])
            b = e.args[1][0].args[1]
            cont = prev_le is not None and not isinstance(prev_le[0], str) and isinstance(b, Op) and b.op == "bits" and b.args[2] == 8 and b.args[1] == 8 * prev_le[1] \
                and repr(b.args[0]) == repr(prev_le[0])
        if cont:
            prev = merged[-1][1]
            cat = Op("concat", prev.args[1][0], e.args[1][0])
            ne = Effect("call", (prev.args[0], (cat,), prev.args[2]), prev.guards, prev.line, prev.fn)
            merged[-1] = (k, ne, True)
        else:
            merged.append((k, e, is_chr))
    return merged


def writer_trace(T, M, meth, x, pyver=(3, 8)):
    sp = Spec(T.F, opaque_funcs={"xdis.marsh._Marshaller.dump"})
    if isinstance(x, Sym) and x.kind == "str":
        # a plain str (the property's domain) has no attribute `value`; the writer's branch for the unmarshaller's py2-unicode wrapper is not taken
        sp.assume[repr(Op("hasattr", x, "value"))] = False
    me = Instance(M)
    me.attrs.update(_write=Sym("WRITE"), python_version=pyver)
    out = sp.run(M.lookup(meth), [me, x])
    trace = []
    depth = 0
    merged = merge_chr_writes(flatten_effects(sp.effects))
    for k, e, _ in merged:
        if k == "loop-begin":
            depth += 1
            trace.append(("loop[", e.args[3].cond, e.guards))
        elif k == "loop-end":
            depth -= 1
            trace.append(("]", None, ()))
        elif k == "call" and str(e.args[0]) == "WRITE":
            # one write of a conditional value is two conditional writes (write(A if c else B)  ==  if c: write(A) else: write(B))
            from ..sve import neg as _neg

            def arms_(v, conds):
                if isinstance(v, Guard):
                    return arms_(v.a, conds + (v.cond,)) + arms_(v.b, conds + (_neg(v.cond),))
                return [(conds, v)]
            for conds_, v_ in arms_(e.args[1][0], ()):
                trace.append(("write", classify_write(v_), tuple(e.guards or ()) + conds_))
        elif k == "call" and str(e.args[0]).endswith("_Marshaller.dump"):
            trace.append(("dump", e.args[1][1] if len(e.args[1]) > 1 else None, e.guards))
    return trace, out, sp


def data_guards(guards):
    """guards that depend on the value being written (anything mentioning x), loop membership aside"""
    out = []
    for g in guards or ():
        t = show(g)
        if t.startswith("in-loop") or t.startswith("not(in-loop"):
            continue
        if "x" in [a for a in __import__("re").findall(r"[A-Za-z_][A-Za-z_0-9]*", t)]:
            out.append(t[:80])
    return out


def long_reader_rule(rep, F, C, rule):
    """TYPE_LONG reader, decided independently of how its loop is written: the reader is specialised for concrete stored sizes (the digit loop then
    unrolls) with one fresh symbol per 16-bit read; the number of reads and the value of the result term on distinctive 15-bit digits are compared
    with marshal.c's  sign(size) * sum(digit_j << 15*j)."""
    from ..sve import eval_term
    f = C.ns.get("dispatch", {}).get("l") if isinstance(C.ns.get("dispatch"), dict) else None
    if not isinstance(f, FuncRef):
        rep.ob(rule, "xdis.marsh.%s.dispatch" % C.name, "reader-for:'l'", False, expected="a load_long function", derived=repr(f))
        return
    rep.analysed(f.qualname)
    FQ = f.qualname
    DIG = [0x7FFF, 0x0001, 0x1234, 0x4000, 0x2AAA]
    cnt_bad, acc_bad, sign_bad = [], [], []
    for size in (-5, -3, -1, 0, 1, 2, 4):
        ds = []

        def hook(spec, name, fv, args, kw, node, size=size, ds=ds):
            base = name.split(".")[-1]
            if base in ("_r_long", "r_long"):
                return size
            if base in ("_r_short", "r_short"):
                d = Sym("d%d" % len(ds), "int")
                ds.append(d)
                return d
            return NotImplemented
        me = Instance(C)
        me.attrs.update(bufstr=Sym("buf", "bytes"), bufpos=Sym("p", "int"), _read=Sym("readfunc", "func"), _stringtable=Sym("stringtable", "list"), python_version=None)
        sp = Spec(F, hooks=[hook])
        try:
            out = sp.run(f, [me])
            rets = [l.value for g, l in leaves(out) if isinstance(l, Ret)]
        except Exception as ex:
            cnt_bad.append("size %d: not evaluable (%s)" % (size, ex))
            continue
        if len(ds) != abs(size):
            cnt_bad.append("size %d: %d digits read" % (size, len(ds)))
            continue
        if len(rets) != 1:
            acc_bad.append("size %d: %d results" % (size, len(rets)))
            continue
        try:
            got = eval_term(rets[0], {repr(d): DIG[j] for j, d in enumerate(ds)})
        except Exception as ex:
            acc_bad.append("size %d: result %s not evaluable (%s)" % (size, show(rets[0])[:60], ex))
            continue
        mag = sum(DIG[j] << (15 * j) for j in range(abs(size)))
        if abs(got) != mag if isinstance(got, int) and not isinstance(got, bool) else True:
            acc_bad.append("size %d: %s -> %r, magnitude should be %d" % (size, show(rets[0])[:60], got, mag))
        elif got != (-mag if size < 0 else mag):
            sign_bad.append("size %d: %r, expected %d" % (size, got, -mag if size < 0 else mag))
    rep.ob(rule, FQ, "long:digit-count", not cnt_bad, expected="|size| 16-bit reads for stored sizes -5, -3, -1, 0, 1, 2, 4", derived=cnt_bad[:3] or "equal",
           msg="the number of 15-bit digits read is not the absolute value of the stored size: %s" % "; ".join(cnt_bad[:2]))
    rep.ob(rule, FQ, "long:accumulation", not acc_bad and not cnt_bad, expected="magnitude = sum(digit_j << 15*j), starting from 0", derived=acc_bad[:3] or ("equal" if not cnt_bad else "not evaluated"),
           msg="the digits of a multi-digit integer are combined with the wrong weights: %s" % "; ".join(acc_bad[:2]))
    rep.ob(rule, FQ, "long:sign", not sign_bad and not acc_bad and not cnt_bad, expected="-magnitude when the stored size is negative, +magnitude otherwise",
           derived=sign_bad[:3] or ("equal" if not (acc_bad or cnt_bad) else "not evaluated"),
           msg="the sign of a multi-digit integer does not follow the sign of its stored size: %s" % "; ".join(sign_bad[:2]))


def run(rep, tier):
    rep.explanation = ("specialisation of every writer of xdis.marsh._Marshaller (symbolic value, byte sink as an uninterpreted call) and of every reader of "
                       "_FastUnmarshaller: emitted / consumed layout as terms, compared with marshal.c's format table; taint classification of every sink argument")
    rep.rule("R1", "TYPE_* constants are marshal.c's type codes; the keys of unmarshal's dispatch table are the same codes")
    rep.rule("R2", "a writer registered under a plain type emits the type byte followed by that code's payload layout (little-endian widths, length = number of payload bytes)")
    rep.rule("R3", "every argument of the byte sink is bytes, a one-byte-per-char text (chr(x & 0xFF), ASCII literal, repr of a number), never raw user text; text is utf-8 encoded before its length is written")
    rep.rule("R5", "both readers decode TYPE_UNICODE payloads as utf-8 with surrogatepass")
    rep.rule("R6", "dump() and dumps(): the marshaller's chunk sink is a local buffer converted to bytes by dumps(); what dump() writes to the file is dumps()'s result")
    rep.rule("R7", "the file-based reader (load): the type byte is decoded before it indexes the str-keyed dispatch table; r_byte/r_short/r_long/r_long64 "
                   "return the little-endian integer of the bytes read")
    rep.rule("R10", "for a sample of every kind of the domain (None, bool, int, wide int, float, complex, bytes, text, tuple, list, dict, set, frozenset) the generic dump(), "
                    "constructed through __init__, has no path that raises -- on the first write and when the same object is written again by the same marshaller "
                    "(an object reachable twice in a nesting is legal and the host's marshal writes it twice)")
    rep.rule("R9", "the generic dump() sends a plain str to the text writer and every int to the multi-digit writer when no target or a Python 3 target is named "
                   "(the Python 2 routing applies to a named Python 2 target only)")
    rep.rule("R8", "TYPE_LONG in both readers: |size| 16-bit digits are read, digit i contributes digit << 15*i to an accumulator that starts at 0, and the result is "
                   "negated exactly when the stored size is negative")
    rep.rule("R4", "fast readers consume the layout of their type code; r_long/r_short are little-endian with sign extension from the top bit")
    T = tables()
    F = T.F
    mm = F.modules.get("xdis.marsh")
    if mm is None:
        raise AnalysisError("anchor vanished: xdis.marsh")
    spec = ref_json("marshal_format.json")
    rows = {r["name"]: r for r in spec["rows"]}
    # ---------------------------------------------------------------- R1
    n = 0
    for name, cst in sorted(NAME2CONST.items()):
        want = rows[name]["code"]
        got = mm.ns.get(cst)
        n += 1
        rep.ob("R1", "xdis.marsh", "const:%s" % cst, got == want, expected=want, derived=got, msg="%s is %r, marshal.c's TYPE_%s is %r" % (cst, got, name.upper(), want))
    um = F.modules["xdis.unmarshal"].ns.get("UNMARSHAL_DISPATCH_TABLE", {})
    for name, r in sorted(rows.items()):
        rep.ob("R1", "xdis.unmarshal.UNMARSHAL_DISPATCH_TABLE", "sibling-key:%s" % name, r["code"] in um, expected=r["code"], derived=sorted(um)[:3])
    rep.floor("TYPE constants compared", n, 28)
    # ---------------------------------------------------------------- R2 / R3 writers
    M = mm.ns.get("_Marshaller")
    if not isinstance(M, ClassRef) or not isinstance(M.ns.get("dispatch"), dict):
        raise AnalysisError("anchor vanished: xdis.marsh._Marshaller.dispatch")
    disp = M.ns["dispatch"]
    for typ, kind, codes, payload in PLAIN:
        w = disp.get(typ)
        tn = typ.__name__
        if not isinstance(w, FuncRef):
            rep.ob("R2", "xdis.marsh._Marshaller.dispatch", "writer-for:%s" % tn, False, expected="a dump_* method", derived=repr(w), msg="no writer registered for %s" % tn)
            continue
        rep.analysed(w.qualname)
        x = Sym("x", kind)
        trace, out, sp = writer_trace(T, M, w.name, x)
        writes = [t for t in trace if t[0] == "write"]
        W = w.qualname
        # type byte first
        first = writes[0][1] if writes else None
        tb_ok = first is not None and first[0] == "ascii" and len(first[1]) == 1 and first[1] in codes.split("|")
        if tn == "bool":
            vals = sorted(t[1][1] for t in writes if t[1][0] == "ascii")
            tb_ok = vals == ["F", "T"]
        rep.ob("R2", W, "%s:type-byte" % tn, tb_ok, expected=codes, derived=[show(t[1]) for t in writes[:2]], msg="a %s is written with the wrong marshal type code" % tn)
        # payload per kind
        body = writes[1:] if tn != "bool" else []
        if tn in ("bytes", "str"):
            ok_len = len(body) >= 2 and body[0][1][0] == "le32"
            payload_term = body[1][1] if len(body) >= 2 else None
            if tn == "bytes":
                good = ok_len and show(body[0][1][1]) == "len(x)" and payload_term[0] == "value" and payload_term[1] is x
                rep.ob("R2", W, "bytes:len+payload", good, expected="i32 len(x); x", derived=[show(b[1]) for b in body[:2]])
            else:
                enc = payload_term is not None and payload_term[0] == "encoded" and payload_term[1] is x and payload_term[2] and str(payload_term[2][0]).lower().replace("-", "") == "utf8"
                lt = body[0][1][1] if ok_len else None
                len_of_encoded = isinstance(lt, Op) and lt.op == "len" and isinstance(lt.args[0], Op) and lt.args[0].op == "call" and "encode" in show(lt.args[0])
                rep.ob("R3", W, "str:encoded-before-length", bool(enc and len_of_encoded), expected="s = x.encode('utf-8', ...); i32 len(s); s",
                       derived=[show(b[1]) for b in body[:2]],
                       msg="text is written without utf-8 encoding (length in code points, raw text to the sink): any non-ASCII string produces bytes the host's marshal rejects or misreads")
                if enc:
                    sp_ok = len(payload_term[2]) > 1 and payload_term[2][1] == "surrogatepass"
                    rep.ob("R3", W, "str:surrogatepass", sp_ok, expected="errors='surrogatepass' (marshal writes lone surrogates)", derived=[str(a) for a in payload_term[2]])
        elif tn in ("tuple", "list", "set", "frozenset"):
            good = len(body) >= 1 and body[0][1][0] == "le32" and show(body[0][1][1]) == "len(x)" and not data_guards(body[0][2])
            dumps = [t for t in trace if t[0] == "dump"]
            inloop = any(any(isinstance(g, Op) and g.op == "in-loop" for g in t[2]) for t in dumps)
            loops_ = [t for t in trace if t[0] == "loop["]
            over_x = len(loops_) == 1 and show(loops_[0][1]) == "iter-more(x)" and not data_guards(loops_[0][2])
            elem_ok = len(dumps) == 1 and show(dumps[0][1]).endswith(":elem") and not data_guards(dumps[0][2])
            rep.ob("R2", W, "%s:count+items" % tn, good and len(dumps) == 1 and inloop and over_x and elem_ok, expected="i32 len(x); dump(item) for each item of x, unconditionally",
                   derived=[show(b[1]) for b in body[:1]] + [len(dumps)] + [show(l[1]) for l in loops_] + [show(d[1]) for d in dumps[:2]] + data_guards(sum((list(t[2]) for t in trace), []))[:2],
                   msg="a %s is not written as its length followed by every one of its items" % tn)
        elif tn == "dict":
            dumps = [t for t in trace if t[0] == "dump"]
            last = writes[-1][1] if writes else None
            loops_ = [t for t in trace if t[0] == "loop["]
            over_items = len(loops_) == 1 and show(loops_[0][1]) == "iter-more(call(attr(x, 'items')))" and not data_guards(loops_[0][2])
            uncond = bool(writes) and not data_guards(writes[-1][2]) and not any(data_guards(d[2]) for d in dumps)
            good = len(dumps) == 2 and last is not None and last == ("ascii", rows["NULL"]["code"]) and "item(" in show(dumps[0][1]) and ", 0)" in show(dumps[0][1]) and ", 1)" in show(dumps[1][1])
            rep.ob("R2", W, "dict:pairs+NULL", good and over_items and uncond, expected="dump(key); dump(value) for every item of x.items(); then TYPE_NULL, unconditionally",
                   derived=[show(d[1]) for d in dumps] + [show(last)] + [show(l[1]) for l in loops_] + data_guards(sum((list(t[2]) for t in trace), []))[:2],
                   msg="a dict is not written as every key/value pair followed by the NULL terminator")
        elif tn == "complex":
            codes_ = [(t[1], t[2]) for t in body]
            want = []
            for part in ("real", "imag"):
                want += ["('u8', len(call('repr', attr(x, '%s'))))" % part, "('repr', attr(x, '%s'))" % part]
            got_ = [show(c) for c, g in codes_]
            rep.ob("R2", W, "complex:real-then-imag", got_ == want and not any(data_guards(g) for c, g in codes_), expected=want, derived=got_[:5],
                   msg="a complex is not written as u8 len + repr of the real part followed by u8 len + repr of the imaginary part")
        elif tn == "int":
            digits15 = any(e.kind == "mutate" and "bits(" in show(e.args[2]) and ", 0, 15)" in show(e.args[2]) for k, e in flatten_effects(sp.effects) if k == "mutate")
            rep.ob("R2", W, "int:15-bit-digits", digits15, expected="digits = x & 0x7FFF; x >>= 15", derived=[show(e.args[2]) for k, e in flatten_effects(sp.effects) if k == "mutate"][:2])
            inl = [t for t in trace if t[0] == "write" and any(isinstance(g, Op) and g.op == "in-loop" for g in t[2])]
            ok16 = len(inl) == 1 and inl[0][1][0] == "le16" and "elem" in show(inl[0][1][1])
            rep.ob("R2", W, "int:digit-is-u16le", ok16, expected="each digit as 2 bytes little-endian", derived=[show(t[1]) for t in inl])
            cnt = [t for t in body if t[1][0] in ("le32", "guarded")]
            rep.ob("R2", W, "int:signed-digit-count", len(cnt) >= 1, expected="i32 len(digits) * sign", derived=[show(t[1])[:80] for t in body[:1]])
        elif tn == "float":
            codes_ = [t[1] for t in body]
            good = len(codes_) == 2 and codes_[0][0] == "u8" and show(codes_[0][1]) == "len(call('repr', x))" and codes_[1] == ("repr", x)
            rep.ob("R2", W, "float:u8-len+repr", good, expected="u8 len(repr(x)); repr(x)", derived=[show(c) for c in codes_])
        # R3: every sink argument of this writer
        for t in writes:
            c = t[1]
            clean = c[0] in ("ascii", "bytes-literal", "u8", "repr", "encoded", "packed") or c[0].startswith("le") or (c[0] == "value" and kind in ("bytes",))
            if tn == "str" and c[0] == "value":
                continue  # reported above with its own key
            rep.ob("R3", W, "%s:sink-arg:%s" % (tn, c[0]), clean, expected="bytes / one-byte-per-char text", derived=show(c)[:120])
    # ---------------------------------------------------------------- R4 readers
    FU = mm.ns.get("_FastUnmarshaller")
    if not isinstance(FU, ClassRef):
        raise AnalysisError("anchor vanished: xdis.marsh._FastUnmarshaller")
    for fname, nbytes in (("_r_long", 4), ("_r_short", 2), ("_r_long64", 8)):
        f = mm.ns.get(fname)
        if not isinstance(f, FuncRef):
            raise AnalysisError("anchor vanished: xdis.marsh.%s" % fname)
        rep.analysed(f.qualname)
        me = Instance(FU)
        buf = Sym("buf", "bytes")
        me.attrs.update(bufstr=buf, bufpos=Sym("p", "int"))
        sp = Spec(F)
        out = sp.run(f, [me])
        rets = [(g, l.value) for g, l in leaves(out) if isinstance(l, Ret)]
        from ..sve import eval_term, atoms_of
        import itertools
        # exact decision on a separating set of byte patterns: the term is affine in the bytes with a test on the top bit
        top_vals, other_vals = (0x00, 0x01, 0x7F, 0x80, 0xFF), (0x00, 0x01, 0xFF)
        pats = list(itertools.product(*([other_vals] * (nbytes - 1) + [top_vals]))) if nbytes <= 4 else \
            [tuple((0xFF if (m >> k) & 1 else 0x00) for k in range(nbytes)) for m in range(256)] + [tuple([1] * 7 + [t]) for t in top_vals] + [tuple([0xFF] * 7 + [t]) for t in top_vals]
        bad = []
        for pat in pats:
            val = {("byte(buf, p + %d)" % k if k else "byte(buf, p)"): pat[k] for k in range(nbytes)}
            got = "no-return"
            try:
                for g, v in rets:
                    if all(eval_term(c, val) for c in g):
                        got = eval_term(v, val)
                        break
            except Exception as ex:
                got = "unevaluable: %s" % ex
            want = int.from_bytes(bytes(pat), "little", signed=True)
            if got != want:
                bad.append((list(pat), want, got))
        rep.ob("R4", f.qualname, "little-endian-signed", not bad, expected="int.from_bytes(b, 'little', signed=True) on %d byte patterns" % len(pats), derived=bad[:3] or "equal",
               msg="%s does not assemble a little-endian two's-complement integer" % fname)
    # ---------------------------------------------------------------- R4b reader layouts for the codes a host writes in marshal versions 0/1
    disp = FU.ns.get("dispatch")
    if not isinstance(disp, dict):
        raise AnalysisError("anchor vanished: _FastUnmarshaller.dispatch")
    WANT = {"N": ([], "None"), "T": ([], "True"), "F": ([], "False"), ".": ([], "Ellipsis"), "S": ([], "StopIteration"),
            "i": (["i32"], "int"), "l": (["i32", "loop[", "i16", "]"], "int"), "f": (["u8", "bytes(u8)"], "float"),
            "x": (["u8", "bytes(u8)", "u8", "bytes(u8)"], "complex"), "s": (["i32", "bytes(i32)"], "bytes"), "u": (["i32", "bytes(i32)"], "text"),
            "(": (["i32", "loop[", "obj", "]"], "tuple"), "[": (["i32", "loop[", "obj", "]"], "list"), "{": (["loop[", "obj", "obj", "]"], "dict"),
            "<": (["i32", "loop[", "obj", "]"], "set"), ">": (["i32", "loop[", "obj", "]"], "frozenset")}
    for code, (want, kind) in sorted(WANT.items()):
        f = disp.get(code)
        if not isinstance(f, FuncRef):
            rep.ob("R4", "xdis.marsh._FastUnmarshaller.dispatch", "reader-for:%r" % code, False, expected="a load_* function", derived=repr(f))
            continue
        rep.analysed(f.qualname)
        events = []
        cnt = [0]

        def hook(spec, name, fv, args, kw, node):
            base = name.split(".")[-1]
            if base in ("_r_long", "_r_short", "_r_long64"):
                cnt[0] += 1
                tag = {"_r_long": "i32", "_r_short": "i16", "_r_long64": "i64"}[base]
                r = Sym("%s#%d" % (tag, cnt[0]), "int", {"tag": tag})
                spec.effect("rd", tag, r, node=node)
                return r
            if base == "_read1":
                cnt[0] += 1
                r = Sym("u8#%d" % cnt[0], "byte", {"tag": "u8"})
                spec.effect("rd", "u8", r, node=node)
                return r
            if base == "Ord" and args and isinstance(args[0], Sym):
                return args[0]
            if base == "_read" and len(args) == 2:
                cnt[0] += 1
                n_ = args[1]
                tag = "bytes(%s)" % (n_.info.get("tag") if isinstance(n_, Sym) and n_.info else show(n_))
                r = Sym("rd#%d" % cnt[0], "bytes", {"n": n_})
                spec.effect("rd", tag, r, node=node)
                return r
            if name.endswith("_FastUnmarshaller.load"):
                cnt[0] += 1
                r = Sym("obj#%d" % cnt[0])
                spec.effect("rd", "obj", r, node=node)
                return r
            return NotImplemented
        me = Instance(FU)
        me.attrs.update(bufstr=Sym("buf", "bytes"), bufpos=Sym("p", "int"), _stringtable=Sym("stringtable", "list"), python_version=None)
        sp = Spec(F, hooks=[hook])
        out = sp.run(f, [me])
        got = []
        for k, e in flatten_effects(sp.effects):
            if k == "rd":
                got.append(e.args[0])
            elif k == "loop-begin":
                got.append("loop[")
            elif k == "loop-end":
                got.append("]")
        # comprehension-based item loops show up as one symbolic obj read inside a comp: normalise
        if "loop[" not in got and "obj" in got and code in "<>":
            i = got.index("obj")
            got = got[:i] + ["loop[", "obj", "]"] + got[i + 1:]
        if code in "([<>{":
            # containers are decided on scripted children, however their loop is written: a concrete count (or, for a dict, a script ending in the reader's own
            # NULL object), distinguishable child objects, and the value that comes back
            null_f = disp.get("0")
            nullv = None
            if isinstance(null_f, FuncRef):
                try:
                    o0 = Spec(F).run(null_f, [me])
                    nullv = [l.value for g, l in leaves(o0) if isinstance(l, Ret)][0]
                except Exception:
                    nullv = None
            scripts = [(["k1", "v1", "k2", "v2", nullv], None, {"k1": "v1", "k2": "v2"}, 5), ([None, "v", nullv], None, {None: "v"}, 3),
                       (["k", None, nullv], None, {"k": None}, 3), ([nullv], None, {}, 1)] if code == "{" else \
                [(["a", "b", "c"], 3, {"(": ("a", "b", "c"), "[": ["a", "b", "c"], "<": {"a", "b", "c"}, ">": frozenset(("a", "b", "c"))}[code], 3), ([], 0, {"(": (), "[": [], "<": set(), ">": frozenset()}[code], 0)]
            bad_c = []
            for script, count, want_v, nreads in scripts:
                it_ = iter(script)
                nn = [0, 0]

                def hook_c(spec, name, fv, args, kw, node, it_=it_, nn=nn, count=count):
                    base = name.split(".")[-1]
                    if base == "_r_long":
                        nn[1] += 1
                        return count if count is not None else Sym("unexpected-count", "int")
                    if name.endswith("_FastUnmarshaller.load"):
                        nn[0] += 1
                        try:
                            return next(it_)
                        except StopIteration:
                            return Sym("past-end-of-script")
                    return NotImplemented
                me_c = Instance(FU)
                me_c.attrs.update(bufstr=Sym("buf", "bytes"), bufpos=Sym("p", "int"), _stringtable=Sym("stringtable", "list"), python_version=None)
                try:
                    out_c = Spec(F, hooks=[hook_c]).run(f, [me_c])
                    rets_c = [l.value for g, l in leaves(out_c) if isinstance(l, Ret)]
                except Exception as ex:
                    bad_c.append("not evaluable: %s" % ex)
                    continue
                okv = len(rets_c) == 1 and type(rets_c[0]) is type(want_v) and rets_c[0] == want_v and nn[0] == nreads and nn[1] == (0 if count is None else 1)
                if not okv:
                    bad_c.append("children %s -> %s after %d object reads, %d count reads (expected %r after %d)" % (
                        ["NULL" if x is nullv else x for x in script], [show(r_)[:40] for r_ in rets_c][:2], nn[0], nn[1], want_v, nreads))
            rep.ob("R4", f.qualname, "code=%r:layout" % code, not bad_c, expected="a count followed by that many objects" if code != "{" else "key/value objects up to the NULL object",
                   derived=bad_c[:3] or "scripted children agree", msg="type %r read with a layout different from marshal.c's: %s" % (code, "; ".join(bad_c[:2])))
            if not bad_c:
                rep.ob("R4", f.qualname, "code=%r:kind" % code, True, expected=kind, derived=kind)
                continue
        rep.ob("R4", f.qualname, "code=%r:layout" % code, got == want, expected=want, derived=got, msg="type %r read with a layout different from marshal.c's" % code)
        rets = [l.value for g, l in leaves(out) if isinstance(l, Ret)]
        kinds = set()
        for v in rets:
            sv = show(v)
            if v is None or v is True or v is False or v is Ellipsis:
                kinds.add(str(v))
            elif v is StopIteration:
                kinds.add("StopIteration")
            elif isinstance(v, Sym) and v.kind in ("int",):
                kinds.add("int")
            elif isinstance(v, Sym) and v.kind == "bytes":
                kinds.add("bytes")
            elif isinstance(v, Sym) and v.kind in ("list", "dict", "tuple"):
                kinds.add(v.kind)
            elif isinstance(v, (list, dict, tuple)):
                kinds.add(type(v).__name__)
            elif sv.startswith("call('float'"):
                kinds.add("float")
            elif sv.startswith("call('complex'"):
                kinds.add("complex")
            elif sv.startswith("call('tuple'") or sv.startswith("call('set'") or sv.startswith("call('frozenset'") or sv.startswith("call('list'"):
                kinds.add(sv.split("'")[1])
            elif "decode" in sv:
                kinds.add("text")
            elif isinstance(v, (Lin, Op, Guard)):
                kinds.add("int")
            else:
                kinds.add("?" + sv[:40])
        rep.ob("R4", f.qualname, "code=%r:kind" % code, kinds == {kind}, expected=kind, derived=sorted(kinds))
    # ---------------------------------------------------------------- R5 text decoding of TYPE_UNICODE in both readers
    import ast as _ast
    UMC = mm.ns.get("_Unmarshaller")
    if not isinstance(UMC, ClassRef):
        raise AnalysisError("anchor vanished: xdis.marsh._Unmarshaller")
    for C in (FU, UMC):
        f = C.ns.get("dispatch", {}).get("u") if isinstance(C.ns.get("dispatch"), dict) else None
        if not isinstance(f, FuncRef):
            rep.ob("R5", "xdis.marsh.%s.dispatch" % C.name, "reader-for:'u'", False, expected="a load_unicode function", derived=repr(f))
            continue
        rep.analysed(f.qualname)
        decs = [c for c in _ast.walk(f.node) if isinstance(c, _ast.Call) and isinstance(c.func, _ast.Attribute) and c.func.attr == "decode"]
        good = False
        got = []
        for c in decs:
            a = [x.value for x in c.args if isinstance(x, _ast.Constant)] + [k.value.value for k in c.keywords if isinstance(k.value, _ast.Constant)]
            got.append(a)
            if a and str(a[0]).lower().replace("-", "") == "utf8" and "surrogatepass" in a:
                good = True
        rep.ob("R5", f.qualname, "unicode-decode", good, expected="decode('utf-8', 'surrogatepass')", derived=got,
               msg="TYPE_UNICODE payloads are utf-8 written with errors='surrogatepass'; a strict decode rejects the host's marshal.dumps('\\ud800')")
    # ---------------------------------------------------------------- R6 entry points hand bytes to their sink
    n_ctor = 0
    for fname in ("dump", "dumps"):
        f = mm.ns.get(fname)
        if not isinstance(f, FuncRef):
            raise AnalysisError("anchor vanished: xdis.marsh.%s" % fname)
        rep.analysed(f.qualname)
        params = {a.arg for a in f.node.args.args}
        for c in _ast.walk(f.node):
            if isinstance(c, _ast.Call) and isinstance(c.func, _ast.Name) and c.func.id == "_Marshaller" and c.args:
                n_ctor += 1
                w = c.args[0]
                local_buffer = isinstance(w, _ast.Attribute) and w.attr == "append" and isinstance(w.value, _ast.Name) and w.value.id not in params
                rep.ob("R6", f.qualname, "marshaller-sink:%s" % _ast.unparse(w), local_buffer, expected="<local buffer>.append (chunks are converted to bytes by dumps())",
                       derived=_ast.unparse(w), msg="the marshaller emits str chunks (chr()-built); handing them to %s writes text to a binary stream (TypeError on Python 3)" % _ast.unparse(w))
            if isinstance(c, _ast.Call) and isinstance(c.func, _ast.Attribute) and c.func.attr == "write" and isinstance(c.func.value, _ast.Name) and c.func.value.id in params:
                a0 = c.args[0] if c.args else None
                okw = isinstance(a0, _ast.Call) and isinstance(a0.func, _ast.Name) and a0.func.id == "dumps"
                rep.ob("R6", f.qualname, "file-write:%s" % _ast.unparse(c)[:50], okw, expected="f.write(dumps(...))", derived=_ast.unparse(a0) if a0 is not None else None,
                       msg="what is written to the file is not the bytes assembled by dumps()")
    rep.floor("_Marshaller constructions in dump/dumps", n_ctor, 1)
    # ---------------------------------------------------------------- R7 the file-based reader works on bytes
    cnt7 = [0]

    def hook7(spec, name, fv, args, kw, node):
        if name == "readfunc":
            cnt7[0] += 1
            return Sym("rd#%d" % cnt7[0], "bytes", {"n": args[0] if args else None})
        return NotImplemented
    udisp = UMC.ns.get("dispatch")
    opaque = set(q.qualname for q in udisp.values() if isinstance(q, FuncRef)) if isinstance(udisp, dict) else set()

    def run_um(meth):
        f = UMC.lookup(meth)
        if not isinstance(f, FuncRef):
            raise AnalysisError("anchor vanished: xdis.marsh._Unmarshaller.%s" % meth)
        me = Instance(UMC)
        me.attrs.update(_read=Sym("readfunc", "func"), _stringtable=Sym("stringtable", "list"), python_version=None)
        sp = Spec(F, hooks=[hook7], opaque_funcs=opaque - {f.qualname})
        out = sp.run(f, [me])
        rep.analysed(f.qualname)
        return f, sp, out
    f, sp, out = run_um("load")
    keys = []
    for g, l in leaves(out):
        if isinstance(l, Ret):
            v = l.value
            if isinstance(v, Op) and v.op == "call" and isinstance(v.args[0], Op) and v.args[0].op in ("index", "index?"):
                keys.append(v.args[0].args[-1])
    okk = bool(keys) and all("decode" in show(k) or show(k).startswith("call('chr'") or show(k).startswith("call('str'") for k in keys)
    rep.ob("R7", f.qualname, "dispatch-key-is-text", okk, expected="the type byte read from the file is decoded before it indexes the str-keyed dispatch table",
           derived=[show(k) for k in keys], msg="bytes read from a binary file never equal the str type codes: every load() ends in 'bad marshal code'")
    from ..sve import atoms_of, eval_term
    for meth, nbytes in (("r_byte", 1), ("r_short", 2), ("r_long", 4), ("r_long64", 8)):
        f, sp, out = run_um(meth)
        rets = [(g, l.value) for g, l in leaves(out) if isinstance(l, Ret)]
        atoms = {}
        for g, v in rets:
            atoms_of(v, atoms)
            atoms_of(list(g), atoms)
        raw = sorted(k for k, a in atoms.items() if isinstance(a, Sym) and a.kind == "bytes")
        byte_atoms = sorted((k for k, a in atoms.items() if isinstance(a, Op) and a.op == "byte"), key=lambda k: (int(k.split("rd#")[1].split(",")[0]), k))
        ok_int = bool(rets) and not raw and len(byte_atoms) == nbytes
        bad = []
        if ok_int:
            pats = [tuple((0xFF if (m_ >> k) & 1 else 0x00) for k in range(nbytes)) for m_ in range(1 << min(nbytes, 8))] + [tuple([1] * (nbytes - 1) + [t]) for t in (0x00, 0x7F, 0x80, 0xFF)]
            for pat in pats:
                val = dict(zip(byte_atoms, pat))
                got = "no-return"
                try:
                    for g, v in rets:
                        if all(eval_term(c, val) for c in g):
                            got = eval_term(v, val)
                            break
                except Exception as ex:
                    got = "unevaluable: %s" % ex
                want = int.from_bytes(bytes(pat), "little", signed=(meth != "r_byte"))
                if got != want:
                    bad.append((list(pat), want, got))
        rep.ob("R7", f.qualname, "integer-from-bytes", ok_int and not bad, expected="little-endian %s integer of the %d bytes read" % ("unsigned" if meth == "r_byte" else "signed", nbytes),
               derived=(["returns the bytes object %s" % r for r in raw] or bad[:3] or "equal on %d byte patterns" % len(pats)) if rets else "no return",
               msg="%s does not turn the bytes read from the file into the integer they encode" % meth)
    # ---------------------------------------------------------------- R9 the generic dump() routes plain values by the host's types unless a Python 2 target is named
    dmp = M.lookup("dump")
    for pv, label in ((None, "None"), ((3, 8), "3.8"), ((3, 12, 1), "3.12.1")):
        for tn, val, want_w in (("str", "abc", "dump_unicode"), ("int", 5, "dump_long"), ("int", 2 ** 70, "dump_long")):
            reached = []

            def hook9(spec, name, fv, args, kw, node):
                base = name.split(".")[-1]
                if base.startswith("dump_") and name.startswith("xdis.marsh._Marshaller."):
                    reached.append(base)
                    return None
                return NotImplemented
            me9 = Instance(M)
            me9.attrs.update(_write=Sym("WRITE"), python_version=pv)
            sp9 = Spec(F, hooks=[hook9])
            try:
                sp9.run(dmp, [me9, val])
            except Exception as ex:
                reached.append("raises %s" % type(ex).__name__)
            rep.ob("R9", dmp.qualname, "target=%s:%s(%s)-writer" % (label, tn, "big" if val == 2 ** 70 else "small" if tn == "int" else "plain"), reached[:1] == [want_w],
                   expected=want_w, derived=reached[:2],
                   msg="with python_version=%s a %s goes to %s: the host's marshal.loads then returns a different kind or value (text as bytes, wide ints truncated)" % (label, tn, reached[:1]))
    # ---------------------------------------------------------------- R10 dump() accepts every kind of the domain, also when the same object is written again
    ini = M.lookup("__init__")
    samples = [("None", None), ("bool", True), ("int", 5), ("big-int", 2 ** 70), ("float", 1.5), ("complex", 1j), ("bytes", b"ab"), ("text", "abc"), ("tuple", (1, 2)), ("list", [1, 2]),
               ("dict", {1: 2}), ("set", {1}), ("frozenset", frozenset([1]))]
    n10 = 0
    for pv, label in ((None, "None"), ((3, 12, 1), "3.12.1")):
        for kind, val in samples:
            def hook10(spec, name, fv, args, kw, node):
                base = name.split(".")[-1]
                if base.startswith("dump_") and name.startswith("xdis.marsh._Marshaller."):
                    return None
                return NotImplemented
            me10 = Instance(M)
            outcome = []
            try:
                if isinstance(ini, FuncRef):
                    Spec(F).run(ini, [me10, Sym("WRITE")], dict(python_version=pv))
                else:
                    me10.attrs.update(_write=Sym("WRITE"), python_version=pv)
                for rnd in ("first", "again"):
                    sp10 = Spec(F, hooks=[hook10])
                    o10 = sp10.run(dmp, [me10, val])
                    for g_, l_ in leaves(o10):
                        if isinstance(l_, Raise):
                            outcome.append("%s write: raise %s%s" % (rnd, show(l_.exc)[:60] if hasattr(l_, "exc") else "", (" when " + " and ".join(show(c)[:50] for c in g_[-2:])) if g_ else ""))
            except Exception as ex:
                outcome.append("raises %s: %s" % (type(ex).__name__, str(ex)[:60]))
            n10 += 1
            rep.ob("R10", dmp.qualname, "target=%s:%s:accepted-each-time" % (label, kind), not outcome, expected="no raise on any path, on the first write and when the same object is written again",
                   derived=outcome[:2] or "no raise",
                   msg="dump() refuses a %s value (%s): a value of the property's kinds -- here one object reachable twice in the nesting -- is not written" % (kind, "; ".join(outcome[:1])))
    rep.floor("kinds decided for acceptance by dump()", n10, 20)
    # ---------------------------------------------------------------- R8 multi-digit integers in both readers
    for C in (FU, UMC):
        long_reader_rule(rep, F, C, "R8")
    rep.assumptions = ["reference/marshal_format.json (marshal.c type codes and layouts)", "value equality of dumps/loads results is not decided (repr/float parsing, digit arithmetic)",
                       "the host's marshal.loads accepts TYPE_FLOAT/TYPE_COMPLEX/TYPE_LONG in every version 3.8-3.13 (marshal.c)"]
