"""C15 -- stack effects equal the interpreter's for every opcode and operand (DESIGN.md section 4, C15).

xstack_effect is specialised per (version, opcode) with the folded oppop/oppush/NARGS/VARGS tables and a *symbolic*
oparg.  The result is a guarded piecewise term in oparg.  It is compared with the frozen tabulation of
dis.stack_effect (reference/stack_effect/*.json) by evaluating the analysis's own term on a hitting set of operands
(all of 0..1023, 2^k-1/2^k/2^k+1 up to 2^16, 256j-1/256j/256j+1, 65535, 65536, 2^17, 2^24): members of the small
family both sides live in (affine pieces, low-bit tests, byte splits, short lookup lists) that agree there are equal."""
from ..fold import FuncRef
from ..par import pmap
from ..report import AnalysisError
from ..sve import (Fall, Guard, Lin, Op, Raise, Ret, Spec, Split, Sym, Top, atoms_of, eval_term, leaves, show)
from ..tables import ref_json, tables

VERSIONS = ["3.6", "3.7", "3.8", "3.9", "3.10", "3.11", "3.12", "3.13"]


def hitting_set():
    H = set(range(0, 1024))
    for k in range(10, 17):
        H.update(((1 << k) - 1, 1 << k, (1 << k) + 1))
    for j in range(4, 257):
        H.update((256 * j - 1, 256 * j, 256 * j + 1))
    H.update((65535, 65536, 1 << 17, 1 << 24))
    return sorted(x for x in H if x >= 0)


HSET = hitting_set()


def ref_value(rec, a):
    k = rec["kind"]
    if k == "const":
        return rec["value"]
    if k == "invalid":
        return None
    if k == "segments":
        for lo, hi, sl, ic in rec["segments"]:
            if lo <= a <= hi:
                return None if sl is None else sl * a + ic
        return "?"
    if k == "probe":
        return rec["values"].get(str(a), "?")
    return "?"


def eval_outcome(out, val):
    if isinstance(out, Split):
        c = eval_term(out.cond, val)
        return eval_outcome(out.a if c else out.b, val)
    if isinstance(out, Ret):
        return eval_term(out.value, val)
    if isinstance(out, Fall):
        return None
    if isinstance(out, Raise):
        return "raises"
    return "?"


def shape_of(out):
    ops = set()

    def walk(t):
        if isinstance(t, Op):
            ops.add(t.op)
            for a in t.args:
                walk(a)
        elif isinstance(t, Lin):
            ops.add("affine")
            for a in t.terms:
                walk(a)
        elif isinstance(t, Guard):
            ops.add("guard")
            walk(t.cond); walk(t.a); walk(t.b)
        elif isinstance(t, Top):
            ops.add("TOP")
        elif isinstance(t, (tuple, list)):
            for a in t:
                walk(a)
    for g, l in leaves(out):
        for c in g:
            walk(c)
        if isinstance(l, Ret):
            walk(l.value)
    return sorted(ops)


def int_constants(out):
    acc = set()

    def walk(t):
        if isinstance(t, bool):
            return
        if isinstance(t, int):
            if abs(t) > 2:
                acc.add(abs(t))
        elif isinstance(t, Op):
            for a in t.args:
                walk(a)
        elif isinstance(t, Lin):
            for a in t.terms:
                walk(a)
        elif isinstance(t, Guard):
            walk(t.cond); walk(t.a); walk(t.b)
        elif isinstance(t, (tuple, list)) and len(t) < 64:
            for a in t:
                walk(a)
    for g, l in leaves(out):
        for c in g:
            walk(c)
    return acc


FAMILY = {"affine", "guard", "Eq", "NotEq", "Lt", "LtE", "Gt", "GtE", "bits", "not", "and*", "or*", "index", "mul", "and", "shr", "In", "NotIn", "complist", "call", "add", "sub"}


def work(v):
    T = tables()
    F = T.F
    f = F.modules["xdis.cross_dis"].ns.get("xstack_effect")
    if not isinstance(f, FuncRef):
        raise AnalysisError("anchor vanished: xdis.cross_dis.xstack_effect")
    m = T.table_for_version(v)
    ref = ref_json("stack_effect", v + ".json")["effects"]
    out = []
    X = Sym("oparg", "int")
    n = 0
    for nm, rec in sorted(ref.items()):
        K = rec["opcode"]
        if K >= 256 or rec["kind"] == "invalid":
            continue
        xname = nm.replace("+", "_")
        if m.ns["opmap"].get(xname) != K:
            out.append(("R1", "xdis.cross_dis.xstack_effect", "%s:%s:opcode" % (v, nm), False, K, m.ns["opmap"].get(xname), "opcode missing from the table (C09)"))
            continue
        n += 1
        sp = Spec(F)
        o = sp.run(f, [K, m, X, None])
        shp = shape_of(o)
        pts = HSET if rec.get("hasarg") else [0]
        if rec.get("hasarg"):
            # adaptive points: every integer constant the derived term compares or masks the operand with
            extra = set()
            for c in int_constants(o):
                for d in (-1, 0, 1):
                    for mult in (1, 2, 3):
                        x = c * mult + d
                        if 0 <= x <= 65536:
                            extra.add(x)
                if c > 65536:
                    out.append(("R2", "xdis.cross_dis.xstack_effect", "%s:%s:threshold>65536" % (v, nm), True, "thresholds within the tabulated range", c, None))
            if extra - set(pts):
                pts = sorted(set(pts) | extra)
        diffs = []
        checked = 0
        err = None
        for a in pts:
            want = ref_value(rec, a)
            if want is None or want == "?":
                continue
            checked += 1
            try:
                got = eval_outcome(o, {"oparg": a})
            except Exception as e:
                err = "%s: %s" % (type(e).__name__, e)
                break
            if got != want:
                diffs.append((a, want, got))
        unknown = [s for s in shp if s not in FAMILY]
        if err is not None:
            out.append(("R1", "xdis.cross_dis.xstack_effect", "%s:%s:evaluable" % (v, nm), False, "a piecewise term in oparg", err, "derived term cannot be evaluated: %s" % err))
            continue
        if diffs:
            a0, w0, g0 = diffs[0]
            out.append(("R1", "xdis.cross_dis.xstack_effect", "%s:%s:first-diff@%d" % (v, nm, a0), False,
                        {"oparg": a0, "dis.stack_effect": w0, "more": ["%d:%s" % (a, w) for a, w, g in diffs[1:4]]},
                        {"xstack_effect": g0, "differing_points": len(diffs), "of": checked},
                        "stack effect of %s in %s: oparg=%d gives %r, CPython gives %r (%d of %d probe operands differ)" % (nm, v, a0, g0, w0, len(diffs), checked)))
        else:
            out.append(("R1", "xdis.cross_dis.xstack_effect", "%s:%s" % (v, nm), True, "equal on %d operands" % checked, shp, None))
        if unknown and not diffs:
            out.append(("R2", "xdis.cross_dis.xstack_effect", "%s:%s:shape" % (v, nm), True, "term family", unknown, None))
    return (v, n, out)


def run(rep, tier):
    rep.explanation = ("xstack_effect specialised per (version, opcode) with folded pop/push tables and a symbolic oparg -> guarded piecewise term; "
                       "the term (the analysis's own, never repo code) is compared with the frozen tabulation of CPython's dis.stack_effect on a hitting "
                       "set of operands that separates the members of the formula family")
    rep.rule("R1", "for every opcode of a referenced version and every operand CPython accepts, the derived piecewise stack-effect term equals dis.stack_effect")
    rep.rule("R3", "xdis.std: _StdApi.stack_effect calls xstack_effect(opcode, self.opc, oparg, jump); the module-level stack_effect is the default API's method")
    rep.rule("R2", "derived terms stay inside the classified family (affine pieces, bit tests, comparisons, short lookups); a term outside it is reported")
    res = pmap(work, VERSIONS)
    total = 0
    for v, n, obs in res:
        total += n
        for rule, construct, detail, ok, exp, got, msg in obs:
            rep.ob(rule, construct, detail, ok, expected=exp, derived=got, msg=msg, where="xdis/cross_dis.py (xstack_effect) + opcode table %s" % v)
    rep.configurations = total
    rep.floor("(version, opcode) pairs specialised", total, 900)
    rep.analysed("xdis.cross_dis.xstack_effect")
    rep.extra["hitting_set_size"] = len(HSET)
    # ---------------------------------------------------------------- R3: the std API hands its own table and the caller's operand to xstack_effect
    from ..fold import ClassRef, FuncRef, Instance
    from ..report import AnalysisError
    from ..sve import Spec, Sym, show
    from ..tables import tables
    T = tables()
    T.F.load("xdis.std")
    std = T.F.modules.get("xdis.std")
    A = std.ns.get("_StdApi") if std else None
    m = A.lookup("stack_effect") if isinstance(A, ClassRef) else None
    if not isinstance(m, FuncRef):
        raise AnalysisError("anchor vanished: xdis.std._StdApi.stack_effect")
    rep.analysed(m.qualname)
    seen = []

    def hook(spec, name, fv, args, kw, node):
        if name.endswith("xstack_effect"):
            seen.append(([show(a) for a in args], {k: show(v) for k, v in kw.items()}))
            return Sym("effect", "int")
        return NotImplemented
    me = Instance(A)
    me.attrs["opc"] = Sym("self.opc", "obj!")
    sp = Spec(T.F, hooks=[hook])
    sp.run(m, [me, Sym("opcode", "int")], {"oparg": Sym("oparg", "int"), "jump": Sym("jump")})
    want = ["opcode", "self.opc", "oparg", "jump"]
    got = None
    if len(seen) == 1:
        a, kw = seen[0]
        got = a + [kw.get(k) for k in ("opcode", "opc", "oparg", "jump")[len(a):]]
    rep.ob("R3", m.qualname, "passes-own-table-and-operand", got == want, expected="xstack_effect(opcode, self.opc, oparg, jump)", derived=seen,
           msg="make_std_api(v).stack_effect does not hand this API's opcode table / the caller's operand to xstack_effect: every version answers with another table's rules")
    mod_binding = std.ns.get("stack_effect")
    okb = getattr(mod_binding, "func", None) is not None and getattr(mod_binding.func, "qualname", "") == m.qualname
    rep.ob("R3", "xdis.std", "module-level-stack_effect", okb or getattr(mod_binding, "qualname", "") == m.qualname, expected="the default API's stack_effect", derived=show(mod_binding)[:80])
    rep.assumptions = ["reference/stack_effect/*.json: dis.stack_effect tabulated under CPython 3.6-3.13 for oparg 0..65536, 2^17, 2^24 (jump=None)",
                       "versions without dis.stack_effect (< 3.4) and PyPy tables have no reference and are not decided"]
