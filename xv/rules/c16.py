"""C16 -- native and portable code objects convert back and forth without loss (DESIGN.md section 4, C16).

 R1 codeType2Portable, specialised per host 3.8-3.13 with the host's attribute-availability facts, builds the class selected for
    that host and binds every co_* attribute to the same-named attribute of the native object; on hosts >= 3.10 the line table
    must originate from co_linetable.
 R2 each to_native passes code.<field> in that host's types.CodeType positional order, and is enabled exactly on the hosts for
    which the selector picks its class.
 R3 replace(): the copy comes from deepcopy(self), every setattr targets the copy, the copy is returned."""
import ast
import types

from ..fold import ClassRef, FuncRef, Instance
from ..report import AnalysisError
from ..repo import get_repo
from ..sve import (Fall, Guard, Op, Raise, Ret, Spec, Sym, flatten_effects, leaves, show)
from ..tables import ref_json, tables

HOSTS = [(3, 8), (3, 9), (3, 10), (3, 11), (3, 12), (3, 13)]
EXPECTED_CLASS = {(3, 8): "Code38", (3, 9): "Code38", (3, 10): "Code310", (3, 11): "Code311", (3, 12): "Code311", (3, 13): "Code311"}
PARAM2ATTR = {"argcount": "co_argcount", "posonlyargcount": "co_posonlyargcount", "kwonlyargcount": "co_kwonlyargcount", "nlocals": "co_nlocals",
              "stacksize": "co_stacksize", "flags": "co_flags", "codestring": "co_code", "constants": "co_consts", "names": "co_names", "varnames": "co_varnames",
              "filename": "co_filename", "name": "co_name", "qualname": "co_qualname", "firstlineno": "co_firstlineno", "lnotab": "co_lnotab",
              "linetable": "co_linetable", "exceptiontable": "co_exceptiontable", "freevars": "co_freevars", "cellvars": "co_cellvars"}


def run(rep, tier):
    rep.explanation = ("specialisation of codeType2Portable and of every to_native per modelled host (3.8-3.13) with a symbolic native / portable object and the "
                       "host's attribute facts: resulting attribute bindings and types.CodeType argument order compared with the host's code-object signature; "
                       "AST def-use of replace()")
    rep.rule("R1", "codeType2Portable on host H builds the class for H and every co_* attribute is the native object's same-named attribute (line table: co_linetable on 3.10+)")
    rep.rule("R2", "to_native passes the fields in host H's types.CodeType positional order and is enabled exactly on the hosts whose selector picks the class")
    rep.rule("R4", "freeze() (run by to_native on its copy) never returns early on a flag it assigns itself and never rewrites an integer-valued field (co_flags, counts, first line)")
    rep.rule("R3", "replace() copies with deepcopy(self), sets fields on the copy only, returns the copy")
    ref = ref_json("codetype.json")["hosts"]
    repo = get_repo()
    for host in HOSTS:
        T = tables(host)
        F = T.F
        hk = "%d.%d" % host
        facts = ref[hk]["native_attrs"]
        ct = F.modules["xdis.codetype"]
        f = ct.ns.get("codeType2Portable")
        if not isinstance(f, FuncRef):
            raise AnalysisError("anchor vanished: xdis.codetype.codeType2Portable")
        rep.analysed(f.qualname)
        code = Sym("code", "obj!")

        def hook(spec, name, fv, args, kw, node, facts=facts):
            if name == "isinstance" and len(args) == 2 and args[0] is code:
                t = args[1]
                # the native object is a types.CodeType and nothing else; a tuple of classes is the usual disjunction
                return any(x is types.CodeType for x in (t if isinstance(t, tuple) else (t,)))
            if name == "hasattr" and len(args) == 2 and args[0] is code and isinstance(args[1], str):
                return bool(facts.get(args[1], True))
            return NotImplemented
        sp = Spec(F, hooks=[hook], opaque_funcs={"check"})
        triple = F.modules["xdis.version_info"].ns["PYTHON_VERSION_TRIPLE"]
        out = sp.run(f, [code], {})
        rets = [l.value for g, l in leaves(out) if isinstance(l, Ret)]
        obj = rets[0] if len(rets) == 1 else None
        okc = isinstance(obj, Instance) and obj.cls.name == EXPECTED_CLASS[host]
        rep.ob("R1", f.qualname, "class@host%s" % hk, okc, expected=EXPECTED_CLASS[host], derived=obj.cls.name if isinstance(obj, Instance) else show(obj),
               msg="on a %s host codeType2Portable(native) builds the wrong portable class" % hk)
        if isinstance(obj, Instance):
            line_attr = "co_linetable" if host >= (3, 10) else "co_lnotab"
            for attr, val in sorted(obj.attrs.items()):
                if not attr.startswith("co_"):
                    continue
                want = "attr(code, '%s')" % attr
                if attr in ("co_lnotab", "co_linetable"):
                    want = "attr(code, '%s')" % line_attr
                got = show(val)
                rep.ob("R1", f.qualname, "%s@host%s" % (attr, hk), got == want, expected=want, derived=got,
                       msg=("the portable object's %s is %s of the native object" % (attr, got)) +
                           (": on 3.10+ the real line table is co_linetable (co_lnotab is a legacy re-encoding)" if attr in ("co_lnotab", "co_linetable") else ""))
            # completeness: every parameter of the host's CodeType has a counterpart
            for p in ref[hk]["codetype_params"]:
                a = PARAM2ATTR[p]
                if a in ("co_lnotab", "co_linetable"):
                    a = line_attr if line_attr in obj.attrs else ("co_lnotab" if "co_lnotab" in obj.attrs else a)
                rep.ob("R1", f.qualname, "has:%s@host%s" % (PARAM2ATTR[p], hk), a in obj.attrs, expected="kept", derived=sorted(k for k in obj.attrs if k.startswith("co_"))[:4])
        # ---------------------------------------------------------------- R2 to_native of every class on this host
        sel = ct.ns.get("portableCodeType")
        try:
            chosen = F.apply(sel, [triple], {})
            chosen_name = chosen.name if isinstance(chosen, ClassRef) else repr(chosen)
        except Exception as e:
            chosen_name = "raises %s" % e
        rep.ob("R2", "xdis.codetype.portableCodeType", "selects@host%s" % hk, chosen_name == EXPECTED_CLASS[host], expected=EXPECTED_CLASS[host], derived=chosen_name)
        for mod, cname in (("xdis.codetype.code13", "Code13"), ("xdis.codetype.code15", "Code15"), ("xdis.codetype.code20", "Code2"), ("xdis.codetype.code30", "Code3"),
                           ("xdis.codetype.code38", "Code38"), ("xdis.codetype.code310", "Code310"), ("xdis.codetype.code311", "Code311")):
            C = F.modules[mod].ns.get(cname)
            if not isinstance(C, ClassRef):
                raise AnalysisError("anchor vanished: %s.%s" % (mod, cname))
            tn = C.lookup("to_native")
            if not isinstance(tn, FuncRef):
                continue
            rep.analysed(tn.qualname)
            me = Instance(C)
            for p in PARAM2ATTR.values():
                me.attrs[p] = Sym("self." + p)

            def hook2(spec, name, fv, args, kw, node):
                if name == "deepcopy" or name.endswith(".deepcopy"):
                    return args[0]
                if name.endswith(".freeze") or name.endswith(".check"):
                    return args[0] if args else None
                return NotImplemented
            sp = Spec(F, hooks=[hook2], opaque_funcs={"freeze", "check"})
            out = sp.run(tn, [me])
            lv = leaves(out)
            enabled = any(isinstance(l, Ret) for g, l in lv)
            should = (cname == EXPECTED_CLASS[host])
            # only the class's own to_native counts (Code311 inherits nothing here; Code13/15 may lack one)
            owner = tn.qualname.split(".")[-2]
            if owner != cname:
                continue
            rep.ob("R2", tn.qualname, "enabled@host%s" % hk, enabled == should, expected=should, derived=enabled,
                   msg="%s.to_native is %s on a %s host, but the selector %s that class there" % (cname, "enabled" if enabled else "refused", hk, "picks" if should else "does not pick"))
            if enabled and should:
                # every returning path constructs the native object from the *current* fields; nothing is memoised on self
                rets_ = [l.value for g, l in lv if isinstance(l, Ret)]
                stale = [show(v_)[:60] for v_ in rets_ if not (isinstance(v_, Op) and v_.op == "call" and (str(v_.args[0]) == "code" or "CodeType" in str(v_.args[0])))]
                selfst = sorted({ast.unparse(n_) for n_ in ast.walk(tn.node) if isinstance(n_, ast.Attribute) and isinstance(n_.ctx, ast.Store) and isinstance(n_.value, ast.Name)
                                 and n_.value.id == "self"} | {ast.unparse(n_) for n_ in ast.walk(tn.node) if isinstance(n_, ast.Call) and isinstance(n_.func, ast.Name)
                                                               and n_.func.id == "setattr" and n_.args and ast.unparse(n_.args[0]) == "self"})
                rep.ob("R2", tn.qualname, "fresh-object@host%s" % hk, not stale and not selfst, expected="every return is types.CodeType(<current fields>); no attribute of self is written",
                       derived={"returns": stale, "stores on self": selfst} if (stale or selfst) else "fresh",
                       msg="to_native returns or keeps an object that is not rebuilt from the current fields: after replace() (a deepcopy) or a field change the stale native object comes back")
                v = [l.value for g, l in lv if isinstance(l, Ret)][0]
                args = list(v.args[1:]) if isinstance(v, Op) and v.op == "call" else None
                want = []
                for p in ref[hk]["codetype_params"]:
                    a = PARAM2ATTR[p]
                    if a in ("co_lnotab", "co_linetable"):
                        a = "co_linetable" if host >= (3, 10) else "co_lnotab"
                    want.append("self." + a)
                got = [show(a) for a in args] if args is not None else show(v)
                rep.ob("R2", tn.qualname, "argument-order@host%s" % hk, got == want, expected=want, derived=got,
                       msg="types.CodeType(...) of a %s host takes %s" % (hk, ref[hk]["codetype_params"]))
        rep.configurations += 1
    # ---------------------------------------------------------------- R3 replace
    nrep = 0
    for q, (m, fn) in sorted(repo.functions.items()):
        if not (q.startswith("xdis.codetype.") and q.endswith(".replace")):
            continue
        nrep += 1
        rep.analysed(q)
        copyvar = None
        for n in ast.walk(fn):
            if isinstance(n, ast.Assign) and isinstance(n.value, ast.Call) and ast.unparse(n.value.func).split(".")[-1] == "deepcopy" and \
                    len(n.value.args) == 1 and ast.unparse(n.value.args[0]) == "self" and isinstance(n.targets[0], ast.Name):
                copyvar = n.targets[0].id
        rep.ob("R3", q, "copy-is-deepcopy(self)", copyvar is not None, expected="<copy> = deepcopy(self)", derived=copyvar)
        sets = [n for n in ast.walk(fn) if isinstance(n, ast.Call) and isinstance(n.func, ast.Name) and n.func.id == "setattr"]
        bad = [ast.unparse(n) for n in sets if not (n.args and isinstance(n.args[0], ast.Name) and n.args[0].id == copyvar)]
        selfstores = [ast.unparse(n) for n in ast.walk(fn) if isinstance(n, (ast.Attribute, ast.Subscript)) and isinstance(n.ctx, (ast.Store, ast.Del)) and
                      ast.unparse(n).startswith("self")]
        rep.ob("R3", q, "mutates-only-the-copy", bool(sets) and not bad and not selfstores, expected="setattr(<copy>, field, value) only", derived=bad + selfstores or len(sets),
               msg="replace() must not alter the original")
        rets = [ast.unparse(n.value) for n in ast.walk(fn) if isinstance(n, ast.Return) and n.value is not None]
        rep.ob("R3", q, "returns-the-copy", rets == [copyvar], expected=copyvar, derived=rets)
    rep.floor("replace() implementations", nrep, 1)
    # ---------------------------------------------------------------- R4 freeze(), which to_native() runs on its copy, is a pure normalisation
    from .c19 import freeze_discipline
    freeze_discipline(rep, repo, "R4")
    rep.assumptions = ["reference/codetype.json (types.CodeType signature and native attribute availability per host 3.8-3.13)",
                       "equality of the rebuilt native object is not evaluated; freeze()/check() are treated as identity on already-frozen fields"]
