"""C16 -- native and portable code objects convert back and forth without loss (DESIGN.md section 4, C16).

 R1 codeType2Portable, specialised per host 3.8-3.13 with the host's attribute-availability facts, builds the class selected for
    that host and binds every co_* attribute to the same-named attribute of the native object; on hosts >= 3.10 the line table
    must originate from co_linetable.
 R2 each to_native passes code.<field> in that host's types.CodeType positional order, and is enabled exactly on the hosts for
    which the selector picks its class.
 R3 replace(): the copy comes from deepcopy(self), every setattr targets the copy, the copy is returned."""
import ast
import types

from ..fold import ClassRef, FuncRef, Instance
from ..report import AnalysisError
from ..repo import get_repo
from ..sve import (Fall, Guard, Op, Raise, Ret, Spec, Sym, flatten_effects, leaves, show)
from ..tables import ref_json, tables

HOSTS = [(3, 8), (3, 9), (3, 10), (3, 11), (3, 12), (3, 13)]
EXPECTED_CLASS = {(3, 8): "Code38", (3, 9): "Code38", (3, 10): "Code310", (3, 11): "Code311", (3, 12): "Code311", (3, 13): "Code311"}
PARAM2ATTR = {"argcount": "co_argcount", "posonlyargcount": "co_posonlyargcount", "kwonlyargcount": "co_kwonlyargcount", "nlocals": "co_nlocals",
              "stacksize": "co_stacksize", "flags": "co_flags", "codestring": "co_code", "constants": "co_consts", "names": "co_names", "varnames": "co_varnames",
              "filename": "co_filename", "name": "co_name", "qualname": "co_qualname", "firstlineno": "co_firstlineno", "lnotab": "co_lnotab",
              "linetable": "co_linetable", "exceptiontable": "co_exceptiontable", "freevars": "co_freevars", "cellvars": "co_cellvars"}


def run(rep, tier):
    rep.explanation = ("specialisation of codeType2Portable and of every to_native per modelled host (3.8-3.13) with a symbolic native / portable object and the "
                       "host's attribute facts: resulting attribute bindings and types.CodeType argument order compared with the host's code-object signature; "
                       "AST def-use of replace()")
    rep.rule("R1", "codeType2Portable on host H builds the class for H and every co_* attribute is the native object's same-named attribute (line table: co_linetable on 3.10+)")
    rep.rule("R2", "to_native passes the fields in host H's types.CodeType positional order and is enabled exactly on the hosts whose selector picks the class")
    rep.rule("R5", "no function of xdis.codetype reachable from the public operations writes module-level, class-level or default-argument state or memoises a mutable result "
                   "(C18's rules R1 and R3, restated for this package): a conversion result does not depend on earlier conversions")
    rep.rule("R6", "the constructor and check() of every portable class accept, without raising, the field record of a valid code object of each parameter-list shape "
                   "(module, positional-only only, positional-only with *args/**kw, keyword-only, mixed, lambda, closure, generator; records written from CPython's code_new rules)")
    rep.rule("R4", "freeze() (run by to_native on its copy) never returns early on a flag it assigns itself and never rewrites an integer-valued field (co_flags, counts, first line)")
    rep.rule("R3", "replace() copies with deepcopy(self), sets fields on the copy only, returns the copy")
    ref = ref_json("codetype.json")["hosts"]
    repo = get_repo()
    for host in HOSTS:
        T = tables(host)
        F = T.F
        hk = "%d.%d" % host
        facts = ref[hk]["native_attrs"]
        ct = F.modules["xdis.codetype"]
        f = ct.ns.get("codeType2Portable")
        if not isinstance(f, FuncRef):
            raise AnalysisError("anchor vanished: xdis.codetype.codeType2Portable")
        rep.analysed(f.qualname)
        code = Sym("code", "obj!")

        def hook(spec, name, fv, args, kw, node, facts=facts):
            if name == "isinstance" and len(args) == 2 and args[0] is code:
                t = args[1]
                # the native object is a types.CodeType and nothing else; a tuple of classes is the usual disjunction
                return any(x is types.CodeType for x in (t if isinstance(t, tuple) else (t,)))
            if name == "hasattr" and len(args) == 2 and args[0] is code and isinstance(args[1], str):
                return bool(facts.get(args[1], True))
            return NotImplemented
        sp = Spec(F, hooks=[hook], opaque_funcs={"check"})
        triple = F.modules["xdis.version_info"].ns["PYTHON_VERSION_TRIPLE"]
        out = sp.run(f, [code], {})
        rets = [l.value for g, l in leaves(out) if isinstance(l, Ret)]
        obj = rets[0] if len(rets) == 1 else None
        okc = isinstance(obj, Instance) and obj.cls.name == EXPECTED_CLASS[host]
        rep.ob("R1", f.qualname, "class@host%s" % hk, okc, expected=EXPECTED_CLASS[host], derived=obj.cls.name if isinstance(obj, Instance) else show(obj),
               msg="on a %s host codeType2Portable(native) builds the wrong portable class" % hk)
        if isinstance(obj, Instance):
            line_attr = "co_linetable" if host >= (3, 10) else "co_lnotab"
            for attr, val in sorted(obj.attrs.items()):
                if not attr.startswith("co_"):
                    continue
                want = "attr(code, '%s')" % attr
                if attr in ("co_lnotab", "co_linetable"):
                    want = "attr(code, '%s')" % line_attr
                got = show(val)
                rep.ob("R1", f.qualname, "%s@host%s" % (attr, hk), got == want, expected=want, derived=got,
                       msg=("the portable object's %s is %s of the native object" % (attr, got)) +
                           (": on 3.10+ the real line table is co_linetable (co_lnotab is a legacy re-encoding)" if attr in ("co_lnotab", "co_linetable") else ""))
            # completeness: every parameter of the host's CodeType has a counterpart
            for p in ref[hk]["codetype_params"]:
                a = PARAM2ATTR[p]
                if a in ("co_lnotab", "co_linetable"):
                    a = line_attr if line_attr in obj.attrs else ("co_lnotab" if "co_lnotab" in obj.attrs else a)
                rep.ob("R1", f.qualname, "has:%s@host%s" % (PARAM2ATTR[p], hk), a in obj.attrs, expected="kept", derived=sorted(k for k in obj.attrs if k.startswith("co_"))[:4])
        # ---------------------------------------------------------------- R2 to_native of every class on this host
        sel = ct.ns.get("portableCodeType")
        try:
            chosen = F.apply(sel, [triple], {})
            chosen_name = chosen.name if isinstance(chosen, ClassRef) else repr(chosen)
        except Exception as e:
            chosen_name = "raises %s" % e
        rep.ob("R2", "xdis.codetype.portableCodeType", "selects@host%s" % hk, chosen_name == EXPECTED_CLASS[host], expected=EXPECTED_CLASS[host], derived=chosen_name)
        for mod, cname in (("xdis.codetype.code13", "Code13"), ("xdis.codetype.code15", "Code15"), ("xdis.codetype.code20", "Code2"), ("xdis.codetype.code30", "Code3"),
                           ("xdis.codetype.code38", "Code38"), ("xdis.codetype.code310", "Code310"), ("xdis.codetype.code311", "Code311")):
            C = F.modules[mod].ns.get(cname)
            if not isinstance(C, ClassRef):
                raise AnalysisError("anchor vanished: %s.%s" % (mod, cname))
            tn = C.lookup("to_native")
            if not isinstance(tn, FuncRef):
                continue
            rep.analysed(tn.qualname)
            me = Instance(C)
            for p in PARAM2ATTR.values():
                me.attrs[p] = Sym("self." + p)

            def hook2(spec, name, fv, args, kw, node):
                if name == "deepcopy" or name.endswith(".deepcopy"):
                    return args[0]
                if name.endswith(".freeze") or name.endswith(".check"):
                    return args[0] if args else None
                return NotImplemented
            sp = Spec(F, hooks=[hook2], opaque_funcs={"freeze", "check"})
            out = sp.run(tn, [me])
            lv = leaves(out)
            enabled = any(isinstance(l, Ret) for g, l in lv)
            should = (cname == EXPECTED_CLASS[host])
            # only the class's own to_native counts (Code311 inherits nothing here; Code13/15 may lack one)
            owner = tn.qualname.split(".")[-2]
            if owner != cname:
                continue
            rep.ob("R2", tn.qualname, "enabled@host%s" % hk, enabled == should, expected=should, derived=enabled,
                   msg="%s.to_native is %s on a %s host, but the selector %s that class there" % (cname, "enabled" if enabled else "refused", hk, "picks" if should else "does not pick"))
            if enabled and should:
                # every returning path constructs the native object from the *current* fields; nothing is memoised on self
                rets_ = [l.value for g, l in lv if isinstance(l, Ret)]
                stale = [show(v_)[:60] for v_ in rets_ if not (isinstance(v_, Op) and v_.op == "call" and (str(v_.args[0]) == "code" or "CodeType" in str(v_.args[0])))]
                selfst = sorted({ast.unparse(n_) for n_ in ast.walk(tn.node) if isinstance(n_, ast.Attribute) and isinstance(n_.ctx, ast.Store) and isinstance(n_.value, ast.Name)
                                 and n_.value.id == "self"} | {ast.unparse(n_) for n_ in ast.walk(tn.node) if isinstance(n_, ast.Call) and isinstance(n_.func, ast.Name)
                                                               and n_.func.id == "setattr" and n_.args and ast.unparse(n_.args[0]) == "self"})
                rep.ob("R2", tn.qualname, "fresh-object@host%s" % hk, not stale and not selfst, expected="every return is types.CodeType(<current fields>); no attribute of self is written",
                       derived={"returns": stale, "stores on self": selfst} if (stale or selfst) else "fresh",
                       msg="to_native returns or keeps an object that is not rebuilt from the current fields: after replace() (a deepcopy) or a field change the stale native object comes back")
                v = [l.value for g, l in lv if isinstance(l, Ret)][0]
                args = list(v.args[1:]) if isinstance(v, Op) and v.op == "call" else None
                want = []
                for p in ref[hk]["codetype_params"]:
                    a = PARAM2ATTR[p]
                    if a in ("co_lnotab", "co_linetable"):
                        a = "co_linetable" if host >= (3, 10) else "co_lnotab"
                    want.append("self." + a)
                got = [show(a) for a in args] if args is not None else show(v)
                rep.ob("R2", tn.qualname, "argument-order@host%s" % hk, got == want, expected=want, derived=got,
                       msg="types.CodeType(...) of a %s host takes %s" % (hk, ref[hk]["codetype_params"]))
        rep.configurations += 1
    # ---------------------------------------------------------------- R3 replace
    nrep = 0
    for q, (m, fn) in sorted(repo.functions.items()):
        if not (q.startswith("xdis.codetype.") and q.endswith(".replace")):
            continue
        nrep += 1
        rep.analysed(q)
        # decided on the specialised method: replace(co_name=N1, co_consts=[K1]) of an object with symbolic fields returns a *different* object of the same class with
        # exactly those two fields changed, leaves every field of the original as it was (containers included), and an unknown field raises TypeError
        modq, cq_ = q.rsplit(".", 2)[0], q.rsplit(".", 2)[1]
        Cr = F.load(modq).ns.get(cq_)
        fr = Cr.lookup("replace") if isinstance(Cr, ClassRef) else None
        if not isinstance(fr, FuncRef):
            raise AnalysisError("anchor vanished: %s" % q)
        me_r = Instance(Cr)
        consts0 = [Sym("c0")]
        names0 = [Sym("n0")]  # a field opened up as a list (the editing mode the class documents) and *not* replaced below
        fields0 = dict(co_name=Sym("N0"), co_flags=Sym("FL"), co_code=Sym("code0"), co_consts=consts0, co_firstlineno=Sym("L0"), co_names=names0)
        me_r.attrs.update(fields0)
        try:
            out_r = Spec(F).run(fr, [me_r], {"co_name": Sym("N1"), "co_consts": [Sym("K1")]})
            rets_r = [l.value for g, l in leaves(out_r) if isinstance(l, Ret)]
            other = [type(l).__name__ for g, l in leaves(out_r) if not isinstance(l, Ret)]
        except Exception as ex:
            rets_r, other = [], ["not evaluable: %s" % ex]
        new_r = rets_r[0] if len(rets_r) == 1 and not other else None
        is_copy = isinstance(new_r, Instance) and new_r is not me_r and new_r.cls is Cr
        rep.ob("R3", q, "copy-is-deepcopy(self)", is_copy, expected="a new object of the same class", derived=show(new_r) if new_r is not None else other[:2] or len(rets_r),
               msg="replace() does not return a new object of the same class")
        orig_ok = all(me_r.attrs.get(k_) is v_ for k_, v_ in fields0.items()) and set(me_r.attrs) == set(fields0) and consts0 == [consts0[0]] and len(consts0) == 1
        rep.ob("R3", q, "mutates-only-the-copy", is_copy and orig_ok, expected="every field of the original unchanged", derived={k_: show(v_)[:30] for k_, v_ in me_r.attrs.items() if fields0.get(k_) is not v_} or "unchanged",
               msg="replace() must not alter the original")
        shared = sorted(k_ for k_, v_ in fields0.items() if isinstance(v_, (list, dict, set)) and isinstance(new_r, Instance) and new_r.attrs.get(k_) is v_)
        rep.ob("R3", q, "copy-shares-no-mutable-field", is_copy and not shared and names0 == [names0[0]] and isinstance(new_r, Instance) and new_r.attrs.get("co_names") == names0,
               expected="a field held as a list and not replaced is an equal but separate list in the copy", derived=("shared with the original: %s" % shared) if shared else "separate",
               msg="replace() returns an object that shares %s with the original: editing the copy in place alters the original (and what to_native() builds from it)" % (shared or "a field"))
        want_new = dict(fields0, co_name="N1", co_consts="[K1]")
        got_new = {k_: show(v_) for k_, v_ in (new_r.attrs.items() if isinstance(new_r, Instance) else [])}
        changed_ok = is_copy and got_new.get("co_name") == "N1" and got_new.get("co_consts") == "[K1]" and all(got_new.get(k_) == show(fields0[k_]) for k_ in ("co_flags", "co_code", "co_firstlineno")) \
            and (new_r.attrs.get("co_consts") is not consts0)
        rep.ob("R3", q, "returns-the-copy", changed_ok, expected="the copy with co_name and co_consts replaced and the other fields kept", derived=got_new or None,
               msg="replace(**fields) does not return a copy with exactly those fields changed")
        try:
            out_b = Spec(F).run(fr, [me_r], {"co_no_such_field": Sym("X")})
            kinds_b = sorted({(show(l.exc) if isinstance(l, Raise) else type(l).__name__) for g, l in leaves(out_b)})
        except Exception as ex:
            kinds_b = ["not evaluable: %s" % ex]
        rep.ob("R3", q, "unknown-field-raises", kinds_b == ["exc('TypeError')"], expected="TypeError", derived=kinds_b,
               msg="replace() with a field the object does not have does not raise TypeError")
    rep.floor("replace() implementations", nrep, 1)
    # ---------------------------------------------------------------- R6 the constructors' own validity checks accept valid field records
    # Field records of valid code objects, one per parameter-list shape CPython's compiler produces (Objects/codeobject.c, code_new / _PyCode_Validate:
    # co_argcount *includes* the positional-only parameters; co_argcount + co_kwonlyargcount + *args + **kw <= len(co_varnames); flags 0x04 VARARGS, 0x08 VARKEYWORDS).
    base_rec = dict(co_nlocals=0, co_stacksize=1, co_code=b"d\x00S\x00", co_consts=(None,), co_names=(), co_filename="m.py", co_qualname="f", co_firstlineno=1, co_lnotab=b"\x00\x01",
                    co_linetable=b"\x04\x01", co_exceptiontable=b"", co_freevars=(), co_cellvars=())
    WITNESSES = [
        ("module", dict(co_argcount=0, co_posonlyargcount=0, co_kwonlyargcount=0, co_flags=0x40, co_varnames=(), co_name="<module>")),
        ("def f(a, /)", dict(co_argcount=1, co_posonlyargcount=1, co_kwonlyargcount=0, co_flags=0x43, co_varnames=("a",), co_nlocals=1, co_name="f")),
        ("def f(a, b, c, /)", dict(co_argcount=3, co_posonlyargcount=3, co_kwonlyargcount=0, co_flags=0x43, co_varnames=("a", "b", "c"), co_nlocals=3, co_name="f")),
        ("def g(self, /, *args, **kw)", dict(co_argcount=1, co_posonlyargcount=1, co_kwonlyargcount=0, co_flags=0x4F, co_varnames=("self", "args", "kw"), co_nlocals=3, co_name="g")),
        ("def h(a, b=1, *, c, d=2)", dict(co_argcount=2, co_posonlyargcount=0, co_kwonlyargcount=2, co_flags=0x43, co_varnames=("a", "b", "c", "d"), co_nlocals=4, co_name="h")),
        ("def k(a, /, b, *, c)", dict(co_argcount=2, co_posonlyargcount=1, co_kwonlyargcount=1, co_flags=0x43, co_varnames=("a", "b", "c"), co_nlocals=3, co_name="k")),
        ("lambda x, /: x", dict(co_argcount=1, co_posonlyargcount=1, co_kwonlyargcount=0, co_flags=0x43, co_varnames=("x",), co_nlocals=1, co_name="<lambda>")),
        ("closure", dict(co_argcount=1, co_posonlyargcount=0, co_kwonlyargcount=0, co_flags=0x13, co_varnames=("a", "t"), co_nlocals=2, co_name="inner", co_freevars=("y",), co_cellvars=("z",))),
        ("generator, no parameters, one local", dict(co_argcount=0, co_posonlyargcount=0, co_kwonlyargcount=0, co_flags=0x63, co_varnames=("i",), co_nlocals=1, co_name="gen")),
    ]
    n6 = 0
    for mod, cname in (("xdis.codetype.code13", "Code13"), ("xdis.codetype.code15", "Code15"), ("xdis.codetype.code20", "Code2"), ("xdis.codetype.code30", "Code3"),
                       ("xdis.codetype.code38", "Code38"), ("xdis.codetype.code310", "Code310"), ("xdis.codetype.code311", "Code311")):
        C6 = F.load(mod).ns.get(cname)
        ini6 = C6.lookup("__init__") if isinstance(C6, ClassRef) else None
        chk6 = C6.lookup("check") if isinstance(C6, ClassRef) else None
        if not isinstance(ini6, FuncRef):
            raise AnalysisError("anchor vanished: %s.%s.__init__" % (mod, cname))
        pnames = [a.arg for a in ini6.node.args.args[1:]]
        for label, rec in WITNESSES:
            full = dict(base_rec, **rec)
            missing = [p_ for p_ in pnames if p_ not in full]
            if missing:
                raise AnalysisError("%s.__init__ takes %s, which the witness records do not define" % (cname, missing))
            me6 = Instance(C6)
            refused = []
            try:
                outs = [("constructor", Spec(F).run(ini6, [me6], {k_: full[k_] for k_ in pnames}))]
                if isinstance(chk6, FuncRef):
                    outs.append(("check()", Spec(F).run(chk6, [me6], {})))
                for what, o_ in outs:
                    for g_, l_ in leaves(o_):
                        if isinstance(l_, Raise) and not g_:
                            refused.append("%s raises %s" % (what, show(l_.exc)[:60]))
            except Exception as ex:
                refused.append("raises %s: %s" % (type(ex).__name__, str(ex)[:80]))
            n6 += 1
            rep.ob("R6", (chk6 or ini6).qualname if refused and "check" in refused[0] else ini6.qualname, "%s:accepts:%s" % (cname, label), not refused,
                   expected="the field record of a valid code object is accepted", derived=refused[:2] or "accepted",
                   msg="%s refuses the fields of `%s` (%s): such a native code object cannot be converted at all" % (cname, label, "; ".join(refused[:1])))
    rep.floor("constructor validity checks decided on witness records", n6, 60)
    # ---------------------------------------------------------------- R4 freeze(), which to_native() runs on its copy, is a pure normalisation
    from .c19 import freeze_discipline
    freeze_discipline(rep, repo, "R4")
    # ---------------------------------------------------------------- R5 the conversion keeps nothing from one call to the next (C18's audit, restricted to xdis.codetype)
    from ..report import SubReport, merge_sub
    from . import c18
    sub18 = SubReport("C18", tier=tier)
    c18.run(sub18, tier)
    merge_sub(rep, sub18, "R5", "C18", only_rules=("R1", "R3"), only_constructs=lambda c_: c_.startswith("xdis.codetype."))
    rep.assumptions = ["reference/codetype.json (types.CodeType signature and native attribute availability per host 3.8-3.13)",
                       "equality of the rebuilt native object is not evaluated; freeze()/check() are treated as identity on already-frozen fields"]
