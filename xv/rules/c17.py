"""C17 -- 3.11+ exception and position tables decode as CPython decodes them (DESIGN.md section 4, C17).

 R1 _parse_varint (exception table): 6-bit payload, continuation bit 64, most-significant group first
 R2 exception entries: start = 2*v0, end = start + 2*v1, target = 2*v2, depth = v3 >> 1, lasti = v3 & 1
 R3 the three location decoders (parse_location_entries = Code311.co_positions, decode_linetable_entry/_get_line_delta = co_lines,
    decode_position_entry): first-byte fields, per-code formulas, little-endian 6-bit varints with zig-zag sign -- compared with
    Objects/locations.md and with each other.  The *configuration* enumerated is the entry's first byte (code, length) and the byte
    length of each varint; the 6-bit payloads, column bytes and the previous line stay symbolic.
 R4 format_exception_table prints the inclusive end (end - 2)"""
import ast
import itertools

from ..fold import ClassRef, FuncRef, Instance
from ..report import AnalysisError
from ..sve import (Cont, Fall, Guard, Lin, Op, Raise, Ret, Spec, Sym, add, binop, bits, flatten_effects, leaves, mul, show)
from ..tables import tables


def pay(name, cont):
    """a varint payload byte: bit 7 clear, bit 6 = continuation (concrete), low six bits symbolic"""
    x = Sym(name, "int", {"width": 6})
    return (add(x, 64) if cont else x), x


def raw(name):
    return Sym(name, "int", {"width": 7})


def uvarint(xs):
    """little-endian 6-bit groups"""
    t = 0
    for i, x in enumerate(xs):
        t = add(t, mul(x, 64 ** i))
    return t


def svarint(xs):
    v = uvarint(xs)
    low = bits(v, 0, 1)
    half = binop(ast.RShift(), v, 1)
    return Guard(low, mul(half, -1), half)


def gadd(base, g):
    if isinstance(g, Guard):
        return Guard(g.cond, add(base, g.a), add(base, g.b))
    return add(base, g)


def location_rules(rep, T, rule="R3", which=("parse_location_entries", "decode_position_entry", "decode_linetable_entry")):
    """R3 of C17 (also used by C05 as its R4 for the line decoder)"""
    F = T.F
    c311 = F.modules.get("xdis.codetype.code311")
    if c311 is None:
        raise AnalysisError("anchor vanished: xdis.codetype.code311")
    # ---------------------------------------------------------------- R3 location decoders
    FL = Sym("first_line", "int")
    ple = c311.ns.get("parse_location_entries")
    dpe = c311.ns.get("decode_position_entry")
    dle = c311.ns.get("decode_linetable_entry")
    for nm, fobj in (("parse_location_entries", ple), ("decode_position_entry", dpe), ("decode_linetable_entry", dle)):
        if not isinstance(fobj, FuncRef):
            raise AnalysisError("anchor vanished: xdis.codetype.code311.%s" % nm)
        rep.analysed(fobj.qualname)
    nconf = 0
    agg = {}

    def ob3(fq, cfg, field, ok, expected=None, derived=None, msg=None):
        code_ = cfg.split(":")[0]
        k = (fq, code_, field)
        a = agg.setdefault(k, {"ok": True, "n": 0, "bad": []})
        a["n"] += 1
        if not ok:
            a["ok"] = False
            a["bad"].append((cfg, expected, derived, msg))

    def configs():
        for code in range(16):
            for ln in (1, 5, 8):
                first = 0x80 | (code << 3) | (ln - 1)
                if code <= 9:
                    yield code, ln, first, [("raw", 1)]
                elif code <= 12:
                    yield code, ln, first, [("raw", 1), ("raw", 1)]
                elif code == 13:
                    for k in (1, 2, 3):
                        yield code, ln, first, [("var", k)]
                elif code == 14:
                    if ln != 1:
                        continue
                    for ks in itertools.product((1, 2), repeat=4):
                        yield code, ln, first, [("var", k) for k in ks]
                    yield code, ln, first, [("var", 3), ("var", 1), ("var", 1), ("var", 3)]
                else:
                    yield code, ln, first, []

    for code, ln, first, shape in configs():
        nconf += 1
        payload, groups = [], []
        n = 0
        for kind, k in shape:
            if kind == "raw":
                n += 1
                r = raw("p%d" % n)
                payload.append(r)
                groups.append(r)
            else:
                xs = []
                for j in range(k):
                    n += 1
                    b, x = pay("x%d" % n, j < k - 1)
                    payload.append(b)
                    xs.append(x)
                groups.append(xs)
        cfg = "code=%d:len=%d:%s" % (code, ln, "".join("r" if kd == "raw" else str(k) for kd, k in shape) or "-")
        # expected per Objects/locations.md
        if code <= 9:
            col = add(8 * code, bits(groups[0], 4, 3))
            want = (ln, FL, FL, col, add(col, bits(groups[0], 0, 4)))
            dline = 0
        elif code <= 12:
            dline = code - 10
            want = (ln, add(FL, dline), add(FL, dline), groups[0], groups[1])
        elif code == 13:
            dline = svarint(groups[0])
            sl = gadd(FL, dline)
            want = (ln, sl, sl, None, None)
        elif code == 14:
            dline = svarint(groups[0])
            sl = gadd(FL, dline)
            el = gadd(uvarint(groups[1]), sl) if not isinstance(sl, Guard) else Guard(sl.cond, add(sl.a, uvarint(groups[1])), add(sl.b, uvarint(groups[1])))
            want = (ln, sl, el, add(uvarint(groups[2]), -1), add(uvarint(groups[3]), -1))
        else:
            dline = 0
            want = (ln, None, None, None, None)
        # ---- parse_location_entries (what Code311.co_positions() returns)
        names = ("length", "start_line", "end_line", "start_column", "end_column")
        ent = "skip"
        if "parse_location_entries" in which:
            sp = Spec(F)
            sp.eager_generators = True
            out = sp.run(ple, [[first] + payload, FL])
            rets = [l.value for g, l in leaves(out) if isinstance(l, Ret)]
            ent = rets[0][0] if len(rets) == 1 and isinstance(rets[0], list) and len(rets[0]) == 1 else None
        if ent == "skip":
            pass
        elif ent is None or not isinstance(ent, tuple) or len(ent) != 5:
            ob3(ple.qualname, cfg, "entry", False, expected="one 5-tuple", derived=show(rets)[:200])
        else:
            for i, nm in enumerate(names):
                ok = repr(ent[i]) == repr(want[i])
                if not ok and isinstance(want[i], Guard) and isinstance(ent[i], Guard):
                    ok = repr(ent[i].cond) == repr(want[i].cond) and repr(ent[i].a) == repr(want[i].a) and repr(ent[i].b) == repr(want[i].b)
                ob3(ple.qualname, cfg, nm, ok, expected=show(want[i]), derived=show(ent[i]),
                    msg="co_positions(): %s of a code-%d location entry differs from CPython (%s)" % (nm, code, "long form stores column + 1" if code == 14 and "column" in nm else "locations.md"))
        # ---- the line carried to the next entry: a following one-line entry (code 10, delta 0) must start on this entry's line, or on the
        #      line before it when this entry has none
        if "parse_location_entries" in which and isinstance(ent, tuple) and ln == 1:
            q1, q2 = raw("q1"), raw("q2")
            sp = Spec(F)
            sp.eager_generators = True
            out2 = sp.run(ple, [[first] + payload + [0x80 | (10 << 3) | 0, q1, q2], FL])
            rets2 = [l.value for g, l in leaves(out2) if isinstance(l, Ret)]
            nxt = rets2[0][1] if len(rets2) == 1 and isinstance(rets2[0], list) and len(rets2[0]) == 2 and isinstance(rets2[0][1], tuple) else None
            base = want[1] if want[1] is not None else FL
            okr = nxt is not None and repr(nxt[1]) == repr(base)
            if not okr and nxt is not None and isinstance(base, Guard) and isinstance(nxt[1], Guard):
                okr = repr(nxt[1].cond) == repr(base.cond) and repr(nxt[1].a) == repr(base.a) and repr(nxt[1].b) == repr(base.b)
            ob3(ple.qualname, cfg, "line-carried-to-next-entry", okr, expected=show(base), derived=show(nxt[1]) if nxt is not None else show(rets2)[:120],
                msg="co_positions(): the entry after a code-%d entry starts from the wrong line (every entry's line, with or without columns, is the base of the next delta)" % code)
        # ---- decode_position_entry / decode_linetable_entry: same bytes through an iterator
        for fobj, label in ((dpe, "position"), (dle, "line")):
            if fobj.name not in which:
                continue
            sp = Spec(F)
            sp.eager_generators = True
            # the entry records are built as objects with named fields, whether the constructor is called with keywords or positionally
            sp.record_classes = {n_ for n_, v_ in c311.ns.items() if isinstance(v_, ClassRef) and not isinstance(v_.lookup("__init__"), FuncRef)}
            itr = iter(list(payload))
            res = sp.call(fobj, [first, itr], {}, None, {})
            if isinstance(res, Instance):
                kw = dict(res.attrs)
            elif isinstance(res, Op) and res.op == "new":
                kw = dict(res.args[1])
            else:
                ob3(fobj.qualname, cfg, "result", False, expected="an entry record", derived=show(res)[:200])
                continue
            ob3(fobj.qualname, cfg, "code_delta", kw.get("code_delta") == 2 * ln, expected=2 * ln, derived=show(kw.get("code_delta")))
            ob3(fobj.qualname, cfg, "no_line_flag", kw.get("no_line_flag") is (code == 15), expected=(code == 15), derived=show(kw.get("no_line_flag")))
            got = kw.get("line_delta")
            ok = repr(got) == repr(dline)
            if not ok and isinstance(dline, Guard) and isinstance(got, Guard):
                ok = repr(got.cond) == repr(dline.cond) and repr(got.a) == repr(dline.a) and repr(got.b) == repr(dline.b)
            ob3(fobj.qualname, cfg, "line_delta", ok, expected=show(dline), derived=show(got),
                msg="line delta of a code-%d entry differs from locations.md" % code)
            if label == "position" and code != 15:
                if code <= 9:
                    wcol, wend = want[3], want[4]
                elif code <= 12:
                    wcol, wend = groups[0], groups[1]
                elif code == 13:
                    wcol, wend = -1, -1
                else:
                    wcol, wend = want[3], want[4]
                ob3(fobj.qualname, cfg, "column", repr(kw.get("column")) == repr(wcol), expected=show(wcol), derived=show(kw.get("column")))
                ob3(fobj.qualname, cfg, "endcolumn", repr(kw.get("endcolumn")) == repr(wend), expected=show(wend), derived=show(kw.get("endcolumn")))
                if code == 14:
                    ob3(fobj.qualname, cfg, "num_lines", repr(kw.get("num_lines")) == repr(uvarint(groups[1])), expected=show(uvarint(groups[1])), derived=show(kw.get("num_lines")))
    for (fq, code_, field), a in sorted(agg.items()):
        if a["ok"]:
            rep.ob(rule, fq, "%s:%s" % (code_, field), True, expected="per locations.md", derived="equal in %d configurations" % a["n"])
        else:
            cfg, exp, got, msg = a["bad"][0]
            rep.ob(rule, fq, "%s:%s" % (code_, field), False, expected=exp, derived={"first failing configuration": cfg, "derived": got, "failing": len(a["bad"]), "of": a["n"]}, msg=msg)
    rep.configurations = nconf
    rep.floor("location-entry configurations", nconf, 60)
    return nconf


def walk_terms(t, out):
    if isinstance(t, (Sym,)):
        out[repr(t)] = t
    elif isinstance(t, Op):
        if t.op == "attr":
            out[repr(t)] = t
        for a in t.args:
            walk_terms(a, out)
    elif isinstance(t, Guard):
        walk_terms(t.cond, out); walk_terms(t.a, out); walk_terms(t.b, out)
    elif isinstance(t, Lin):
        for a in t.terms:
            walk_terms(a, out)
    elif isinstance(t, (tuple, list)):
        for a in t:
            walk_terms(a, out)
    return out


def colines_ranges_rule(rep, T, rule):
    """co_lines() of 3.11+: the ranges built from the decoded entries give every code unit the line of its entry.
    One-iteration summary of parse_linetable's range loop; the extracted yield condition, yielded triple and loop-carried
    updates are evaluated over the finite abstraction (line delta zero / non-zero) x (entry has a line) x (current range has a line)."""
    from ..sve import eval_term
    F = T.F
    c311 = F.modules.get("xdis.codetype.code311")
    f = c311.ns.get("parse_linetable") if c311 is not None else None
    if not isinstance(f, FuncRef):
        raise AnalysisError("anchor vanished: xdis.codetype.code311.parse_linetable")
    rep.analysed(f.qualname)
    FQ = f.qualname
    sp = Spec(F, opaque_funcs={"decode_linetable_entry", "_go_to_next_code_byte"})
    sp.eager_generators = True
    first = Sym("first_lineno", "int")
    sp.run(f, [Sym("linetable", "bytes"), first])
    loops = [e.args[3] for k, e in flatten_effects(sp.effects) if k in ("loop", "loop-begin")]
    merge = [ls for ls in loops if any(x.kind == "yield" for x in ls.effects)]
    tail = [e for e in sp.effects if e.kind == "yield"]
    if len(merge) != 1 or len(tail) != 1:
        rep.ob(rule, FQ, "co_lines:shape", False, expected="one loop over the decoded entries that yields ranges, and one final yield", derived=[len(merge), len(tail)],
               msg="the range construction of co_lines() is not the recognised accumulate-and-emit loop")
        return
    ls = merge[0]
    names = {}
    for n, v in ls.head.items() if hasattr(ls, "head") and ls.head else []:
        pass
    lv = [(g, l) for g, l in leaves(ls.out) if isinstance(l, (Fall, Cont))]
    ys = [x for x in ls.effects if x.kind == "yield"]
    terms = {}
    for g, l in lv:
        walk_terms(list(g), terms)
        walk_terms([v for k_, v in l.env.items() if isinstance(k_, str)], terms)
    for y in ys:
        walk_terms(list(y.guards) + [y.args[0]], terms)
    elem_attr = {}
    carried = {}
    for r_, t in terms.items():
        if isinstance(t, Op) and t.op == "attr" and isinstance(t.args[0], Sym) and t.args[0].name == ls.tag + ":elem":
            elem_attr[t.args[1]] = r_
        elif isinstance(t, Sym) and t.name.startswith(ls.tag + ":") and not t.name.endswith(":elem"):
            carried[t.name.split(":", 1)[1]] = r_
    # identify the roles of the loop-carried variables from the initial values
    pre = ls.pre
    role = {}
    for n, v in pre.items():
        if not isinstance(n, str) or n not in carried:
            continue
        sv = show(v)
        if sv == "0":
            role["start"] = n
        elif sv.endswith("'code_delta')"):
            role["end"] = n
        elif "'line_delta')" in sv and "first_lineno" in sv:
            role["line"] = n
        elif sv.endswith("'no_line_flag')"):
            role["flag"] = n
    need_attrs = {"line_delta", "no_line_flag", "code_delta"}
    ok_shape = set(role) == {"start", "end", "line", "flag"} and need_attrs <= set(elem_attr)
    rep.ob(rule, FQ, "co_lines:initial-range", ok_shape, expected="start=0, end=first.code_delta, line=first_lineno+first.line_delta, flag=first.no_line_flag",
           derived={n: show(v)[:60] for n, v in pre.items() if isinstance(n, str) and n in carried},
           msg="the first range of co_lines() does not start at 0 with the first entry's length, line and no-line flag")
    if not ok_shape:
        return
    bad = []
    n_eval = 0
    for d in (-2, 0, 3):
        for fe in (False, True):
            if fe and d != 0:
                continue
            for fl in (False, True):
                val = {elem_attr["line_delta"]: d, elem_attr["no_line_flag"]: fe, elem_attr["code_delta"]: 6,
                       carried[role["start"]]: 10, carried[role["end"]]: 14, carried[role["line"]]: 100, carried[role["flag"]]: fl}
                n_eval += 1
                cur_line = None if fl else 100
                ent_line = None if fe else 100 + d
                try:
                    emitted = [eval_term(y.args[0], val) for y in ys if all(eval_term(c, val) for c in y.guards if not (isinstance(c, Op) and c.op == "in-loop") and not isinstance(c, Sym))]
                    post = None
                    for g, l in lv:
                        if all(eval_term(c, val) for c in g):
                            post = {r: eval_term(l.env[role[r]], val) for r in role}
                            break
                except Exception as ex:
                    bad.append("not evaluable: %s" % ex)
                    break
                cfg = "delta=%d entry-no-line=%s range-no-line=%s" % (d, fe, fl)
                if post is None:
                    bad.append("%s: no continuing path" % cfg)
                    continue
                if ent_line != cur_line and emitted != [(10, 14, cur_line)]:
                    bad.append("%s: the current range must be emitted as (start, end, %r) before a unit with line %r is added; emitted %r" % (cfg, cur_line, ent_line, emitted))
                elif emitted not in ([], [(10, 14, cur_line)]):
                    bad.append("%s: emitted %r" % (cfg, emitted))
                want_start = 14 if emitted else 10
                eff_line = None if post["flag"] else post["line"]
                if post["start"] != want_start or post["end"] != 20 or eff_line != ent_line or post["line"] != 100 + d:
                    bad.append("%s: after the entry the open range is (%r, %r, line %r, running line %r); expected (%d, 20, line %r, running line %d)" % (
                        cfg, post["start"], post["end"], eff_line, post["line"], want_start, ent_line, 100 + d))
    rep.ob(rule, FQ, "co_lines:range-per-entry", not bad, expected="a unit whose line differs from the open range closes it; the open range then carries the entry's line; end advances by the entry's length",
           derived=bad[:4] or "%d abstract configurations agree" % n_eval,
           msg="co_lines() attributes some code units to the wrong line: %s" % "; ".join(bad[:2]))
    ty = tail[0].args[0]
    want_tail = "(after-%s:%s, after-%s:%s, (after-%s:%s ? None : after-%s:%s))" % (ls.tag, role["start"], ls.tag, role["end"], ls.tag, role["flag"], ls.tag, role["line"])
    rep.ob(rule, FQ, "co_lines:final-range", show(ty) == want_tail, expected=want_tail, derived=show(ty),
           msg="the last open range is not emitted as (start, end, None if no-line else line)")


def run(rep, tier):
    rep.explanation = ("specialisation of the 3.11+ table decoders with the entry's first byte and the varint byte-lengths as the enumerated configuration and all "
                       "payload bits symbolic (bit-field normal forms); the resulting straight-line terms are compared with terms built from Objects/locations.md "
                       "and exception_handling_notes.txt; loop-idiom summary of the exception-table varint")
    rep.rule("R1", "_parse_varint: value = first & 63; while byte & 64: value = (value << 6) | (next & 63) -- big-endian 6-bit groups with continuation bit 64")
    rep.rule("R2", "exception entry = (2*v0, 2*v0 + 2*v1, 2*v2, v3 >> 1, bool(v3 & 1)) from four consecutive varints")
    rep.rule("R3", "location entries: length = (b & 7) + 1 code units; code = (b >> 3) & 15; short / one-line / no-column / long / none forms per locations.md; "
                   "varints little-endian 6-bit with continuation 64; signed = zig-zag; long form columns are stored + 1")
    rep.rule("R4", "the listing prints end - 2 (inclusive end) for each exception entry; three listings rendered one after the other (concrete entries, folded) each show exactly the rows of their own entries")
    rep.rule("R5", "co_lines(): a code unit whose line (or no-line status) differs from the open range closes that range; every range is emitted as "
                   "(start, end, None if no-line else line); the running line accumulates every delta")
    T = tables()
    F = T.F
    bc = F.modules["xdis.bytecode"]
    c311 = F.modules.get("xdis.codetype.code311")
    if c311 is None:
        raise AnalysisError("anchor vanished: xdis.codetype.code311")
    # ---------------------------------------------------------------- R1
    pv = bc.ns.get("_parse_varint")
    if not isinstance(pv, FuncRef):
        raise AnalysisError("anchor vanished: xdis.bytecode._parse_varint")
    rep.analysed(pv.qualname)
    it = Sym("it", "iter", {"of": Sym("table", "bytes")})
    sp = Spec(F)
    out = sp.run(pv, [it])
    nexts = [e.args[1] for k, e in flatten_effects(sp.effects) if k == "next"]
    loops = [e.args[3] for k, e in flatten_effects(sp.effects) if k == "loop-begin"]
    PV = pv.qualname
    if len(loops) != 1 or len(nexts) != 2:
        rep.ob("R1", PV, "shape", False, expected="one read, then a loop with one read per iteration", derived=[len(nexts), len(loops)])
    else:
        ls = loops[0]
        b0, b1 = nexts
        valn = [n for n, hv in ls.head.items() if isinstance(n, str) and isinstance(hv, Sym) and hv.name.startswith(ls.tag) and repr(ls.pre.get(n)) == repr(bits(b0, 0, 6))]
        rep.ob("R1", PV, "first-group", len(valn) == 1, expected="value = first & 63", derived={n: show(ls.pre.get(n)) for n in ls.pre if isinstance(n, str) and n in ("val", "b") or n in valn})
        cond_ok = False
        for n, hv in ls.head.items():
            if isinstance(n, str) and repr(ls.pre.get(n)) == repr(b0):
                cond_ok = show(ls.cond) in ("64*%s" % show(bits(hv, 6, 1)), show(bits(hv, 6, 1)), "bits(%s, 6, 1)" % show(hv))
        rep.ob("R1", PV, "continuation-bit-64", cond_ok, expected="loop while (last byte & 64)", derived=show(ls.cond))
        if valn:
            hv = ls.head[valn[0]]
            lv = [l for g, l in leaves(ls.out) if isinstance(l, (Fall, Cont))]
            got = lv[0].env.get(valn[0]) if len(lv) == 1 else None
            want1 = binop(ast.BitOr(), mul(hv, 64), bits(b1, 0, 6))
            want2 = add(mul(hv, 64), bits(b1, 0, 6))
            rep.ob("R1", PV, "big-endian-accumulation", repr(got) in (repr(want1), repr(want2)), expected=show(want1), derived=show(got),
                   msg="each continuation group must shift the accumulated value left by 6 and add the low 6 bits of the next byte")
            rets = [l.value for g, l in leaves(out) if isinstance(l, Ret)]
            rep.ob("R1", PV, "returns-accumulator", len(rets) == 1 and isinstance(rets[0], Sym) and rets[0].name == "after-" + hv.name, expected="the accumulated value", derived=[show(r) for r in rets])
    # ---------------------------------------------------------------- R2
    pet = bc.ns.get("parse_exception_table")
    if not isinstance(pet, FuncRef):
        raise AnalysisError("anchor vanished: xdis.bytecode.parse_exception_table")
    rep.analysed(pet.qualname)
    vs = []

    def hook(spec, name, fv, args, kw, node):
        if name.endswith("_parse_varint"):
            v = Sym("v%d" % len(vs), "int")
            vs.append(v)
            return v
        return NotImplemented
    sp = Spec(F, hooks=[hook])
    sp.summarise_constant_loops = True
    sp.run(pet, [Sym("table", "bytes")])
    apps = [e for k, e in flatten_effects(sp.effects) if k == "mutate" and e.args[0] == "append"]
    PE = pet.qualname
    if len(apps) != 1 or len(vs) < 4:
        rep.ob("R2", PE, "entry-shape", False, expected="four varints per entry, one append", derived=[len(vs), len(apps)])
    else:
        ent = apps[0].args[2][0]
        v0, v1, v2, v3 = vs[-4:]
        want = {"start": mul(v0, 2), "end": add(mul(v0, 2), mul(v1, 2)), "target": mul(v2, 2), "depth": binop(ast.RShift(), v3, 1), "lasti": Op("bool", bits(v3, 0, 1))}
        fields = getattr(ent, "_fields", None)
        if not fields:
            rep.ob("R2", PE, "entry-record", False, expected="_ExceptionTableEntry(start, end, target, depth, lasti)", derived=show(ent))
        else:
            for fn_ in ("start", "end", "target", "depth", "lasti"):
                got = getattr(ent, fn_, None)
                rep.ob("R2", PE, "field:%s" % fn_, repr(got) == repr(want[fn_]), expected=show(want[fn_]), derived=show(got),
                       msg="exception-table field %s decoded differently from CPython's _parse_exception_table" % fn_)
    # ---------------------------------------------------------------- R4
    fet = F.modules["xdis.cross_dis"].ns.get("format_exception_table")
    if not isinstance(fet, FuncRef):
        raise AnalysisError("anchor vanished: xdis.cross_dis.format_exception_table")
    rep.analysed(fet.qualname)
    sp = Spec(F)
    sp.gen_elem_hook = None
    bco = Sym("bytecode", "obj!")
    sp.assume[repr(Op("hasattr", bco, "exception_entries"))] = True
    sp.run(fet, [bco, (3, 12)])
    txt = " ".join(show(e.args[2]) for k, e in flatten_effects(sp.effects) if k == "mutate")
    rep.ob("R4", fet.qualname, "prints-end-minus-2", "'end') + -2" in txt or "-2 + attr(" in txt, expected="entry.end - 2", derived=txt[:200])
    # the rendered rows, decided on concrete entries: two listings in a row, each must show exactly its own entries (dis._print_exception_table's row format)
    import copy as _copy
    E_ = F.modules["xdis.bytecode"].ns.get("_ExceptionTableEntry")
    B_ = F.modules["xdis.bytecode"].ns.get("Bytecode")
    if not (isinstance(E_, type) and isinstance(B_, ClassRef)):
        raise AnalysisError("anchor vanished: xdis.bytecode._ExceptionTableEntry / Bytecode")
    cd_ns = F.modules["xdis.cross_dis"].ns
    saved_ns = {k_: _copy.copy(v_) for k_, v_ in cd_ns.items() if isinstance(v_, (list, dict, set))}
    listings = [[(10, 20, 30, 1, True), (40, 44, 50, 0, False)], [(6, 8, 12, 3, False)], [(10, 20, 30, 1, True), (40, 44, 50, 0, False)]]
    try:
        for i_, ents in enumerate(listings):
            bc_ = Instance(B_)
            bc_.attrs["exception_entries"] = [E_(*e_) for e_ in ents]
            want_txt = "\n".join(["ExceptionTable:"] + ["  %d to %d -> %d [%d]%s" % (st_, en_ - 2, tg_, dp_, " lasti" if la_ else "") for st_, en_, tg_, dp_, la_ in ents])
            try:
                got_txt = F.apply(fet, [bc_, (3, 12)], {})
            except Exception as ex:
                got_txt = "not evaluable: %s" % ex
            rep.ob("R4", fet.qualname, "rows:listing-%d-of-%d-in-one-process" % (i_ + 1, len(listings)), got_txt == want_txt, expected=want_txt, derived=got_txt,
                   msg="the ExceptionTable section of listing %d (after %d earlier listings) is %r, not the rows of its own entries %r" % (i_ + 1, i_, got_txt, want_txt))
    finally:
        for k_, v_ in saved_ns.items():
            cur = cd_ns.get(k_)
            if isinstance(cur, list):
                cur[:] = v_
            elif isinstance(cur, (dict, set)):
                cur.clear()
                cur.update(v_)
    # the table is rendered for every version tuple the loader produces for a 3.11+ magic (2- and 3-component tuples both occur), and for none before
    from .marshal_rules import accepted_magics
    shapes = {}
    for mg, passed, version in accepted_magics(T):
        if isinstance(version, tuple):
            shapes.setdefault(tuple(version), mg)
    n_shapes = 0
    for vt_, mg in sorted(shapes.items()):
        if not (vt_[:2] >= (3, 9)):
            continue
        n_shapes += 1
        sp = Spec(F)
        sp.gen_elem_hook = None
        sp.assume[repr(Op("hasattr", bco, "exception_entries"))] = True
        out_ = sp.run(fet, [bco, vt_])
        rets_ = [l.value for g, l in leaves(out_) if isinstance(l, Ret)]
        shown = any(k == "loop-begin" or (k == "mutate") for k, e in flatten_effects(sp.effects)) and not all(r == "" for r in rets_)
        want_shown = vt_[:2] >= (3, 11)
        rep.ob("R4", fet.qualname, "rendered@%s" % ".".join(str(x) for x in vt_), shown == want_shown, expected="table rendered" if want_shown else "empty string",
               derived="rendered" if shown else "returns %r" % (rets_[:1],),
               msg="for version tuple %r (magic %d) the ExceptionTable section is %s" % (vt_, mg, "missing" if want_shown else "printed although the version has none"))
    rep.floor("version tuples of 3.9+ magics", n_shapes, 6)
    nconf = location_rules(rep, T)
    colines_ranges_rule(rep, T, "R5")
    # wiring: which decoder the public methods use
    C = c311.ns.get("Code311")
    # co_positions() expands each decoded entry to one (lineno, end_lineno, col, end_col) tuple per code unit, like the native method
    cp = C.lookup("co_positions") if isinstance(C, ClassRef) else None
    if not isinstance(cp, FuncRef):
        raise AnalysisError("anchor vanished: xdis.codetype.code311.Code311.co_positions")

    def ple_hook(spec, name, fv, args, kw, node):
        if name.endswith("parse_location_entries"):
            spec.effect("ple", tuple(show(a) for a in args), node=node)
            return Sym("entries", "list")
        return NotImplemented
    me = Instance(C)
    me.attrs.update(co_linetable=Sym("table", "bytes"), co_firstlineno=Sym("first", "int"))
    sp = Spec(F, hooks=[ple_hook])
    sp.run(cp, [me])
    outer = [e.args[3] for e in sp.effects if e.kind == "loop"]
    shape_ok, got = False, None
    if len(outer) == 1 and show(outer[0].cond) == "iter-more(entries)":
        el = "%s:elem" % outer[0].tag
        inner = [e.args[3] for e in outer[0].effects if e.kind == "loop"]
        if len(inner) == 1:
            ys = [e for e in inner[0].effects if e.kind == "yield"]
            got = {"repeat": show(inner[0].cond), "yield": [show(y.args[0]) for y in ys]}
            shape_ok = show(inner[0].cond) == "iter-more(range(item(%s, 0)))" % el and len(ys) == 1 and \
                show(ys[0].args[0]) == "(item(%s, 1), item(%s, 2), item(%s, 3), item(%s, 4))" % (el, el, el, el)
        else:
            got = "entries are yielded as they are (no per-code-unit expansion)" if any(e.kind == "yield" for e in outer[0].effects) else "no inner loop"
    else:
        got = "returns %s" % [e.kind for e in sp.effects][:3]
    rep.ob("R3", cp.qualname, "one-tuple-per-code-unit", shape_ok, expected="for each entry (length, l, el, c, ec): `length` times (l, el, c, ec)", derived=got,
           msg="Code311.co_positions() does not produce one (lineno, end_lineno, col_offset, end_col_offset) tuple per code unit as types.CodeType.co_positions() does")
    # the decoders are functions of the *current* fields: a second call after the fields changed (replace(), assignment) decodes the new table
    for meth, target in (("co_positions", "parse_location_entries"), ("co_lines", "parse_linetable")):
        mref = C.lookup(meth)
        if not isinstance(mref, FuncRef):
            raise AnalysisError("anchor vanished: xdis.codetype.code311.Code311.%s" % meth)
        calls = []

        def dec_hook(spec, name, fv, args, kw, node, target=target, calls=calls):
            if name.endswith(target):
                calls.append(tuple(show(a) for a in args))
                return Sym("decoded%d" % len(calls), "list")
            return NotImplemented
        me2 = Instance(C)
        me2.attrs.update(co_linetable=Sym("table", "bytes"), co_firstlineno=Sym("first", "int"))
        sp1 = Spec(F, hooks=[dec_hook])
        sp1.run(mref, [me2])
        n_first = len(calls)
        rep.ob("R3", "xdis.codetype.code311.Code311.%s" % meth, "uses:%s" % target, calls == [("table", "first")],
               expected="%s(self.co_linetable, self.co_firstlineno)" % target, derived=calls[:3],
               msg="Code311.%s() does not hand its own table and first line to %s" % (meth, target))
        kept = sorted(a for a in me2.attrs if a not in ("co_linetable", "co_firstlineno"))
        me2.attrs.update(co_linetable=Sym("table2", "bytes"), co_firstlineno=Sym("first2", "int"))
        sp2 = Spec(F, hooks=[dec_hook])
        out2 = sp2.run(mref, [me2])
        second = calls[n_first:]
        stale = []
        txt = []

        def scan(effects, guards):
            for e in effects:
                if e.kind == "loop":
                    ls = e.args[3]
                    g_ = " ".join(show(x) for x in tuple(guards) + tuple(e.guards or ()))
                    if ("decoded" in show(ls.cond)) and not any("decoded%d" % k in show(ls.cond) for k in range(n_first + 1, len(calls) + 1)) and "table2" not in g_ and "first2" not in g_:
                        stale.append("iterates %s" % show(ls.cond))
                    scan(ls.effects, tuple(guards) + tuple(e.guards or ()))
                elif e.kind in ("yield", "ret"):
                    txt.append(show(e.args[0]))
        scan(sp2.effects, ())
        from ..sve import Ret as _Ret, leaves as _leaves, Guard as _Guard, neg as _neg

        def arms(v, conds):
            if isinstance(v, _Guard):
                return arms(v.a, conds + (v.cond,)) + arms(v.b, conds + (_neg(v.cond),))
            return [(conds, v)]
        for g_, val in [(g0 + c0, v0) for g0, leaf in _leaves(out2) if isinstance(leaf, _Ret) for c0, v0 in arms(leaf.value, ())]:
            t_ = show(val)
            gs = " ".join(show(x) for x in g_)
            if "decoded" in t_ and not any("decoded%d" % k in t_ for k in range(n_first + 1, len(calls) + 1)) and "table2" not in gs and "first2" not in gs:
                stale.append("returns %s" % t_)
        fresh_ok = bool(second) and all(c == ("table2", "first2") for c in second) and not stale
        rep.ob("R3", mref.qualname, "second-call-decodes-current-fields", fresh_ok, expected="%s(<current co_linetable>, <current co_firstlineno>) on every call" % target,
               derived={"first call": calls[:n_first], "kept on the object": kept, "second call after both fields changed": second, "stale": stale[:3]},
               msg="Code311.%s() after co_linetable / co_firstlineno changed (replace(), assignment) %s: the answer belongs to the old table" % (
                   meth, "; ".join(stale[:2]) or ("calls %s" % (second or "no decoder",))))
    rep.assumptions = ["Objects/locations.md and Objects/exception_handling_notes.txt of CPython 3.11-3.13 as transcribed in DESIGN.md Appendix A.5",
                       "co_lines() ranges may be split more finely than CPython's (line per code unit is what is decided)"]
