"""C18 -- each call's result is independent of what the process did before (DESIGN.md section 4, C18).

Shared-mutable-state audit over the syntax tree:
  objects   module-level / class-level mutable containers, mutable default parameters (and instance attributes aliased to them)
  writes    subscript/attribute stores, del, augmented assignment and mutator calls on such an object inside a *function body*
  scope     only writers reachable from the public operations (load_module, disassemble_file, get_opcode, make_std_api,
            marsh dumps/loads, Bytecode/std API) -- import-time table builders are not reachable from them
Every reachable (object, writer) pair must be in the frozen table of confirmed-benign instances (one reason each); anything
else is a violation.  A positive control (a synthetic module with a leaking cache) must be recognised on every run."""
import ast

from ..callgraph import CallGraph
from ..report import AnalysisError
from ..repo import Module, dotted_of, enclosing_class, enclosing_function, get_repo
from ..tables import tables

MUTATORS = {"append", "extend", "add", "update", "pop", "remove", "clear", "insert", "setdefault", "sort", "popitem", "discard", "reverse", "appendleft", "popleft"}
MUT_CALLS = {"list", "dict", "set", "bytearray", "defaultdict", "deque", "OrderedDict", "deepcopy", "Counter"}

ROOTS = [
    "xdis.load.load_module", "xdis.load.load_module_from_file_object", "xdis.load.load_file", "xdis.load.write_bytecode_file",
    "xdis.disasm.disassemble_file", "xdis.disasm.disco", "xdis.disasm.get_opcode", "xdis.op_imports.get_opcode_module",
    "xdis.std.make_std_api", "xdis.marsh.dumps", "xdis.marsh.dump", "xdis.marsh.loads", "xdis.marsh.load", "xdis.unmarshal.load_code",
    "xdis.bytecode.Bytecode.__init__", "xdis.bytecode.Bytecode.__iter__", "xdis.bytecode.Bytecode.dis", "xdis.bytecode.Bytecode.get_instructions",
    "xdis.bytecode.Bytecode.info", "xdis.bytecode.get_instructions_bytes", "xdis.bytecode.get_logical_instruction_at_offset",
    "xdis.cross_dis.findlabels", "xdis.cross_dis.findlinestarts", "xdis.cross_dis.xstack_effect", "xdis.wordcode.findlabels",
    "xdis.std._StdApi.__init__", "xdis.std._StdApi.get_instructions", "xdis.std._StdApi.findlabels", "xdis.std._StdApi.findlinestarts",
    "xdis.std._StdApi.stack_effect", "xdis.std._StdApi.dis", "xdis.std._StdApi.disassemble", "xdis.std._StdApi.code_info", "xdis.std._StdApi.show_code",
    "xdis.codetype.codeType2Portable", "xdis.codetype.to_portable", "xdis.magics.magic_int2tuple", "xdis.magics.sysinfo2magic",
    "xdis.instruction.Instruction.disassemble", "xdis.lineoffsets.lineoffsets_in_file", "xdis.lineoffsets.lineoffsets_in_module",
]

# confirmed-benign (object, writer) pairs.  key = "<object id> <- <writer function>"
ALLOWED = {
    "default:xdis.instruction.Instruction.disassemble(instructions) <- xdis.instruction.Instruction.disassemble":
        "the default list is only touched in the extended formats; every in-repo caller passes its own per-listing list, so the listed public operations never share it",
    "default:xdis.unmarshal.load_code(code_objects) <- xdis.unmarshal._VersionIndependentUnmarshaller.t_code":
        "write-only registry: code_objects is stored into and never read on any path to a result",
    "default:xdis.unmarshal._VersionIndependentUnmarshaller.__init__(code_objects) <- xdis.unmarshal._VersionIndependentUnmarshaller.t_code":
        "write-only registry (same object as load_code's default)",
    "global:xdis.dropbox.decrypt25.misses <- xdis.dropbox.decrypt25.patch":
        "write-only diagnostic counter, never read",
    "documented:remap_opcodes":
        "explicit in-place opcode remapping is the documented exception of the property",
}


def is_mutable_expr(v):
    if isinstance(v, (ast.List, ast.Dict, ast.Set, ast.ListComp, ast.DictComp, ast.SetComp)):
        return True
    if isinstance(v, ast.BinOp) and isinstance(v.op, ast.Mult) and (isinstance(v.left, ast.List) or isinstance(v.right, ast.List)):
        return True
    if isinstance(v, ast.Call):
        f = v.func
        name = f.id if isinstance(f, ast.Name) else (f.attr if isinstance(f, ast.Attribute) else None)
        if name in MUT_CALLS:
            return True
        if name in ("copy", "split") and isinstance(f, ast.Attribute):
            return name == "copy" or name == "split"
    return False


class Inventory(object):
    def __init__(self, modules, functions, classes):
        self.globals = {}  # (module, name) -> node
        self.class_attrs = {}  # (class qualname, attr) -> node
        self.class_attr_names = {}  # attr -> [class qualname]
        self.defaults = {}  # (function qualname, param) -> node
        self.alias_attrs = {}  # (class qualname, attr) -> (function qualname, param)  for  self.attr = <param with mutable default>
        for name, m in modules.items():
            for s in m.tree.body:
                self._scan_assign(s, lambda n, v, name=name: self.globals.__setitem__((name, n), v))
                if isinstance(s, (ast.If, ast.Try)):
                    for x in ast.walk(s):
                        if isinstance(x, (ast.Assign, ast.AnnAssign)) and enclosing_function(x) is None and enclosing_class(x) is None:
                            self._scan_assign(x, lambda n, v, name=name: self.globals.__setitem__((name, n), v))
        for q, (m, c) in classes.items():
            for s in c.body:
                self._scan_assign(s, lambda n, v, q=q: self._cls(q, n, v))
        for q, (m, fn) in functions.items():
            a = fn.args
            params = list(a.posonlyargs) + list(a.args)
            for p, d in zip(params[len(params) - len(a.defaults):], a.defaults):
                if is_mutable_expr(d):
                    self.defaults[(q, p.arg)] = d
            for p, d in zip(a.kwonlyargs, a.kw_defaults):
                if d is not None and is_mutable_expr(d):
                    self.defaults[(q, p.arg)] = d
        for (q, p), d in list(self.defaults.items()):
            m, fn = functions[q]
            cls = enclosing_class(fn)
            if cls is None:
                continue
            for s in ast.walk(fn):
                if isinstance(s, ast.Assign) and isinstance(s.value, ast.Name) and s.value.id == p:
                    for t in s.targets:
                        if isinstance(t, ast.Attribute) and isinstance(t.value, ast.Name) and t.value.id == "self":
                            self.alias_attrs[(cls._qualname, t.attr)] = (q, p)

    def _cls(self, q, n, v):
        self.class_attrs[(q, n)] = v
        self.class_attr_names.setdefault(n, []).append(q)

    def _scan_assign(self, s, put):
        if isinstance(s, ast.Assign) and is_mutable_expr(s.value):
            for t in s.targets:
                if isinstance(t, ast.Name):
                    put(t.id, s.value)
        elif isinstance(s, ast.AnnAssign) and s.value is not None and is_mutable_expr(s.value) and isinstance(s.target, ast.Name):
            put(s.target.id, s.value)


def local_names(fn):
    names = set()
    a = fn.args
    for p in list(a.posonlyargs) + list(a.args) + list(a.kwonlyargs):
        names.add(p.arg)
    if a.vararg:
        names.add(a.vararg.arg)
    if a.kwarg:
        names.add(a.kwarg.arg)
    declared_global = set()
    for n in ast.walk(fn):
        if isinstance(n, ast.Global):
            declared_global.update(n.names)
    for n in ast.walk(fn):
        if isinstance(n, ast.Name) and isinstance(n.ctx, ast.Store) and enclosing_function(n) is fn:
            names.add(n.id)
    return names - declared_global


_CLASS_ALIAS = {}
_CLASS_ALIAS_BUSY = set()


def class_self_aliases(repo, inv, clsq, cg):
    """{attr: object id} for instance attributes that every assignment in the class (and its bases) binds to one shared container:
    `self.names = table.opname` in __init__ makes self.names[...] = v in any other method a write to the table's own list"""
    key = (id(repo), clsq)
    if key in _CLASS_ALIAS:
        return _CLASS_ALIAS[key]
    if key in _CLASS_ALIAS_BUSY:
        return {}
    _CLASS_ALIAS_BUSY.add(key)
    try:
        seen_alias, other = {}, set()
        for cq in repo.mro(clsq):
            for fq, (fm, ffn) in repo.functions.items():
                c_ = enclosing_class(ffn)
                if c_ is None or getattr(c_, "_qualname", None) != cq:
                    continue
                al = writes_in_function(repo, inv, fq, fm, ffn, cg, want_self_alias=True)
                for n in ast.walk(ffn):
                    tg = []
                    if isinstance(n, ast.Assign):
                        tg = n.targets
                    elif isinstance(n, (ast.AugAssign, ast.AnnAssign)):
                        tg = [n.target]
                    for t in tg:
                        for x in ast.walk(t):
                            if isinstance(x, ast.Attribute) and isinstance(x.ctx, ast.Store) and isinstance(x.value, ast.Name) and x.value.id == "self":
                                if x.attr in al and isinstance(n, ast.Assign) and len(n.targets) == 1 and n.targets[0] is x:
                                    seen_alias.setdefault(x.attr, set()).add(al[x.attr])
                                else:
                                    other.add(x.attr)
        res = {a: next(iter(o)) for a, o in seen_alias.items() if len(o) == 1 and a not in other}
    finally:
        _CLASS_ALIAS_BUSY.discard(key)
    _CLASS_ALIAS[key] = res
    return res


def writes_in_function(repo, inv, q, m, fn, cg=None, want_self_alias=False):
    """[(object id, node, how)] for writes to shared mutable objects in fn"""
    out = []
    locs = local_names(fn)
    cls = enclosing_class(fn)
    clsq = getattr(cls, "_qualname", None)
    params_with_default = {p for (fq, p) in inv.defaults if fq == q}
    _aliasing = set()
    self_alias = {}
    declared_global = set()
    for n in ast.walk(fn):
        if isinstance(n, ast.Global) and enclosing_function(n) is fn:
            declared_global.update(n.names)

    def resolve(base):
        """object id of expression `base` if it denotes a shared mutable object"""
        if isinstance(base, ast.Name):
            nm = base.id
            if nm in params_with_default:
                return "default:%s(%s)" % (q, nm)
            if nm in locs:
                # a local that is only ever bound to a shared object (x = TABLE; x.update(...)) is that object
                if nm in _aliasing:
                    return None
                binds = [a for a in ast.walk(fn) if (isinstance(a, ast.Assign) and len(a.targets) == 1 and isinstance(a.targets[0], ast.Name) and a.targets[0].id == nm) or
                         (isinstance(a, ast.AnnAssign) and a.value is not None and isinstance(a.target, ast.Name) and a.target.id == nm)]
                others = [a for a in ast.walk(fn) if (isinstance(a, (ast.AugAssign, ast.For, ast.NamedExpr, ast.comprehension, ast.With)) and any(
                    isinstance(x, ast.Name) and x.id == nm and isinstance(x.ctx, ast.Store) for x in ast.walk(a.target if hasattr(a, "target") else a)))]
                if binds and not others and all(isinstance(a.value, (ast.Name, ast.Attribute)) for a in binds):
                    _aliasing.add(nm)
                    try:
                        oids = {resolve(a.value) for a in binds}
                    finally:
                        _aliasing.discard(nm)
                    if len(oids) == 1 and None not in oids:
                        return oids.pop()
                return None
            if (m.name, nm) in inv.globals:
                return "global:%s.%s" % (m.name, nm)
            if nm in m.imports:
                r = repo.resolve_dotted(m.imports[nm])
                if r[0] == "global" and (r[1], r[2]) in inv.globals:
                    return "global:%s.%s" % (r[1], r[2])
            return None
        if isinstance(base, ast.Attribute):
            attr = base.attr
            b = base.value
            if isinstance(b, ast.Name) and b.id in ("self", "cls") and attr in self_alias:
                return self_alias[attr]
            if isinstance(b, ast.Name) and b.id == "self" and clsq and not want_self_alias and hasattr(repo, "functions") and cg is not None:
                ca = class_self_aliases(repo, inv, clsq, cg)
                if attr in ca:
                    return ca[attr]
            if isinstance(b, ast.Name) and b.id in ("self", "cls") and clsq:
                for cq in repo.mro(clsq):
                    if (cq, attr) in inv.alias_attrs:
                        fq, p = inv.alias_attrs[(cq, attr)]
                        return "default:%s(%s)" % (fq, p)
                    if (cq, attr) in inv.class_attrs:
                        # an instance-level rebinding  self.attr = ...  anywhere in the class makes it per-instance
                        if not rebinding_in_class(repo, cq, attr):
                            return "class:%s.%s" % (cq, attr)
                return None
            d = dotted_of(base)
            if d:
                head = d.split(".")[0]
                if head in m.imports and head not in locs:
                    r = repo.resolve_dotted(m.imports[head] + d[len(head):])
                    if r[0] == "global" and (r[1], r[2]) in inv.globals:
                        return "global:%s.%s" % (r[1], r[2])
                    if r[0] == "unknown":
                        parts = r[1].rsplit(".", 1)
                        rr = repo.resolve_dotted(parts[0])
                        if rr[0] == "class" and (rr[1], parts[1]) in inv.class_attrs:
                            return "class:%s.%s" % (rr[1], parts[1])
                if head in m.defs and isinstance(m.defs[head], ast.ClassDef):
                    cq = m.name + "." + head
                    if (cq, attr) in inv.class_attrs and d.count(".") == 1:
                        return "class:%s.%s" % (cq, attr)
            if isinstance(b, ast.Name) and b.id in locs and b.id not in ("self", "cls"):
                # obj.attr = dict(obj.attr) / {} / copy(...) earlier in this function: from then on obj.attr is this object's own container
                for a_ in ast.walk(fn):
                    if isinstance(a_, ast.Assign) and a_.lineno < getattr(base, "lineno", 0) and any(
                            isinstance(t_, ast.Attribute) and t_.attr == attr and isinstance(t_.value, ast.Name) and t_.value.id == b.id for t_ in a_.targets):
                        v_ = a_.value
                        fresh = isinstance(v_, (ast.Dict, ast.List, ast.Set, ast.DictComp, ast.ListComp, ast.SetComp)) or (
                            isinstance(v_, ast.Call) and (ast.unparse(v_.func) in ("dict", "list", "set", "copy", "deepcopy", "copy.copy", "copy.deepcopy") or
                                                        (isinstance(v_.func, ast.Attribute) and v_.func.attr == "copy")))
                        if fresh:
                            return None
            if isinstance(b, ast.Name) and b.id in locs and b.id not in ("self", "cls") and (cg is None or b.id not in cg.local_types(m, fn)):
                # <local holding an opcode table>.hasjrel etc.: the table modules' own lists (the local is what get_opcode_module() returned)
                if any(nm == attr and mn.startswith("xdis.opcodes.") for (mn, nm) in inv.globals):
                    return "global:xdis.opcodes.*.%s" % attr
            if cg is not None and isinstance(b, ast.Name) and b.id in cg.local_types(m, fn):
                tq = cg.local_types(m, fn)[b.id]
                for cq in repo.mro(tq):
                    if (cq, attr) in inv.class_attrs and not rebinding_in_class(repo, cq, attr):
                        return "class:%s.%s" % (cq, attr)
            # instance of unknown type: attribute named like a class-level mutable of some repo class
            if attr in inv.class_attr_names and isinstance(b, ast.Name) and b.id not in ("self", "cls"):
                cands = [cq for cq in inv.class_attr_names[attr] if not rebinding_in_class(repo, cq, attr)]
                if cands:
                    return "class:%s.%s" % (sorted(cands)[-1] if len(cands) == 1 else "{%s}" % ",".join(sorted(cands)), attr)
        return None

    # self.X = <shared container> earlier in this function: self.X then *is* that container (self.X += [...] extends it in place)
    self_alias = {}
    for n in ast.walk(fn):
        if isinstance(n, ast.Assign) and len(n.targets) == 1 and isinstance(n.targets[0], ast.Attribute) and isinstance(n.targets[0].value, ast.Name) \
                and n.targets[0].value.id in ("self", "cls") and isinstance(n.value, (ast.Name, ast.Attribute)):
            oid_ = resolve(n.value)
            if oid_:
                self_alias[n.targets[0].attr] = oid_
    if want_self_alias:
        return self_alias
    for n in ast.walk(fn):
        if enclosing_function(n) is not fn and not isinstance(n, (ast.FunctionDef,)):
            pass
        if isinstance(n, ast.Subscript) and isinstance(n.ctx, (ast.Store, ast.Del)):
            oid = resolve(n.value)
            if oid:
                out.append((oid, n, "item store" if isinstance(n.ctx, ast.Store) else "item delete"))
        elif isinstance(n, ast.Call) and isinstance(n.func, ast.Attribute) and n.func.attr in MUTATORS:
            oid = resolve(n.func.value)
            if oid:
                out.append((oid, n, ".%s()" % n.func.attr))
        elif isinstance(n, ast.Attribute) and isinstance(n.ctx, ast.Store) and isinstance(n.value, ast.Name) and n.value.id not in locs and n.value.id not in ("self", "cls") \
                and isinstance(m.defs.get(n.value.id), ast.ClassDef):
            # <ModuleLevelClass>.attr = value inside a function: the attribute is shared by every user of the class
            cdef = m.defs[n.value.id]
            read = any(isinstance(x, ast.Attribute) and isinstance(x.ctx, ast.Load) and x.attr == n.attr and isinstance(x.value, ast.Name) and x.value.id in ("self", "cls", n.value.id)
                       for x in ast.walk(cdef)) or any(isinstance(x, ast.Attribute) and isinstance(x.ctx, ast.Load) and x.attr == n.attr and isinstance(x.value, ast.Name)
                                                      and x.value.id == n.value.id for x in ast.walk(m.tree))
            if read:
                out.append(("classattr:%s.%s.%s" % (m.name, n.value.id, n.attr), n, "class attribute rebound"))
        elif isinstance(n, ast.Name) and isinstance(n.ctx, ast.Store) and n.id in declared_global and enclosing_function(n) is fn:
            # `global X` + a store to X inside a function body: the module variable is rebound for every later call
            read = any(isinstance(x, ast.Name) and isinstance(x.ctx, ast.Load) and x.id == n.id for x in ast.walk(m.tree))
            if read:
                out.append(("globalvar:%s.%s" % (m.name, n.id), n, "module variable rebound"))
        elif isinstance(n, ast.AugAssign):
            oid = resolve(n.target) if isinstance(n.target, (ast.Name, ast.Attribute)) else None
            if oid and isinstance(n.target, ast.Attribute):
                out.append((oid, n, "augmented assignment"))
            elif oid and isinstance(n.target, ast.Name) and n.target.id not in locs:
                out.append((oid, n, "augmented assignment"))
    return out


ONE_SHOT_CALLS = {"iter", "map", "filter", "zip", "reversed", "enumerate"}


def is_one_shot_expr(v):
    """an expression whose value is an iterator that the first reader uses up (Python 3 semantics of map/filter/zip)"""
    if isinstance(v, ast.GeneratorExp):
        return "a generator expression"
    if isinstance(v, ast.Call) and isinstance(v.func, ast.Name) and v.func.id in ONE_SHOT_CALLS:
        return "the iterator %s(...)" % v.func.id
    return None


def one_shot_globals(modules):
    """{(module, name): (node, what)} for module-level names bound to a one-shot iterator and never rebound to something else at module level"""
    out = {}
    for name, m in modules.items():
        for s in ast.walk(m.tree):
            if enclosing_function(s) is not None or enclosing_class(s) is not None:
                continue
            tgt, val = None, None
            if isinstance(s, ast.Assign) and len(s.targets) == 1 and isinstance(s.targets[0], ast.Name):
                tgt, val = s.targets[0].id, s.value
            elif isinstance(s, ast.AnnAssign) and s.value is not None and isinstance(s.target, ast.Name):
                tgt, val = s.target.id, s.value
            if tgt is None:
                continue
            what = is_one_shot_expr(val)
            if what:
                out[(name, tgt)] = (s, what)
    return out


def readers_of_global(repo, mod, name):
    """[(function qualname, module, node)] for loads of the module-level name inside function bodies, in its own module and through imports"""
    out = []
    for q, (m, fn) in repo.functions.items():
        local = None
        if m.name == mod and name not in local_names(fn):
            local = name
        else:
            for ln, target in m.imports.items():
                if target == "%s.%s" % (mod, name) and ln not in local_names(fn):
                    local = ln
        if local is None:
            continue
        for n in ast.walk(fn):
            if isinstance(n, ast.Name) and n.id == local and isinstance(n.ctx, ast.Load):
                out.append((q, m, n))
                break
    return out


def inv_tuples(modules):
    """module-level names bound to tuple / frozenset / set / list displays or calls (the population R4 ranges over)"""
    out = {}
    for name, m in modules.items():
        for s in m.tree.body:
            if isinstance(s, ast.Assign) and len(s.targets) == 1 and isinstance(s.targets[0], ast.Name) and isinstance(s.value, (ast.Tuple, ast.List, ast.Set, ast.Call, ast.GeneratorExp)):
                out[(name, s.targets[0].id)] = s
    return out


MEMO_DECORATORS = {"functools.lru_cache", "functools.cache", "functools._lru_cache_wrapper"}


def memoised(repo, m, fn):
    """the memoising decorator of fn, resolved through the module's imports (functools.lru_cache / functools.cache, called or bare)"""
    for d in fn.decorator_list:
        f = d.func if isinstance(d, ast.Call) else d
        dn = dotted_of(f)
        if not dn:
            continue
        head = dn.split(".")[0]
        full = (m.imports[head] + dn[len(head):]) if head in m.imports else dn
        if full in MEMO_DECORATORS:
            return full
    return None


def mutable_result(fn, repo=None, cg=None, q=None, depth=0):
    """why the value this function hands back is one mutable object: a generator, a container display, a local bound to one, or (through the resolved call graph)
    what a callee hands back when that is one"""
    own = [n for n in ast.walk(fn) if enclosing_function(n) is fn]
    if repo is not None and cg is not None and q is not None and depth < 3:
        for n in own:
            if isinstance(n, ast.Return) and isinstance(n.value, ast.Call):
                for s_ in cg.sites.get(q, ()):
                    if s_.node is n.value:
                        for t_ in sorted(s_.targets):
                            if t_ in repo.functions and t_ != q:
                                why_ = mutable_result(repo.functions[t_][1], repo, cg, t_, depth + 1)
                                if why_:
                                    return "what %s returns (%s)" % (t_, why_)
    if any(isinstance(n, (ast.Yield, ast.YieldFrom)) for n in own):
        return "a generator (exhausted after the first caller)"
    local_mut = {}
    for n in own:
        if isinstance(n, ast.Assign) and len(n.targets) == 1 and isinstance(n.targets[0], ast.Name) and is_mutable_expr(n.value):
            local_mut[n.targets[0].id] = ast.unparse(n.value)[:30]
    for n in own:
        if isinstance(n, ast.Return) and n.value is not None:
            if is_mutable_expr(n.value):
                return "a new %s" % ast.unparse(n.value)[:30]
            if isinstance(n.value, ast.Name) and n.value.id in local_mut:
                return "the container %s = %s" % (n.value.id, local_mut[n.value.id])
    return None


def result_users(repo, cg, q):
    """(caller, how) for callers that modify or hand on the object returned by q"""
    out = []
    for caller, sites in cg.sites.items():
        for s in sites:
            if q not in s.targets or not isinstance(s.node, ast.Call) or caller not in repo.functions:
                continue
            cm, cfn = repo.functions[caller]
            par = None
            for x in ast.walk(cfn):
                for ch in ast.iter_child_nodes(x):
                    if ch is s.node:
                        par = x
            if isinstance(par, ast.Return):
                out.append((caller, "returns it to its own caller"))
            elif isinstance(par, ast.Assign) and len(par.targets) == 1 and isinstance(par.targets[0], ast.Name):
                nm = par.targets[0].id
                for x in ast.walk(cfn):
                    if isinstance(x, ast.Call) and isinstance(x.func, ast.Attribute) and x.func.attr in MUTATORS and isinstance(x.func.value, ast.Name) and x.func.value.id == nm:
                        out.append((caller, "%s.%s(...)" % (nm, x.func.attr)))
                    elif isinstance(x, ast.Subscript) and isinstance(x.ctx, (ast.Store, ast.Del)) and isinstance(x.value, ast.Name) and x.value.id == nm:
                        out.append((caller, "%s[...] = ..." % nm))
                    elif isinstance(x, ast.AugAssign) and isinstance(x.target, ast.Name) and x.target.id == nm:
                        out.append((caller, "%s %s= ..." % (nm, type(x.op).__name__)))
                    elif isinstance(x, ast.Return) and isinstance(x.value, ast.Name) and x.value.id == nm:
                        out.append((caller, "returns it to its own caller"))
    return out


_REBIND = {}


def rebinding_in_class(repo, cq, attr):
    key = (cq, attr)
    if key not in _REBIND:
        found = False
        for sub in repo.subclasses(cq):
            m, c = repo.classes[sub]
            for n in ast.walk(c):
                if isinstance(n, ast.Assign):
                    for t in n.targets:
                        if isinstance(t, ast.Attribute) and isinstance(t.value, ast.Name) and t.value.id == "self" and t.attr == attr:
                            found = True
        _REBIND[key] = found
    return _REBIND[key]


def reads_of(repo, oid):
    """is the object read anywhere (loads other than the writes themselves)? coarse: any Load of the name outside Store contexts"""
    kind, rest = oid.split(":", 1)
    return True


def run(rep, tier):
    rep.explanation = ("shared-mutable-state audit over the syntax tree: inventory of module/class-level containers and mutable defaults (with aliases through "
                       "self.x = default), write-site detection inside function bodies, call-graph reachability from the public operations, comparison with a frozen "
                       "table of confirmed-benign writers")
    rep.rule("R1", "no function reachable from a public operation writes to a module-level or class-level container or to a mutable default argument, except the "
                   "confirmed write-only / documented instances listed in rules/c18.py")
    rep.rule("R3", "a memoised function (functools.lru_cache / cache) reachable from a public operation does not hand the same mutable object (list, dict, set, generator) "
                   "to callers that modify it or pass it on")
    rep.rule("R4", "no module-level name that a function reachable from a public operation reads is bound to a one-shot iterator (generator expression, iter/map/filter/zip/"
                   "reversed/enumerate result): the first reader would use it up and every later call would see it empty")
    rep.rule("R2", "load_code builds a fresh unmarshaller whose reference and interned-string tables are new lists per call")
    repo = get_repo()
    T = tables()
    cg = CallGraph(repo, T)
    um = "xdis.unmarshal._VersionIndependentUnmarshaller"
    if um + ".r_object" in repo.functions:
        cg.add_edges(um + ".r_object", [q for q in repo.functions if q.startswith(um + ".t_")])
    inv = Inventory(repo.modules, repo.functions, repo.classes)
    rep.floor("module-level mutable containers", len(inv.globals), 60)
    rep.floor("mutable default parameters", len(inv.defaults), 4)
    roots = [r for r in ROOTS if r in repo.functions]
    missing = [r for r in ROOTS if r not in repo.functions]
    rep.floor("public operation roots found", len(roots), 30)
    for r in missing:
        rep.note("root not found (renamed?): %s" % r)
    seen = cg.reachable(roots)
    rep.floor("functions reachable from the public operations", len(seen), 200)
    n_writes = 0
    all_writes = 0
    n_memo = 0
    for q, (m, fn) in sorted(repo.functions.items()):
        ws = writes_in_function(repo, inv, q, m, fn, cg)
        all_writes += len(ws)
        if q not in seen:
            continue
        rep.analysed(q)
        if q == "xdis.op_imports.remap_opcodes":
            rep.note("remap_opcodes: " + ALLOWED["documented:remap_opcodes"])
            continue
        for oid, node, how in ws:
            n_writes += 1
            key = "%s <- %s" % (oid, q)
            if key in ALLOWED:
                rep.ob("R1", q, "write:%s" % oid, True, derived="allowed: " + ALLOWED[key], where=repo.where(m, node))
                continue
            path = cg.path_to(seen, q)
            rep.ob("R1", q, "write:%s" % oid, False, expected="no write to shared state from a public operation", derived="%s at %s" % (how, ast.unparse(node)[:70]),
                   where=repo.where(m, node),
                   msg="%s is shared by all calls and is modified by %s, reachable via %s: later calls see the change" % (oid, q, " -> ".join(path[-3:]) or "a public root"))
        if not ws:
            rep.ob("R1", q, "no-shared-write", True)
        memo = memoised(repo, m, fn)
        if memo:
            n_memo += 1
            why = mutable_result(fn, repo, cg, q)
            users = result_users(repo, cg, q) if why else []
            public = q in ROOTS
            bad = bool(why) and (public or bool(users))
            rep.ob("R3", q, "memoised-result", not bad, expected="an immutable result, or a mutable one that no caller modifies or hands on", derived="%s; result: %s; %s" % (
                memo, why or "immutable", "public operation" if public else ("users: %s" % users[:3])),
                where=repo.where(m, fn), msg="%s keeps the result of %s for later calls and that result is %s%s: a later call sees what an earlier caller did to it" % (
                    memo, q, why, (", e.g. %s does %s" % users[0]) if users else " handed to the library's user"))
    rep.extra["write_sites_in_repo"] = all_writes
    rep.extra["write_sites_reachable"] = n_writes
    rep.extra["memoised_reachable_functions"] = n_memo
    rep.extra["shared_objects"] = {"module_level": len(inv.globals), "class_level": len(inv.class_attrs), "mutable_defaults": sorted("%s(%s)" % k for k in inv.defaults),
                                   "aliased_instance_attrs": sorted("%s.%s" % k for k in inv.alias_attrs)}
    # ---------------------------------------------------------------- R4 one-shot iterators as module-level "constants"
    shots = one_shot_globals(repo.modules)
    for (mod_, nm_), (node_, what_) in sorted(shots.items()):
        rds = [(q_, m_, n_) for q_, m_, n_ in readers_of_global(repo, mod_, nm_) if q_ in seen]
        rep.ob("R4", "%s.%s" % (mod_, nm_), "one-shot-iterator-read-by-operations", not rds, expected="a tuple / list / frozenset (re-readable)", derived="%s, read by %s" % (what_, [q_ for q_, _, _ in rds][:3]),
               where=repo.where(repo.modules[mod_], node_),
               msg="%s.%s is %s: the first membership test or loop in %s uses it up, so every later call sees an empty collection" % (mod_, nm_, what_, rds[0][0] if rds else "-"))
    n_consts = 0
    for (mod_, nm_), node_ in sorted(inv_tuples(repo.modules).items()):
        n_consts += 1
    rep.floor("module-level tuple/frozenset constants inspected for one-shot iterators", n_consts, 20)
    rep.extra["one_shot_module_level_iterators"] = sorted("%s.%s" % k_ for k_ in shots)
    # ---------------------------------------------------------------- positive control
    src = ("CACHE = {}\nNAMES = {}\nclass K:\n    table = []\n    mode = None\n    def f(self, x):\n        self.table.append(x)\n        return self.mode\n"
           "def g(k, memo={}):\n    CACHE[k] = 1\n    memo[k] = 2\ndef h(extra):\n    names = NAMES\n    names.update(extra)\n    copy = dict(NAMES)\n    copy.update(extra)\n"
           "def configure(v):\n    K.mode = v\nWIDTH = 20\ndef widen(n):\n    global WIDTH\n    if n > WIDTH:\n        WIDTH = n\n    return WIDTH\n"
           "from functools import lru_cache\n@lru_cache(maxsize=8)\ndef labels(code):\n    out = []\n    out.append(len(code))\n    return out\n"
           "@lru_cache\ndef width(code):\n    return len(code)\n"
           "class Api:\n    def __init__(self, v):\n        self.names = NAMES\n        self.names.update(v)\n        self.own = dict(NAMES)\n        self.own.update(v)\n")
    cm = Module("ctl", "/dev/null/ctl.py", src)
    fns, clss = {}, {}
    for n in ast.walk(cm.tree):
        if isinstance(n, ast.FunctionDef):
            c = enclosing_class(n)
            qn = "ctl." + (c.name + "." if c else "") + n.name
            n._qualname = qn
            fns[qn] = (cm, n)
        elif isinstance(n, ast.ClassDef):
            n._qualname = "ctl." + n.name
            clss["ctl." + n.name] = (cm, n)

    class FakeRepo(object):
        modules = {"ctl": cm}
        functions = fns
        classes = clss

        def mro(self, q):
            return [q]

        def subclasses(self, q):
            return [q]

        def resolve_dotted(self, d):
            return ("external", d)
    cinv = Inventory({"ctl": cm}, fns, clss)
    got = []
    for qn, (m_, fn_) in fns.items():
        got += [o for o, n_, h in writes_in_function(FakeRepo(), cinv, qn, m_, fn_)]
    if sorted(got) != ["class:ctl.K.table", "classattr:ctl.K.mode", "default:ctl.g(memo)", "global:ctl.CACHE", "global:ctl.NAMES", "global:ctl.NAMES", "globalvar:ctl.WIDTH"]:
        raise AnalysisError("positive control failed: %s" % got)
    ctl_shot = ast.parse("A = (x for x in (1, 2))\nB = tuple(x for x in (1, 2))\nC = map(str, (1, 2))\nD = (1, 2)\n")
    for n_ in ast.walk(ctl_shot):
        for ch_ in ast.iter_child_nodes(n_):
            ch_._parent = n_

    class _M(object):
        tree = ctl_shot
    try:
        got_shots = sorted(k_[1] for k_ in one_shot_globals({"ctl2": _M()}))
    except Exception as ex:
        got_shots = "error: %s" % ex
    if got_shots != ["A", "C"]:
        raise AnalysisError("positive control (one-shot iterators) failed: %s" % (got_shots,))
    memo_ctl = {qn: (memoised(FakeRepo(), m_, fn_), mutable_result(fn_)) for qn, (m_, fn_) in fns.items() if memoised(FakeRepo(), m_, fn_)}
    if set(memo_ctl) != {"ctl.labels", "ctl.width"} or not memo_ctl["ctl.labels"][1] or memo_ctl["ctl.width"][1]:
        raise AnalysisError("positive control (memoised functions) failed: %s" % memo_ctl)
    # ---------------------------------------------------------------- R2
    m, fn = repo.function("xdis.unmarshal.load_code")
    ctor = [n for n in ast.walk(fn) if isinstance(n, ast.Call) and ast.unparse(n.func).endswith("_VersionIndependentUnmarshaller")]
    mi, init = repo.function(um + ".__init__")
    fresh = {}
    for n in ast.walk(init):
        if isinstance(n, ast.Assign):
            for t in n.targets:
                if isinstance(t, ast.Attribute) and isinstance(t.value, ast.Name) and t.value.id == "self" and t.attr in ("internObjects", "internStrings"):
                    fresh[t.attr] = isinstance(n.value, ast.List) and not n.value.elts
    rep.ob("R2", "xdis.unmarshal.load_code", "fresh-unmarshaller-per-call", len(ctor) == 1, expected="constructs a new _VersionIndependentUnmarshaller", derived=len(ctor))
    rep.ob("R2", um + ".__init__", "fresh-tables", fresh.get("internObjects") and fresh.get("internStrings"), expected="internObjects = [] and internStrings = [] in __init__", derived=fresh)
    rep.assumptions = ["call resolution rules of xv/callgraph.py", "the frozen ALLOWED table in rules/c18.py (each entry confirmed by reading, with its reason)",
                       "setattr()-based mutation is only used by remap_opcodes (documented exception); equality of results as such is not decided"]
