"""C19 -- freeze() encodes a line table that decodes back to the same mapping (DESIGN.md section 4 and 10, C19).

 R1  freeze() reads only attributes that the class's __init__ chain defines (AST def-use)
 R5  freeze() hands the encoder the pairs sorted by offset, for dict and list tables (freeze() specialised on concrete offsets, the encoder replaced by a probe)
 R8  encode -> reference decode is the identity, decided per bucket of (offset gap, line delta) by interval-guided specialisation (xv/linetab.py): no
     accumulator, helper, loop form or constant name is recognised syntactically
 R9  freeze discipline (no early return on an own flag, integer fields untouched)
 R10 the decoder half of the round trip: C05's rules, restated"""
import ast

from ..report import AnalysisError
from ..repo import get_repo

# portable class -> versions it serves (from codeType2Portable's selection; confirmed by C16/C01)
SERVES = {"Code15": ((1, 5), (2, 0)), "Code2": ((2, 1), (2, 7)), "Code3": ((3, 0), (3, 7)), "Code38": ((3, 8), (3, 9)), "Code310": ((3, 10), (3, 10))}
CLASSES = [("xdis.codetype.code15", "Code15"), ("xdis.codetype.code20", "Code2"), ("xdis.codetype.code30", "Code3"), ("xdis.codetype.code38", "Code38"),
           ("xdis.codetype.code310", "Code310")]


def run(rep, tier):
    rep.explanation = ("attribute def-use of freeze() against the __init__ chain (AST); freeze() and the line-table encoders specialised on tables of two or three "
                       "symbolic entries with declared integer ranges -- interval reasoning decides the encoders' comparisons, undecided ones split the range, so every "
                       "chunking loop unrolls -- and the explicit byte terms are decoded by CPython's reader of that format over the same interval domain")
    rep.rule("R1", "freeze() reads only attributes defined by the class's __init__ chain")
    rep.rule("R5", "freeze() hands the encoder the table's (offset, line) pairs sorted by offset, for a dict and for a list alike (decided by running freeze() on concrete offsets "
                   "with symbolic lines)")
    rep.rule("R9", "freeze() never returns early on a flag it assigns itself (replace() copies it) and never rewrites an integer-valued field")
    rep.rule("R8", "encode, then decode with CPython's own reader of that table format (dis.findlinestarts over co_lnotab with unsigned / signed line bytes, co_lines() of "
                   "3.10), gives back the mapping: decided per bucket of (offset gap, line delta) -- gaps 1..600, deltas -300..300 -- in which every chunking loop of the encoder "
                   "unrolls; buckets are found by splitting a range wherever one of the encoder's own comparisons is not decided by it; every emitted byte must lie in 0..255; a "
                   "loop still running after 300 iterations counts as not terminating; classes that serve no version >= 3.6 may drop an entry whose line decreases, as a whole")
    rep.rule("R10", "the line-start routines that decode what freeze() wrote obey the decoder rules of C05 (R1-R3, R5, R6: lnotab automaton per version, 3.10 co_lines pairs, "
                    "findlinestarts over co_lines, per-table binding), restated")
    from . import c05
    from ..report import SubReport, merge_sub
    sub = SubReport("C05", tier=tier)
    c05.run(sub, tier)
    merge_sub(rep, sub, "R10", "C05", only_rules=("R1", "R2", "R3", "R5", "R6"))
    repo = get_repo()
    n_enc = 0
    for mod, cname in CLASSES:
        cq = "%s.%s" % (mod, cname)
        m, c = repo.cls(cq)
        mro = repo.mro(cq)
        # ---------------------------------------------------------------- attributes defined by the __init__ chain
        defined = set()
        for k in mro:
            iq = k + ".__init__"
            if iq in repo.functions:
                for n in ast.walk(repo.functions[iq][1]):
                    if isinstance(n, ast.Attribute) and isinstance(n.ctx, ast.Store) and isinstance(n.value, ast.Name) and n.value.id == "self":
                        defined.add(n.attr)
            # class-level annotations/assignments
            for s in repo.classes[k][1].body:
                if isinstance(s, ast.AnnAssign) and isinstance(s.target, ast.Name):
                    pass
        fq = repo.method(cq, "freeze")
        if fq is None:
            rep.ob("R5", cq, "has-freeze", False, derived="no freeze()")
            continue
        fm, ffn = repo.functions[fq]
        rep.analysed(fq)
        # ---------------------------------------------------------------- R1
        reads = set()
        for n in ast.walk(ffn):
            if isinstance(n, ast.Attribute) and isinstance(n.ctx, ast.Load) and isinstance(n.value, ast.Name) and n.value.id == "self":
                if repo.method(cq, n.attr) is None:
                    reads.add(n.attr)
            if isinstance(n, ast.For) and isinstance(n.iter, (ast.Call, ast.Tuple, ast.List)):
                # for field in "a b c".split(): getattr(self, field)
                names = []
                if isinstance(n.iter, ast.Call) and isinstance(n.iter.func, ast.Attribute) and n.iter.func.attr == "split" and isinstance(n.iter.func.value, ast.Constant):
                    names = n.iter.func.value.value.split()
                elif isinstance(n.iter, (ast.Tuple, ast.List)):
                    names = [e.value for e in n.iter.elts if isinstance(e, ast.Constant)]
                # getattr(self, field) raises for a missing attribute; getattr(self, field, default) / hasattr-guarded reads do not
                uses_getattr = any(isinstance(x, ast.Call) and isinstance(x.func, ast.Name) and x.func.id == "getattr" and len(x.args) == 2 and ast.unparse(x.args[0]) == "self"
                                   for x in ast.walk(n)) and not any(isinstance(x, ast.Call) and isinstance(x.func, ast.Name) and x.func.id == "hasattr" for x in ast.walk(n))
                if uses_getattr:
                    reads.update(names)
        stores_in_freeze = {n.attr for n in ast.walk(ffn) if isinstance(n, ast.Attribute) and isinstance(n.ctx, ast.Store) and isinstance(n.value, ast.Name) and n.value.id == "self"}
        missing = sorted(r for r in reads if r not in defined and r not in stores_in_freeze)
        rep.ob("R1", "%s (freeze of %s)" % (fq, cname), "reads-defined-attributes", not missing, expected="attributes set by %s.__init__ chain" % cname, derived=missing,
               where=repo.where(fm, ffn), msg="%s.freeze() reads %s, which no __init__ of %s defines: AttributeError for every object of that class" % (cname, missing, cname))
        eq = repo.method(cq, "encode_lineno_tab")
        if eq is None:
            rep.ob("R5", cq, "has-encoder", False, derived="no encode_lineno_tab()")
            continue
        rep.analysed(eq)
        n_enc += 1
    rep.floor("line-table encoders analysed", n_enc, 5)
    from ..tables import tables
    T = tables()
    ncase = 0
    for mod, cname in CLASSES:
        ncase += freeze_dispatch_rule(rep, T, mod, cname)
        ncase += roundtrip_rule(rep, T, repo, mod, cname)
    rep.floor("bucketed specialisations of the encoders", ncase, 150)
    freeze_discipline(rep, repo, "R9")
    rep.assumptions = ["the class -> served-versions table SERVES in rules/c19.py mirrors codeType2Portable's selection (decided by C01/C16)",
                       "the round trip itself and the 3.10 range semantics of Code310's encoder are value properties and are not decided"]


# ====================================================================== R5 / R8 decided on bucketed specialisations (xv/linetab.py)
def _cls(T, mod, cname):
    from ..fold import ClassRef
    C = T.F.load(mod).ns.get(cname)
    if not isinstance(C, ClassRef):
        raise AnalysisError("anchor vanished: %s.%s" % (mod, cname))
    return C


def freeze_dispatch_rule(rep, T, mod, cname):
    """R5: freeze() is run on a dict and on a list with concrete offsets (out of order in the dict) and symbolic lines; the encoder is replaced by a probe that
    records the table it is handed."""
    from ..fold import FuncRef, Instance
    from ..sve import Spec, Sym, show
    C = _cls(T, mod, cname)
    fz = C.lookup("freeze")
    tab = "co_linetable" if cname == "Code310" else "co_lnotab"
    construct = "%s (freeze of %s)" % (fz.qualname if isinstance(fz, FuncRef) else "?", cname)
    if not isinstance(fz, FuncRef):
        rep.ob("R5", "%s.%s" % (mod, cname), "has-freeze", False, derived="no freeze()")
        return 0
    La, Lb, Lc = Sym("La", "int"), Sym("Lb", "int"), Sym("Lc", "int")
    n = 0
    for kind, table, want in (("dict", {40: La, 0: Lb, 7: Lc}, [(0, Lb), (7, Lc), (40, La)]), ("list", [(0, Lb), (7, Lc), (40, La)], [(0, Lb), (7, Lc), (40, La)])):
        seen = []
        me = Instance(C)

        def hook(spec, name, fv, args, kw, node, seen=seen, me=me):
            if name.endswith(".encode_lineno_tab"):
                seen.append(me.attrs.get(tab))
                return None
            if name.endswith(".check"):
                return None
            return NotImplemented
        for fld in ("co_consts", "co_names", "co_varnames", "co_freevars", "co_cellvars"):
            me.attrs[fld] = ()
        me.attrs.update({tab: table, "co_firstlineno": Sym("first", "int"), "co_code": b"", "co_filename": "f", "co_name": "n", "co_argcount": 0, "co_nlocals": 0, "co_stacksize": 0,
                         "co_flags": 0, "co_kwonlyargcount": 0, "co_posonlyargcount": 0, "co_exceptiontable": b"", "co_qualname": "n"})
        sp = Spec(T.F, hooks=[hook])
        why = None
        try:
            sp.run(fz, [me])
        except Exception as ex:
            why = "not evaluable: %s" % ex
        got = seen[0] if seen else None
        ok = len(seen) == 1 and isinstance(got, (list, tuple)) and [(a, repr(b)) for a, b in (tuple(x) for x in got)] == [(a, repr(b)) for a, b in want]
        n += 1
        rep.ob("R5", construct, "%s-reaches-encoder-sorted-by-offset" % kind, ok, expected="encode_lineno_tab() sees [(0, Lb), (7, Lc), (40, La)]",
               derived=why or ([show(x)[:40] for x in got] if isinstance(got, (list, tuple)) else ("encoder called %d times; table %s" % (len(seen), show(got)[:60]))),
               msg="%s.freeze() given a %s table does not hand the encoder the (offset, line) pairs in offset order" % (cname, kind))
    return n


def roundtrip_rule(rep, T, repo, mod, cname):
    """R8 (see the rule text and xv/linetab.py)."""
    from ..fold import FuncRef, Instance
    from ..linetab import Undecodable, bucketed, flatten, ref_linetable310, ref_lnotab, same
    from ..sve import Op, Sym, add, show
    C = _cls(T, mod, cname)
    f = C.lookup("encode_lineno_tab")
    if not isinstance(f, FuncRef):
        raise AnalysisError("anchor vanished: %s.%s.encode_lineno_tab" % (mod, cname))
    construct = "%s (encoder of %s)" % (f.qualname, cname)
    where = "%s:%d" % (mod.replace(".", "/") + ".py", f.node.lineno)
    lo_v, hi_v = SERVES[cname]
    is310 = cname == "Code310"
    tab = "co_linetable" if is310 else "co_lnotab"
    Fi, D, E, D1, E1, D2, D0 = (Sym(n_, "int") for n_ in ("F", "D", "E", "D1", "E1", "D2", "D0"))
    cocode = Sym("cocode", "bytes")
    # decoders the encoded table must satisfy: unsigned line bytes before 3.6, signed from 3.6
    decoders = []
    if is310:
        decoders = ["3.10"]
    else:
        if lo_v < (3, 6):
            decoders.append("unsigned")
        if hi_v >= (3, 6):
            decoders.append("signed")
    shapes = {
        "two-entries": ([(0, Fi), (D, add(Fi, E))], D, {"D": (1, 600)}),
        "three-entries": ([(0, Fi), (D1, add(Fi, E1)), (add(D1, D), add(add(Fi, E1), E))], add(D1, D), {"D": (1, 600), "D1": (1, 255), "E1": (1, 127)}),
    }
    # an entry that repeats the line of the one before it starts no new line for any reader, but its offset gap must still be accounted for
    shapes["repeated-line-then-new-line"] = ([(0, Fi), (D1, Fi), (add(D1, D), add(Fi, E))], add(D1, D), {"D": (1, 600), "D1": (1, 255)})
    if is310:
        shapes["first-entry-after-offset-0"] = ([(D0, add(Fi, E))], D0, {"D0": (1, 600)})
    ncase = 0
    for sname, (table, last_off, base_ranges) in sorted(shapes.items()):
        for sign, erange in (("increasing", (1, 300)), ("decreasing", (-300, -1))):
            ranges = dict(base_ranges)
            ranges["E"] = erange
            assume = {}
            if is310:
                ranges["D2"] = (1, 300)
                assume[repr(Op("len", cocode))] = add(last_off, D2)

            def make():
                me = Instance(C)
                me.attrs.update({tab: [tuple(x) for x in table], "co_firstlineno": Fi, "co_code": cocode})
                return me
            key = "roundtrip:%s:%s-lines" % (sname, sign)

            def check(rg, sp, result, table=table, last_off=last_off, sign=sign):
                """reference decode of one bucket's encoded table; returns the list of disagreements (NeedSplit propagates to the driver)"""
                out_ = []
                desc = ", ".join("%s in %d..%d" % (k, v[0], v[1]) for k, v in sorted(rg.items()) if k in ("D", "E", "D0", "D2"))
                if sp.unroll_overflow:
                    return ["%s: `while %s` still running after 300 iterations" % (desc, sp.unroll_overflow[0])]
                mapping = [(a_, b_) for i_, (a_, b_) in enumerate(table) if i_ == 0 or repr(b_) != repr(table[i_ - 1][1])]
                for dec in decoders:
                    want = list(mapping)
                    if dec == "unsigned" and sign == "decreasing":
                        if hi_v >= (3, 6):
                            continue  # a decreasing line cannot be expressed for the unsigned readers; the signed ones are checked
                        want = mapping[:-1]  # may be dropped, but as a whole: everything before it must still decode
                    try:
                        bts = []
                        flatten(result, bts, sp)
                        if dec == "3.10":
                            got, end = ref_linetable310(bts, Fi, sp)
                            if not same(end, add(last_off, D2), sp):
                                out_.append("%s: the ranges end at %s, the code is %s bytes long" % (desc, show(end), show(add(last_off, D2))))
                                continue
                        else:
                            got = ref_lnotab(bts, Fi, dec == "signed", sp)
                    except Undecodable as ex:
                        out_.append("%s (%s reader): %s" % (desc, dec, ex))
                        continue
                    if len(got) != len(want) or not all(same(g[0], w[0], sp) and same(g[1], w[1], sp) for g, w in zip(got, want)):
                        out_.append("%s (%s reader): table %s decodes to %s, the mapping is %s" % (
                            desc, dec, [show(x) for x in bts][:12], [(show(a_), show(b_)) for a_, b_ in got][:4], [(show(a_), show(b_)) for a_, b_ in want][:4]))
                return out_
            try:
                cases, runs = bucketed(T.F, f, make, ranges, tab, max_cases=1500, extra_assume=assume, check=check)
            except Undecodable as ex:
                rep.ob("R8", construct, key, False, expected="every comparison of the encoder is decided inside some bucket", derived=str(ex)[:200], where=where,
                       msg="the %s encoder cannot be specialised per bucket: %s" % (cname, ex))
                continue
            except Exception as ex:
                raise AnalysisError("%s: specialisation failed (%s: %s)" % (construct, type(ex).__name__, ex))
            ncase += runs
            bad = [x for c_ in cases for x in c_[3]]
            rep.ob("R8", construct, key, not bad, expected="decoding the encoded table gives the mapping in every bucket (%d buckets, readers: %s)" % (len(cases), ", ".join(decoders)),
                   derived=bad[:3] or "%d buckets agree" % len(cases), where=where,
                   msg="%s.encode_lineno_tab(): %s" % (cname, "; ".join(bad[:2])))
    return ncase


INT_FIELDS = {"co_flags", "co_argcount", "co_posonlyargcount", "co_kwonlyargcount", "co_nlocals", "co_stacksize", "co_firstlineno"}


def freeze_discipline(rep, repo, rule):
    """freeze() is a normalisation: (a) it does not branch to an early return on an attribute that freeze() itself assigns (replace() deep-copies
    every attribute, so such a flag makes the next freeze() of a changed copy a no-op); (b) it does not rewrite integer-valued fields, which
    to_native() hands to types.CodeType unchanged."""
    n = 0
    for q, (m, fn) in sorted(repo.functions.items()):
        if not (q.startswith("xdis.codetype.") and q.endswith(".freeze")):
            continue
        n += 1
        rep.analysed(q)
        stores = {x.attr for x in ast.walk(fn) if isinstance(x, ast.Attribute) and isinstance(x.ctx, ast.Store) and isinstance(x.value, ast.Name) and x.value.id == "self"}
        for c in ast.walk(fn):
            if isinstance(c, ast.Call) and isinstance(c.func, ast.Name) and c.func.id == "setattr" and len(c.args) == 3 and ast.unparse(c.args[0]) == "self" and isinstance(c.args[1], ast.Constant):
                stores.add(c.args[1].value)
        # (a) early returns guarded by a self-assigned attribute
        memo = []
        for node in ast.walk(fn):
            if isinstance(node, ast.If) and any(isinstance(x, ast.Return) for b in node.body for x in ast.walk(b)):
                read = set()
                for x in ast.walk(node.test):
                    if isinstance(x, ast.Attribute) and isinstance(x.value, ast.Name) and x.value.id == "self":
                        read.add(x.attr)
                    if isinstance(x, ast.Call) and isinstance(x.func, ast.Name) and x.func.id in ("getattr", "hasattr") and len(x.args) >= 2 and ast.unparse(x.args[0]) == "self" \
                            and isinstance(x.args[1], ast.Constant):
                        read.add(x.args[1].value)
                flag = sorted(a for a in read & stores if not a.startswith("co_"))
                if flag and node is not fn.body[-1]:
                    memo.append("%s -> early return" % ", ".join(flag))
        rep.ob(rule, q, "no-early-return-on-own-flag", not memo, expected="freeze() re-normalises whenever it is called", derived=memo or "none", where=repo.where(m, fn),
               msg="freeze() returns early when %s, a flag it sets itself and replace() copies: a copy given a new line table or list fields is never encoded" % "; ".join(memo))
        # (b) integer fields
        touched = sorted(stores & INT_FIELDS)
        aug = sorted({x.target.attr for x in ast.walk(fn) if isinstance(x, ast.AugAssign) and isinstance(x.target, ast.Attribute) and isinstance(x.target.value, ast.Name)
                      and x.target.value.id == "self" and x.target.attr in INT_FIELDS})
        rep.ob(rule, q, "integer-fields-untouched", not touched and not aug, expected="no store to %s" % ", ".join(sorted(INT_FIELDS)), derived=touched + aug or "none", where=repo.where(m, fn),
               msg="freeze() rewrites %s; to_native() passes the rewritten value to types.CodeType, so the native object differs from the original" % ", ".join(touched + aug))
    rep.floor("freeze() implementations", n, 4)
