"""C19 -- freeze() encodes a line table that decodes back to the same mapping (DESIGN.md section 4, C19).

Necessary conditions only (the round trip itself is a value property):
 R1 freeze() reads only attributes that the class's __init__ chain defines
 R2 emission order: inside one mapping entry no (0, line != 0) pair is emitted before the pair that carries the address increment
    (the decoder attributes a line increment to the *following* address, so such a pair moves lines onto the previous offset)
 R3 every constant byte of an emitted pair is in 0..255; a line component that can be negative is reduced mod 256
 R4 every chunking loop moves its variable toward its exit test
 R5 freeze() sorts a dict table by offset and reaches the encoder for dict and list inputs
 R6 an entry with a negative line delta may be dropped only by a class that serves no version >= 3.6"""
import ast

from ..report import AnalysisError
from ..repo import get_repo

# portable class -> versions it serves (from codeType2Portable's selection; confirmed by C16/C01)
SERVES = {"Code15": ((1, 5), (2, 0)), "Code2": ((2, 1), (2, 7)), "Code3": ((3, 0), (3, 7)), "Code38": ((3, 8), (3, 9)), "Code310": ((3, 10), (3, 10))}
CLASSES = [("xdis.codetype.code15", "Code15"), ("xdis.codetype.code20", "Code2"), ("xdis.codetype.code30", "Code3"), ("xdis.codetype.code38", "Code38"),
           ("xdis.codetype.code310", "Code310")]


def const_int(e):
    if isinstance(e, ast.Constant) and isinstance(e.value, int) and not isinstance(e.value, bool):
        return e.value
    if isinstance(e, ast.UnaryOp) and isinstance(e.op, ast.USub) and isinstance(e.operand, ast.Constant) and isinstance(e.operand.value, int):
        return -e.operand.value
    return None


def emission_sites(fn, acc_names):
    """ordered [(addr expr, line expr, node, enclosing while tests)] of pairs appended to the accumulator"""
    sites = []
    pending = []  # chr()-style single byte appends

    def loops_of(n):
        out = []
        p = getattr(n, "_parent", None)
        while p is not None and p is not fn:
            if isinstance(p, ast.While):
                out.append(p)
            p = getattr(p, "_parent", None)
        return out

    order = []
    for n in ast.walk(fn):
        if isinstance(n, ast.AugAssign) and isinstance(n.op, ast.Add) and isinstance(n.target, ast.Name) and n.target.id in acc_names:
            order.append(n)
    order.sort(key=lambda n: (n.lineno, n.col_offset))
    for n in order:
        v = n.value
        if isinstance(v, ast.Call) and isinstance(v.func, ast.Name) and v.func.id in ("bytearray", "bytes") and v.args and isinstance(v.args[0], (ast.List, ast.Tuple)):
            elts = v.args[0].elts
            if len(elts) == 2:
                sites.append((elts[0], elts[1], n, loops_of(n)))
            else:
                sites.append((None, None, n, loops_of(n)))
        elif isinstance(v, ast.Call) and isinstance(v.func, ast.Name) and v.func.id == "chr" and v.args:
            pending.append((v.args[0], n))
            if len(pending) == 2:
                sites.append((pending[0][0], pending[1][0], pending[0][1], loops_of(n)))
                pending = []
        else:
            sites.append((None, None, n, loops_of(n)))
    return sites


def run(rep, tier):
    rep.explanation = ("AST analysis of the freeze() methods and line-table encoders of the portable code classes: attribute def-use against the __init__ chain, "
                       "ordered emission sites of (address, line) pairs, constant-range and loop-progress checks, dispatch of dict/list inputs")
    rep.rule("R1", "freeze() reads only attributes defined by the class's __init__ chain")
    rep.rule("R2", "within one entry no (0, non-zero line) pair is emitted before the pair carrying the address increment")
    rep.rule("R3", "constant bytes of emitted pairs are in 0..255; possibly-negative line components are reduced mod 256")
    rep.rule("R4", "every chunking loop changes its variable in the direction of its exit test")
    rep.rule("R5", "freeze() sorts dict tables by offset and calls the encoder for dict and list inputs")
    rep.rule("R6", "negative line deltas are dropped only by classes that serve no version >= 3.6")
    rep.rule("R7", "a class that serves a version >= 3.6 (signed line byte) emits no constant line chunk above 127")
    repo = get_repo()
    n_enc = 0
    for mod, cname in CLASSES:
        cq = "%s.%s" % (mod, cname)
        m, c = repo.cls(cq)
        mro = repo.mro(cq)
        # ---------------------------------------------------------------- attributes defined by the __init__ chain
        defined = set()
        for k in mro:
            iq = k + ".__init__"
            if iq in repo.functions:
                for n in ast.walk(repo.functions[iq][1]):
                    if isinstance(n, ast.Attribute) and isinstance(n.ctx, ast.Store) and isinstance(n.value, ast.Name) and n.value.id == "self":
                        defined.add(n.attr)
            # class-level annotations/assignments
            for s in repo.classes[k][1].body:
                if isinstance(s, ast.AnnAssign) and isinstance(s.target, ast.Name):
                    pass
        fq = repo.method(cq, "freeze")
        if fq is None:
            rep.ob("R5", cq, "has-freeze", False, derived="no freeze()")
            continue
        fm, ffn = repo.functions[fq]
        rep.analysed(fq)
        # ---------------------------------------------------------------- R1
        reads = set()
        for n in ast.walk(ffn):
            if isinstance(n, ast.Attribute) and isinstance(n.ctx, ast.Load) and isinstance(n.value, ast.Name) and n.value.id == "self":
                if repo.method(cq, n.attr) is None:
                    reads.add(n.attr)
            if isinstance(n, ast.For) and isinstance(n.iter, (ast.Call, ast.Tuple, ast.List)):
                # for field in "a b c".split(): getattr(self, field)
                names = []
                if isinstance(n.iter, ast.Call) and isinstance(n.iter.func, ast.Attribute) and n.iter.func.attr == "split" and isinstance(n.iter.func.value, ast.Constant):
                    names = n.iter.func.value.value.split()
                elif isinstance(n.iter, (ast.Tuple, ast.List)):
                    names = [e.value for e in n.iter.elts if isinstance(e, ast.Constant)]
                # getattr(self, field) raises for a missing attribute; getattr(self, field, default) / hasattr-guarded reads do not
                uses_getattr = any(isinstance(x, ast.Call) and isinstance(x.func, ast.Name) and x.func.id == "getattr" and len(x.args) == 2 and ast.unparse(x.args[0]) == "self"
                                   for x in ast.walk(n)) and not any(isinstance(x, ast.Call) and isinstance(x.func, ast.Name) and x.func.id == "hasattr" for x in ast.walk(n))
                if uses_getattr:
                    reads.update(names)
        stores_in_freeze = {n.attr for n in ast.walk(ffn) if isinstance(n, ast.Attribute) and isinstance(n.ctx, ast.Store) and isinstance(n.value, ast.Name) and n.value.id == "self"}
        missing = sorted(r for r in reads if r not in defined and r not in stores_in_freeze)
        rep.ob("R1", "%s (freeze of %s)" % (fq, cname), "reads-defined-attributes", not missing, expected="attributes set by %s.__init__ chain" % cname, derived=missing,
               where=repo.where(fm, ffn), msg="%s.freeze() reads %s, which no __init__ of %s defines: AttributeError for every object of that class" % (cname, missing, cname))
        # ---------------------------------------------------------------- R5
        src = ast.unparse(ffn)
        tab = "co_linetable" if "co_linetable" in src else "co_lnotab"
        dict_ok = ("isinstance(self.%s, dict)" % tab) in src and "sorted(" in src and ("key=lambda" in src or ".items()" in src)
        list_ok = ("isinstance(self.%s, list)" % tab) in src and "self.encode_lineno_tab()" in src
        sorted_by_offset = False
        for n in ast.walk(ffn):
            if isinstance(n, ast.Call) and isinstance(n.func, ast.Name) and n.func.id == "sorted":
                key = [k.value for k in n.keywords if k.arg == "key"]
                if not key:
                    sorted_by_offset = True  # tuples sort by first component
                elif isinstance(key[0], ast.Lambda) and isinstance(key[0].body, ast.Subscript) and const_int(key[0].body.slice) == 0:
                    sorted_by_offset = True
        rep.ob("R5", "%s (freeze of %s)" % (fq, cname), "dict-sorted-by-offset", dict_ok and sorted_by_offset, expected="sorted(zip(keys, values), key=offset)", derived=[dict_ok, sorted_by_offset])
        rep.ob("R5", "%s (freeze of %s)" % (fq, cname), "list-reaches-encoder", list_ok, expected="isinstance(table, list) -> self.encode_lineno_tab()", derived=list_ok)
        # ---------------------------------------------------------------- encoder
        eq = repo.method(cq, "encode_lineno_tab")
        if eq is None:
            rep.ob("R5", cq, "has-encoder", False, derived="no encode_lineno_tab()")
            continue
        em, efn = repo.functions[eq]
        rep.analysed(eq)
        n_enc += 1
        construct = "%s (encoder of %s)" % (eq, cname)
        acc = {n.targets[0].id for n in ast.walk(efn) if isinstance(n, ast.Assign) and isinstance(n.targets[0], ast.Name) and isinstance(n.value, ast.Constant)
               and isinstance(n.value.value, (str, bytes)) and n.value.value in ("", b"")}
        sites = emission_sites(efn, acc)
        rep.ob("R2", construct, "emission-sites", len(sites) >= 2, expected="chunk pairs and a final pair", derived=len(sites))
        # the address-carrying final pair: the last site whose address component is not a constant
        final = [i for i, s in enumerate(sites) if s[0] is not None and const_int(s[0]) is None]
        fi = final[-1] if final else None
        for i, (a, l, node, loops) in enumerate(sites):
            if a is None:
                continue
            ca, cl = const_int(a), const_int(l)
            where = repo.where(em, node)
            # R2
            if ca == 0 and (cl is None or cl != 0) and fi is not None and i < fi:
                rep.ob("R2", construct, "pair(%s,%s)-before-address-pair" % (ast.unparse(a), ast.unparse(l)), False,
                       expected="line-only continuation pairs after the pair that carries the address increment", derived="emitted at %s before the (address, line) pair" % where,
                       where=where, msg="a (0, %s) pair emitted before the address-carrying pair makes the decoder add those lines to the *previous* offset" % ast.unparse(l))
            # R3
            for comp, cv, nm in ((a, ca, "address"), (l, cl, "line")):
                if cv is not None:
                    rep.ob("R3", construct, "const-%s-byte:%s" % (nm, cv), 0 <= cv <= 255, expected="0..255", derived=cv, where=where,
                           msg="bytearray([.. %d ..]) raises ValueError: a byte must be in range(0, 256)" % cv)
        # R7: versions >= 3.6 read the line byte as signed: a constant chunk above 127 is a *negative* delta there
        lo_, hi_ = SERVES[cname]
        if hi_ >= (3, 6) and cname != "Code310":
            for i, (a, l, node, loops) in enumerate(sites):
                if l is None:
                    continue
                cl = const_int(l)
                if cl is not None:
                    rep.ob("R7", construct, "line-chunk:%d-signed-range" % cl, cl <= 127, expected="<= 127 (signed byte, 3.6+)", derived=cl, where=repo.where(em, node),
                           msg="%s serves versions up to %d.%d whose lnotab line byte is signed: the chunk value %d decodes as %d" % (cname, hi_[0], hi_[1], cl, cl - 256))
        # a line component that can be negative (no dropping guard) must be reduced
        drops_negative = False
        for n in ast.walk(efn):
            if isinstance(n, ast.If):
                t = ast.unparse(n.test)
                if ("line_diff < 0" in t and any(isinstance(x, ast.Continue) for x in n.body)) or ("0 <= line_diff" in t and not n.orelse):
                    drops_negative = True
        if fi is not None:
            l = sites[fi][1]
            reduced = isinstance(l, ast.BinOp) and isinstance(l.op, (ast.Mod, ast.BitAnd))
            rep.ob("R3", construct, "line-component-in-byte-range", drops_negative or reduced, expected="reduced mod 256 or negative deltas excluded", derived=ast.unparse(l),
                   where=repo.where(em, sites[fi][2]))
        # ---------------------------------------------------------------- R4 loop progress
        for n in ast.walk(efn):
            if not isinstance(n, ast.While) or not isinstance(n.test, ast.Compare) or len(n.test.ops) != 1 or not isinstance(n.test.left, ast.Name):
                continue
            var = n.test.left.id
            op = n.test.ops[0]
            steps = [s for s in ast.walk(n) if isinstance(s, ast.AugAssign) and isinstance(s.target, ast.Name) and s.target.id == var]
            if not steps:
                rep.ob("R4", construct, "loop(%s):progress" % ast.unparse(n.test), False, expected="loop variable changes", derived="never assigned", where=repo.where(em, n))
                continue
            good = True
            for s in steps:
                c = const_int(s.value)
                if c is None:
                    good = False
                    continue
                delta = -c if isinstance(s.op, ast.Sub) else (c if isinstance(s.op, ast.Add) else None)
                if delta is None:
                    good = False
                elif isinstance(op, (ast.Gt, ast.GtE)):
                    good = good and delta < 0
                elif isinstance(op, (ast.Lt, ast.LtE)):
                    good = good and delta > 0
            rep.ob("R4", construct, "loop(%s):progress" % ast.unparse(n.test), good, expected="moves toward the exit test", derived=[ast.unparse(s) for s in steps],
                   where=repo.where(em, n), msg="`while %s` never terminates: its body moves %s away from the exit" % (ast.unparse(n.test), var))
        # ---------------------------------------------------------------- R6
        lo, hi = SERVES[cname]
        rep.ob("R6", construct, "negative-delta-dropped", not (drops_negative and hi >= (3, 6)), expected="kept (signed deltas exist from 3.6)" if hi >= (3, 6) else "may drop",
               derived="dropped" if drops_negative else "kept",
               msg="%s serves %d.%d-%d.%d, where line tables have signed deltas, but the encoder silently drops entries whose line number decreases" % (cname, lo[0], lo[1], hi[0], hi[1]))
    rep.floor("line-table encoders analysed", n_enc, 5)
    rep.assumptions = ["the class -> served-versions table SERVES in rules/c19.py mirrors codeType2Portable's selection (decided by C01/C16)",
                       "the round trip itself and the 3.10 range semantics of Code310's encoder are value properties and are not decided"]
