"""C19 -- freeze() encodes a line table that decodes back to the same mapping (DESIGN.md section 4, C19).

Necessary conditions only (the round trip itself is a value property):
 R1 freeze() reads only attributes that the class's __init__ chain defines
 R2 emission order: inside one mapping entry no (0, line != 0) pair is emitted before the pair that carries the address increment
    (the decoder attributes a line increment to the *following* address, so such a pair moves lines onto the previous offset)
 R3 every constant byte of an emitted pair is in 0..255; a line component that can be negative is reduced mod 256
 R4 every chunking loop moves its variable toward its exit test
 R5 freeze() sorts a dict table by offset and reaches the encoder for dict and list inputs
 R6 an entry with a negative line delta may be dropped only by a class that serves no version >= 3.6"""
import ast

from ..report import AnalysisError
from ..repo import get_repo

# portable class -> versions it serves (from codeType2Portable's selection; confirmed by C16/C01)
SERVES = {"Code15": ((1, 5), (2, 0)), "Code2": ((2, 1), (2, 7)), "Code3": ((3, 0), (3, 7)), "Code38": ((3, 8), (3, 9)), "Code310": ((3, 10), (3, 10))}
CLASSES = [("xdis.codetype.code15", "Code15"), ("xdis.codetype.code20", "Code2"), ("xdis.codetype.code30", "Code3"), ("xdis.codetype.code38", "Code38"),
           ("xdis.codetype.code310", "Code310")]


def const_int(e):
    if isinstance(e, ast.Constant) and isinstance(e.value, int) and not isinstance(e.value, bool):
        return e.value
    if isinstance(e, ast.UnaryOp) and isinstance(e.op, ast.USub) and isinstance(e.operand, ast.Constant) and isinstance(e.operand.value, int):
        return -e.operand.value
    return None


def emission_sites(fn, acc_names):
    """ordered [(addr expr, line expr, node, enclosing while tests)] of pairs appended to the accumulator"""
    sites = []
    pending = []  # chr()-style single byte appends

    def loops_of(n):
        out = []
        p = getattr(n, "_parent", None)
        while p is not None and p is not fn:
            if isinstance(p, ast.While):
                out.append(p)
            p = getattr(p, "_parent", None)
        return out

    order = []
    for n in ast.walk(fn):
        if isinstance(n, ast.AugAssign) and isinstance(n.op, ast.Add) and isinstance(n.target, ast.Name) and n.target.id in acc_names:
            order.append(n)
    order.sort(key=lambda n: (n.lineno, n.col_offset))
    for n in order:
        v = n.value
        if isinstance(v, ast.Call) and isinstance(v.func, ast.Name) and v.func.id in ("bytearray", "bytes") and v.args and isinstance(v.args[0], (ast.List, ast.Tuple)):
            elts = v.args[0].elts
            if len(elts) == 2:
                sites.append((elts[0], elts[1], n, loops_of(n)))
            else:
                sites.append((None, None, n, loops_of(n)))
        elif isinstance(v, ast.Call) and isinstance(v.func, ast.Name) and v.func.id == "chr" and v.args:
            pending.append((v.args[0], n))
            if len(pending) == 2:
                sites.append((pending[0][0], pending[1][0], pending[0][1], loops_of(n)))
                pending = []
        else:
            sites.append((None, None, n, loops_of(n)))
    return sites


def run(rep, tier):
    rep.explanation = ("AST analysis of the freeze() methods and line-table encoders of the portable code classes: attribute def-use against the __init__ chain, "
                       "ordered emission sites of (address, line) pairs, constant-range and loop-progress checks, dispatch of dict/list inputs")
    rep.rule("R1", "freeze() reads only attributes defined by the class's __init__ chain")
    rep.rule("R2", "within one entry no (0, non-zero line) pair is emitted before the pair carrying the address increment")
    rep.rule("R3", "constant bytes of emitted pairs are in 0..255; possibly-negative line components are reduced mod 256")
    rep.rule("R4", "every chunking loop changes its variable in the direction of its exit test")
    rep.rule("R5", "freeze() sorts dict tables by offset and calls the encoder for dict and list inputs")
    rep.rule("R6", "negative line deltas are dropped only by classes that serve no version >= 3.6")
    rep.rule("R7", "a class that serves a version >= 3.6 (signed line byte) emits no constant line chunk above 127")
    rep.rule("R9", "freeze() never returns early on a flag it assigns itself (replace() copies it) and never rewrites an integer-valued field")
    rep.rule("R8", "per table entry the emitted address bytes add up to the advance of the previous-offset tracker and the line bytes to that of the previous-line "
                   "tracker: emitted + residual is invariant over every straight-line segment and one iteration of every chunking loop; a path that skips an entry "
                   "leaves the trackers alone")
    rep.rule("R10", "the line-start routines that decode what freeze() wrote obey the decoder rules of C05 (R1-R3, R5, R6: lnotab automaton per version, 3.10 co_lines pairs, "
                    "findlinestarts over co_lines, per-table binding), restated")
    from . import c05
    from ..report import SubReport, merge_sub
    sub = SubReport("C05", tier=tier)
    c05.run(sub, tier)
    merge_sub(rep, sub, "R10", "C05", only_rules=("R1", "R2", "R3", "R5", "R6"))
    repo = get_repo()
    n_enc = 0
    for mod, cname in CLASSES:
        cq = "%s.%s" % (mod, cname)
        m, c = repo.cls(cq)
        mro = repo.mro(cq)
        # ---------------------------------------------------------------- attributes defined by the __init__ chain
        defined = set()
        for k in mro:
            iq = k + ".__init__"
            if iq in repo.functions:
                for n in ast.walk(repo.functions[iq][1]):
                    if isinstance(n, ast.Attribute) and isinstance(n.ctx, ast.Store) and isinstance(n.value, ast.Name) and n.value.id == "self":
                        defined.add(n.attr)
            # class-level annotations/assignments
            for s in repo.classes[k][1].body:
                if isinstance(s, ast.AnnAssign) and isinstance(s.target, ast.Name):
                    pass
        fq = repo.method(cq, "freeze")
        if fq is None:
            rep.ob("R5", cq, "has-freeze", False, derived="no freeze()")
            continue
        fm, ffn = repo.functions[fq]
        rep.analysed(fq)
        # ---------------------------------------------------------------- R1
        reads = set()
        for n in ast.walk(ffn):
            if isinstance(n, ast.Attribute) and isinstance(n.ctx, ast.Load) and isinstance(n.value, ast.Name) and n.value.id == "self":
                if repo.method(cq, n.attr) is None:
                    reads.add(n.attr)
            if isinstance(n, ast.For) and isinstance(n.iter, (ast.Call, ast.Tuple, ast.List)):
                # for field in "a b c".split(): getattr(self, field)
                names = []
                if isinstance(n.iter, ast.Call) and isinstance(n.iter.func, ast.Attribute) and n.iter.func.attr == "split" and isinstance(n.iter.func.value, ast.Constant):
                    names = n.iter.func.value.value.split()
                elif isinstance(n.iter, (ast.Tuple, ast.List)):
                    names = [e.value for e in n.iter.elts if isinstance(e, ast.Constant)]
                # getattr(self, field) raises for a missing attribute; getattr(self, field, default) / hasattr-guarded reads do not
                uses_getattr = any(isinstance(x, ast.Call) and isinstance(x.func, ast.Name) and x.func.id == "getattr" and len(x.args) == 2 and ast.unparse(x.args[0]) == "self"
                                   for x in ast.walk(n)) and not any(isinstance(x, ast.Call) and isinstance(x.func, ast.Name) and x.func.id == "hasattr" for x in ast.walk(n))
                if uses_getattr:
                    reads.update(names)
        stores_in_freeze = {n.attr for n in ast.walk(ffn) if isinstance(n, ast.Attribute) and isinstance(n.ctx, ast.Store) and isinstance(n.value, ast.Name) and n.value.id == "self"}
        missing = sorted(r for r in reads if r not in defined and r not in stores_in_freeze)
        rep.ob("R1", "%s (freeze of %s)" % (fq, cname), "reads-defined-attributes", not missing, expected="attributes set by %s.__init__ chain" % cname, derived=missing,
               where=repo.where(fm, ffn), msg="%s.freeze() reads %s, which no __init__ of %s defines: AttributeError for every object of that class" % (cname, missing, cname))
        # ---------------------------------------------------------------- R5
        src = ast.unparse(ffn)
        tab = "co_linetable" if "co_linetable" in src else "co_lnotab"
        dict_ok = ("isinstance(self.%s, dict)" % tab) in src and "sorted(" in src and ("key=lambda" in src or ".items()" in src)
        list_ok = ("isinstance(self.%s, list)" % tab) in src and "self.encode_lineno_tab()" in src
        sorted_by_offset = False
        for n in ast.walk(ffn):
            if isinstance(n, ast.Call) and isinstance(n.func, ast.Name) and n.func.id == "sorted":
                key = [k.value for k in n.keywords if k.arg == "key"]
                if not key:
                    sorted_by_offset = True  # tuples sort by first component
                elif isinstance(key[0], ast.Lambda) and isinstance(key[0].body, ast.Subscript) and const_int(key[0].body.slice) == 0:
                    sorted_by_offset = True
        rep.ob("R5", "%s (freeze of %s)" % (fq, cname), "dict-sorted-by-offset", dict_ok and sorted_by_offset, expected="sorted(zip(keys, values), key=offset)", derived=[dict_ok, sorted_by_offset])
        rep.ob("R5", "%s (freeze of %s)" % (fq, cname), "list-reaches-encoder", list_ok, expected="isinstance(table, list) -> self.encode_lineno_tab()", derived=list_ok)
        # ---------------------------------------------------------------- encoder
        eq = repo.method(cq, "encode_lineno_tab")
        if eq is None:
            rep.ob("R5", cq, "has-encoder", False, derived="no encode_lineno_tab()")
            continue
        em, efn = repo.functions[eq]
        rep.analysed(eq)
        n_enc += 1
        construct = "%s (encoder of %s)" % (eq, cname)
        acc = {n.targets[0].id for n in ast.walk(efn) if isinstance(n, ast.Assign) and isinstance(n.targets[0], ast.Name) and isinstance(n.value, ast.Constant)
               and isinstance(n.value.value, (str, bytes)) and n.value.value in ("", b"")}
        sites = emission_sites(efn, acc)
        rep.ob("R2", construct, "emission-sites", len(sites) >= 2, expected="chunk pairs and a final pair", derived=len(sites))
        # the address-carrying final pair: the last site whose address component is not a constant
        final = [i for i, s in enumerate(sites) if s[0] is not None and const_int(s[0]) is None]
        fi = final[-1] if final else None
        for i, (a, l, node, loops) in enumerate(sites):
            if a is None:
                continue
            ca, cl = const_int(a), const_int(l)
            where = repo.where(em, node)
            # R2 (lnotab semantics only; in the 3.10 range format a zero-length pair *precedes* the range it prepares)
            if cname == "Code310":
                if ca == 0 and cl not in (None, 0) and fi is not None and i > fi:
                    rep.ob("R2", construct, "pair(%s,%s)-after-range-pair" % (ast.unparse(a), ast.unparse(l)), False,
                           expected="zero-length line-delta pairs before the pair that carries the range", derived="emitted at %s after the range pair" % where, where=where,
                           msg="a (0, %s) pair after the range pair changes the line of the *next* range, not of this one" % ast.unparse(l))
            elif ca == 0 and (cl is None or cl != 0) and fi is not None and i < fi:
                rep.ob("R2", construct, "pair(%s,%s)-before-address-pair" % (ast.unparse(a), ast.unparse(l)), False,
                       expected="line-only continuation pairs after the pair that carries the address increment", derived="emitted at %s before the (address, line) pair" % where,
                       where=where, msg="a (0, %s) pair emitted before the address-carrying pair makes the decoder add those lines to the *previous* offset" % ast.unparse(l))
            # R3
            for comp, cv, nm in ((a, ca, "address"), (l, cl, "line")):
                if cv is not None:
                    rep.ob("R3", construct, "const-%s-byte:%s" % (nm, cv), 0 <= cv <= 255, expected="0..255", derived=cv, where=where,
                           msg="bytearray([.. %d ..]) raises ValueError: a byte must be in range(0, 256)" % cv)
        # R7: versions >= 3.6 read the line byte as signed: a constant chunk above 127 is a *negative* delta there
        lo_, hi_ = SERVES[cname]
        if hi_ >= (3, 6) and cname != "Code310":
            for i, (a, l, node, loops) in enumerate(sites):
                if l is None:
                    continue
                cl = const_int(l)
                # a chunk of a loop that runs while the delta is below a negative bound is a negative signed byte (0x80 = -128): R8 accounts for it
                neg_loop = any(isinstance(w.test, ast.Compare) and isinstance(w.test.ops[0], (ast.Lt, ast.LtE)) for w in loops)
                if cl is not None and not neg_loop:
                    rep.ob("R7", construct, "line-chunk:%d-signed-range" % cl, cl <= 127, expected="<= 127 (signed byte, 3.6+)", derived=cl, where=repo.where(em, node),
                           msg="%s serves versions up to %d.%d whose lnotab line byte is signed: the chunk value %d decodes as %d" % (cname, hi_[0], hi_[1], cl, cl - 256))
        # a line component that can be negative (no dropping guard) must be reduced
        drops_negative = False
        for n in ast.walk(efn):
            if isinstance(n, ast.If):
                t = ast.unparse(n.test)
                if ("line_diff < 0" in t and any(isinstance(x, ast.Continue) for x in n.body)) or ("0 <= line_diff" in t and not n.orelse):
                    drops_negative = True
        if fi is not None:
            l = sites[fi][1]
            reduced = isinstance(l, ast.BinOp) and isinstance(l.op, (ast.Mod, ast.BitAnd))
            rep.ob("R3", construct, "line-component-in-byte-range", drops_negative or reduced, expected="reduced mod 256 or negative deltas excluded", derived=ast.unparse(l),
                   where=repo.where(em, sites[fi][2]))
        # ---------------------------------------------------------------- R4 loop progress
        for n in ast.walk(efn):
            if not isinstance(n, ast.While) or not isinstance(n.test, ast.Compare) or len(n.test.ops) != 1 or not isinstance(n.test.left, ast.Name):
                continue
            var = n.test.left.id
            op = n.test.ops[0]
            steps = [s for s in ast.walk(n) if isinstance(s, ast.AugAssign) and isinstance(s.target, ast.Name) and s.target.id == var]
            if not steps:
                rep.ob("R4", construct, "loop(%s):progress" % ast.unparse(n.test), False, expected="loop variable changes", derived="never assigned", where=repo.where(em, n))
                continue
            good = True
            for s in steps:
                c = const_int(s.value)
                if c is None:
                    good = False
                    continue
                delta = -c if isinstance(s.op, ast.Sub) else (c if isinstance(s.op, ast.Add) else None)
                if delta is None:
                    good = False
                elif isinstance(op, (ast.Gt, ast.GtE)):
                    good = good and delta < 0
                elif isinstance(op, (ast.Lt, ast.LtE)):
                    good = good and delta > 0
            rep.ob("R4", construct, "loop(%s):progress" % ast.unparse(n.test), good, expected="moves toward the exit test", derived=[ast.unparse(s) for s in steps],
                   where=repo.where(em, n), msg="`while %s` never terminates: its body moves %s away from the exit" % (ast.unparse(n.test), var))
        # ---------------------------------------------------------------- R6
        lo, hi = SERVES[cname]
        rep.ob("R6", construct, "negative-delta-dropped", not (drops_negative and hi >= (3, 6)), expected="kept (signed deltas exist from 3.6)" if hi >= (3, 6) else "may drop",
               derived="dropped" if drops_negative else "kept",
               msg="%s serves %d.%d-%d.%d, where line tables have signed deltas, but the encoder silently drops entries whose line number decreases" % (cname, lo[0], lo[1], hi[0], hi[1]))
    rep.floor("line-table encoders analysed", n_enc, 5)
    from ..tables import tables
    T = tables()
    nseg = 0
    for mod, cname in CLASSES:
        cq = "%s.%s" % (mod, cname)
        eq = repo.method(cq, "encode_lineno_tab")
        em, efn = repo.functions[eq]
        if cname == "Code310":
            # 3.10 line table: (length, signed delta) ranges; -128 is reserved for "no line"
            nseg += conservation_rule(rep, T, mod, cname, "%s (encoder of %s)" % (eq, cname), repo.where(em, efn), signed_lines=True, ranges=True, min_signed=-127)
            continue
        nseg += conservation_rule(rep, T, mod, cname, "%s (encoder of %s)" % (eq, cname), repo.where(em, efn), signed_lines=SERVES[cname][1] >= (3, 6))
    rep.floor("conservation checks (segments and loop iterations)", nseg, 12)
    freeze_discipline(rep, repo, "R9")
    rep.assumptions = ["the class -> served-versions table SERVES in rules/c19.py mirrors codeType2Portable's selection (decided by C01/C16)",
                       "the round trip itself and the 3.10 range semantics of Code310's encoder are value properties and are not decided"]


# ====================================================================== R8: conservation (specialiser based)
class Unparsed(Exception):
    pass


def _bytes_of(x):
    """the byte terms appended by one piece, as a list of items: term | ('rep', [items], count)"""
    from ..sve import Op, Sym
    if isinstance(x, (bytes, bytearray)):
        return list(x)
    if isinstance(x, str):
        return [ord(c) for c in x]
    if isinstance(x, Op) and x.op == "bytesof":
        return list(x.args)
    if isinstance(x, Op) and x.op == "call" and x.args and x.args[0] in ("chr", "unichr") and len(x.args) == 2:
        return [x.args[1]]
    if isinstance(x, Op) and x.op == "call" and x.args and x.args[0] in ("bytearray", "bytes") and len(x.args) == 2:
        return _bytes_of(x.args[1])
    if isinstance(x, (list, tuple)):
        return list(x)
    if isinstance(x, Op) and x.op == "Mult" and len(x.args) == 2:
        a, b = x.args
        for seq, k in ((a, b), (b, a)):
            try:
                inner = _bytes_of(seq)
            except Unparsed:
                continue
            return [("rep", inner, k)]
    if isinstance(x, Op) and x.op == "concat":
        out = []
        for a in x.args:
            out.extend(_bytes_of(a))
        return out
    raise Unparsed("piece %r" % (x,))


def _pieces(term, base):
    """byte items appended to the accumulator `base` (a Sym) in `term`"""
    from ..sve import Op
    if repr(term) == repr(base):
        return []
    if isinstance(term, Op) and term.op == "concat":
        head, rest = term.args[0], term.args[1:]
        out = _pieces(head, base)
        for r in rest:
            out.extend(_bytes_of(r))
        return out
    raise Unparsed("accumulator %r is not %r plus appended pieces" % (term, base))


def _signed(x):
    """value of a line byte read as a signed byte (3.6+ lnotab): constants >= 128 wrap; `v & 0xFF` stands for v (|v| <= 128 after the chunk loops)"""
    from ..sve import Op
    if isinstance(x, int) and not isinstance(x, bool):
        return x - 256 if x >= 128 else x
    if isinstance(x, Op) and x.op == "bits" and x.args[1] == 0 and x.args[2] == 8:
        return x.args[0]
    return x


def _sums(items, signed_lines=False):
    """(sum of even-position bytes, sum of odd-position bytes) as terms"""
    from ..sve import add, mul
    if signed_lines:
        conv, pos_ = [], 0
        for it in items:
            if isinstance(it, tuple) and it and it[0] == "rep":
                conv.append(("rep", [(_signed(x) if (pos_ + i) % 2 else x) for i, x in enumerate(it[1])], it[2]))
            else:
                conv.append(_signed(it) if pos_ % 2 else it)
                pos_ += 1
        items = conv
    tot = [0, 0]
    pos = 0
    for it in items:
        if isinstance(it, tuple) and it and it[0] == "rep":
            inner, k = it[1], it[2]
            if len(inner) % 2 or any(isinstance(x, tuple) for x in inner):
                raise Unparsed("repetition of an odd-length piece")
            sa, sl = 0, 0
            for i, x in enumerate(inner):
                if (pos + i) % 2 == 0:
                    sa = add(sa, x)
                else:
                    sl = add(sl, x)
            tot[0] = add(tot[0], mul(sa, k))
            tot[1] = add(tot[1], mul(sl, k))
        else:
            tot[pos % 2] = add(tot[pos % 2], it)
            pos += 1
    return tot[0], tot[1]


def _cases(term):
    """[(condition list, term)] of a possibly guarded accumulator"""
    from ..sve import Guard
    if isinstance(term, Guard):
        return [([term.cond] + c, t) for c, t in _cases(term.a)] + [([("not", term.cond)] + c, t) for c, t in _cases(term.b)]
    return [([], term)]


def _resolve(t, cond):
    """specialise a term to a case: guards whose condition is decided by `cond` are replaced by the chosen branch"""
    from ..sve import Guard, Lin, add, mul
    true = {repr(c) for c in cond if not isinstance(c, tuple)}
    false = {repr(c[1]) for c in cond if isinstance(c, tuple)}
    if isinstance(t, Guard):
        r = repr(t.cond)
        if r in true:
            return _resolve(t.a, cond)
        if r in false:
            return _resolve(t.b, cond)
        return t
    if isinstance(t, Lin):
        out = t.const
        for a, c in t.terms.items():
            out = add(out, mul(_resolve(a, cond), c))
        return out
    return t


def _zero(t):
    return (isinstance(t, int) and not isinstance(t, bool) and t == 0) or repr(t) == "0"


def conservation_rule(rep, T, mod, cname, construct, where, signed_lines=False, ranges=False, min_signed=-128):
    """R8.  Per table entry the address bytes emitted add up to the advance of the previous-offset tracker and the line bytes to
    the advance of the previous-line tracker.  Decided as an invariant: emitted + residual is unchanged by every straight-line
    segment and by one iteration of every chunking loop (terms from the specialiser's one-iteration summaries)."""
    from ..fold import ClassRef, FuncRef, Instance
    from ..sve import Cont, Fall, Op, Spec, Sym, add, leaves, show
    F = T.F
    C = F.load(mod).ns.get(cname)
    f = C.lookup("encode_lineno_tab") if isinstance(C, ClassRef) else None
    if not isinstance(f, FuncRef):
        raise AnalysisError("anchor vanished: %s.%s.encode_lineno_tab" % (mod, cname))
    me = Instance(C)
    me.attrs.update(co_lnotab=Sym("table", "list"), co_linetable=Sym("table", "list"), co_firstlineno=Sym("first", "int"), co_code=Sym("cocode", "bytes"))
    sp = Spec(F)
    sp.run(f, [me])
    outer = [e.args[3] for e in sp.effects if e.kind == "loop" and show(e.args[3].cond).startswith("iter-more(")]
    if len(outer) != 1:
        raise AnalysisError("%s: expected one loop over the table, found %d" % (construct, len(outer)))
    L0 = outer[0]
    inner = [e.args[3] for e in L0.effects if e.kind == "loop"]
    if ranges:
        # 3.10 ranges: the loop walks (entry, next entry) pairs; an entry's range ends where the next one starts
        elem, nxt = Sym(L0.tag + ".0:elem"), Sym(L0.tag + ".1:elem")
    else:
        elem, nxt = Sym(L0.tag + ":elem"), None
    item0, item1 = repr(Op("item", elem, 0)), repr(Op("item", elem, 1))
    lv = [(g, l) for g, l in leaves(L0.out) if isinstance(l, (Fall, Cont))]
    if not lv:
        raise AnalysisError("%s: the table loop has no continuing path" % construct)

    def head(n):
        return Sym("%s:%s" % (L0.tag, n))
    problems = []
    nchecks = 0
    rl_seen = None
    for g, l in lv:
        env = l.env
        accs = [n for n, v in env.items() if isinstance(n, str) and not n.startswith("__") and ("concat" in show(v) or "co_l" in n) and n in L0.pre and
                (isinstance(L0.pre[n], (str, bytes, bytearray)) or "b''" in show(L0.pre[n])) and repr(v) != repr(L0.pre[n])]
        if len(accs) != 1:
            raise AnalysisError("%s: accumulator not identified (%s)" % (construct, accs))
        acc = accs[0]
        pa = [n for n, v in env.items() if isinstance(n, str) and n in L0.pre and repr(v) == item0 and n not in ("offset",)]
        pl = [n for n, v in env.items() if isinstance(n, str) and n in L0.pre and repr(v) == item1]
        if ranges and pl:
            pa = ["<next start - this start>"]
        path = " and ".join(_notag(show(x)) for x in g if not (isinstance(x, Op) and x.op == "in-loop")) or "main path"
        if not pa or not pl:
            # a path that leaves the trackers alone must emit nothing (the entry is skipped as a whole)
            for cond, term in _cases(env[acc]):
                try:
                    items = _pieces(term, head(acc)) if not inner or "after-" not in show(term) else None
                except Unparsed:
                    items = None
                unchanged = all(repr(env.get(n)) == repr(head(n)) or repr(env.get(n)) == repr(L0.pre.get(n)) for n in L0.pre if isinstance(n, str) and n.startswith("prev"))
                nchecks += 1
                if items or not unchanged:
                    problems.append(("skip-path", path, "emits %s while the trackers %s" % (items, "stay" if unchanged else "move")))
            continue
        Ta = add(Op("item", nxt, 0), Op("item", elem, 0), -1) if ranges else add(env[pa[0]], head(pa[0]), -1)
        Tl = add(env[pl[0]], head(pl[0]), -1)
        # checkpoints: (base accumulator symbol, env at the end of the segment, accumulator term at the end of the segment)
        segs = []
        base = head(acc)
        for ls in inner:
            segs.append((base, ls.pre, ls.pre.get(acc), ls))
            base = Sym("after-%s:%s" % (ls.tag, acc))
        segs.append((base, env, env[acc], None))
        ra = rl = None
        try:
            for si, (b, e_end_raw, acc_end, ls) in enumerate(segs):
                if rl is not None:
                    rl_seen = rl
                for cond, term in _cases(acc_end):
                    sa, sl = _sums(_pieces(term, b), signed_lines)
                    nchecks += 1
                    e_end = {n: _resolve(v, cond) for n, v in e_end_raw.items() if isinstance(n, str)}
                    cdesc = (" when " + " and ".join(_notag(show(c)) if not isinstance(c, tuple) else "not(%s)" % _notag(show(c[1])) for c in cond)) if cond else ""
                    if si == 0:
                        # residuals: the variables that, with what was emitted so far, make up the entry's deltas
                        cand_a = [n for n, v in e_end.items() if isinstance(n, str) and not n.startswith("__") and n != acc and _zero(add(add(sa, v), Ta, -1))]
                        cand_l = [n for n, v in e_end.items() if isinstance(n, str) and not n.startswith("__") and n != acc and _zero(add(add(sl, v), Tl, -1))]
                        cand_a = [n for n in cand_a if n not in (pa[0], "offset")] or cand_a
                        cand_l = [n for n in cand_l if n not in (pl[0], "line_number")] or cand_l
                        if ls is None:
                            # no chunking loop at all: everything must have been emitted in this one segment
                            if not _zero(add(sa, Ta, -1)):
                                problems.append(("address", path + cdesc, "emitted address bytes sum to %s, the entry advances by %s" % (show(sa), show(Ta))))
                            if not _zero(add(sl, Tl, -1)):
                                problems.append(("line", path + cdesc, "emitted line bytes sum to %s, the entry advances by %s" % (show(sl), show(Tl))))
                            continue
                        if not cand_a:
                            problems.append(("address", path + cdesc, "before the first chunking loop %s was emitted and no variable holds the rest of %s" % (show(sa), show(Ta))))
                        if not cand_l:
                            problems.append(("line", path + cdesc, "before the first chunking loop %s was emitted and no variable holds the rest of %s" % (show(sl), show(Tl))))
                        if not cand_a or not cand_l:
                            raise StopIteration
                        ra, rl = cand_a[0], cand_l[0]
                    else:
                        prev_ls = segs[si - 1][3]
                        start_a = Sym("after-%s:%s" % (prev_ls.tag, ra)) if _modified(prev_ls, ra) else segs[si - 1][1].get(ra)
                        start_l = Sym("after-%s:%s" % (prev_ls.tag, rl)) if _modified(prev_ls, rl) else segs[si - 1][1].get(rl)
                        if ls is None:
                            # last segment: what is emitted must be exactly what is left
                            if not _zero(add(sa, start_a, -1)):
                                problems.append(("address", path + cdesc, "after the loops %s is left but %s is emitted" % (show(start_a), show(sa))))
                            if not _zero(add(sl, start_l, -1)):
                                problems.append(("line", path + cdesc, "after the loops %s is left but %s is emitted" % (show(start_l), show(sl))))
                        else:
                            if not _zero(add(add(sa, e_end.get(ra)), start_a, -1)):
                                problems.append(("address", path + cdesc, "between loops: emitted %s, residual goes %s -> %s" % (show(sa), show(start_a), show(e_end.get(ra)))))
                            if not _zero(add(add(sl, e_end.get(rl)), start_l, -1)):
                                problems.append(("line", path + cdesc, "between loops: emitted %s, residual goes %s -> %s" % (show(sl), show(start_l), show(e_end.get(rl)))))
                if ls is not None and ra is not None:
                    # one iteration of the chunking loop keeps emitted + residual constant
                    hb = Sym("%s:%s" % (ls.tag, acc))
                    for g2, l2 in leaves(ls.out):
                        if not isinstance(l2, (Fall, Cont)):
                            continue
                        for cond, term in _cases(l2.env[acc]):
                            sa, sl = _sums(_pieces(term, hb), signed_lines)
                            nchecks += 1
                            ha = Sym("%s:%s" % (ls.tag, ra)) if _modified(ls, ra) else ls.pre.get(ra)
                            hl = Sym("%s:%s" % (ls.tag, rl)) if _modified(ls, rl) else ls.pre.get(rl)
                            da = add(add(sa, l2.env.get(ra)), ha, -1)
                            dl = add(add(sl, l2.env.get(rl)), hl, -1)
                            lname = "loop(%s)" % _notag(show(ls.cond))[:60]
                            if not _zero(da):
                                problems.append(("address", lname, "one iteration emits address bytes %s while %s goes %s -> %s" % (show(sa), ra, show(ha), show(l2.env.get(ra)))))
                            if not _zero(dl):
                                problems.append(("line", lname, "one iteration emits line bytes %s while %s goes %s -> %s" % (show(sl), rl, show(hl), show(l2.env.get(rl)))))
        except StopIteration:
            pass
        except Unparsed as ex:
            raise AnalysisError("%s: emission idiom outside the supported subset: %s" % (construct, ex))
    # a line byte written as `v & 0xFF` stands for v only inside the signed-byte range: the exit tests of the chunking loops must establish it
    if signed_lines:
        from ..sve import Lin
        uses_mask = False
        for g, l in lv:
            for n_, v_ in l.env.items():
                if isinstance(n_, str) and "bits(" in show(v_) and ", 0, 8)" in show(v_) and "concat" in show(v_):
                    uses_mask = True
        if uses_mask:
            ub, lb = None, None
            for ls in inner:
                c = ls.cond
                if isinstance(c, Op) and c.op in ("GtE", "Gt", "Lt", "LtE") and isinstance(c.args[1], int) and isinstance(c.args[0], Sym) and \
                        (rl_seen is None or c.args[0].name.endswith(":" + rl_seen)):
                    k_ = c.args[1]
                    if c.op == "GtE":
                        ub = k_ - 1 if ub is None else min(ub, k_ - 1)
                    elif c.op == "Gt":
                        ub = k_ if ub is None else min(ub, k_)
                    elif c.op == "Lt":
                        lb = k_ if lb is None else max(lb, k_)
                    elif c.op == "LtE":
                        lb = k_ + 1 if lb is None else max(lb, k_ + 1)
            okr = ub is not None and ub <= 127 and lb is not None and lb >= min_signed
            nchecks += 1
            if not okr:
                problems.append(("line", "final pair", "the line byte is written as v & 0xFF but the chunking loops only establish %s <= v <= %s; a signed byte holds %d..127" % (lb, ub, min_signed)))
    seen = set()
    for kind, pth, what in problems:
        key = _notag("conservation:%s:%s" % (kind, pth))
        if key in seen:
            continue
        seen.add(key)
        rep.ob("R8", construct, key[:150], False, expected="bytes emitted for an entry add up to the entry's offset / line advance", derived=what, where=where,
               msg="%s bytes of the encoded table do not add up to the mapping's deltas (%s): every later entry decodes to a wrong %s" % (
                   kind, what, "offset" if kind == "address" else "line"))
    if not problems:
        rep.ob("R8", construct, "conservation", True, derived="%d segment / iteration checks" % nchecks)
    return nchecks


def _notag(text):
    """loop tags carry source line numbers: keep them out of obligation keys"""
    import re
    return re.sub(r"(after-)?loop\d+(\.\d+)?:", "", text)


def _modified(ls, name):
    from ..sve import Cont, Fall, leaves
    for g, l in leaves(ls.out):
        if isinstance(l, (Fall, Cont)) and name in l.env and repr(l.env[name]) != repr(ls.pre.get(name)):
            return True
    return False



# ====================================================================== freeze() discipline (C19-R9, shared with C16-R4)
INT_FIELDS = {"co_flags", "co_argcount", "co_posonlyargcount", "co_kwonlyargcount", "co_nlocals", "co_stacksize", "co_firstlineno"}


def freeze_discipline(rep, repo, rule):
    """freeze() is a normalisation: (a) it does not branch to an early return on an attribute that freeze() itself assigns (replace() deep-copies
    every attribute, so such a flag makes the next freeze() of a changed copy a no-op); (b) it does not rewrite integer-valued fields, which
    to_native() hands to types.CodeType unchanged."""
    n = 0
    for q, (m, fn) in sorted(repo.functions.items()):
        if not (q.startswith("xdis.codetype.") and q.endswith(".freeze")):
            continue
        n += 1
        rep.analysed(q)
        stores = {x.attr for x in ast.walk(fn) if isinstance(x, ast.Attribute) and isinstance(x.ctx, ast.Store) and isinstance(x.value, ast.Name) and x.value.id == "self"}
        for c in ast.walk(fn):
            if isinstance(c, ast.Call) and isinstance(c.func, ast.Name) and c.func.id == "setattr" and len(c.args) == 3 and ast.unparse(c.args[0]) == "self" and isinstance(c.args[1], ast.Constant):
                stores.add(c.args[1].value)
        # (a) early returns guarded by a self-assigned attribute
        memo = []
        for node in ast.walk(fn):
            if isinstance(node, ast.If) and any(isinstance(x, ast.Return) for b in node.body for x in ast.walk(b)):
                read = set()
                for x in ast.walk(node.test):
                    if isinstance(x, ast.Attribute) and isinstance(x.value, ast.Name) and x.value.id == "self":
                        read.add(x.attr)
                    if isinstance(x, ast.Call) and isinstance(x.func, ast.Name) and x.func.id in ("getattr", "hasattr") and len(x.args) >= 2 and ast.unparse(x.args[0]) == "self" \
                            and isinstance(x.args[1], ast.Constant):
                        read.add(x.args[1].value)
                flag = sorted(a for a in read & stores if not a.startswith("co_"))
                if flag and node is not fn.body[-1]:
                    memo.append("%s -> early return" % ", ".join(flag))
        rep.ob(rule, q, "no-early-return-on-own-flag", not memo, expected="freeze() re-normalises whenever it is called", derived=memo or "none", where=repo.where(m, fn),
               msg="freeze() returns early when %s, a flag it sets itself and replace() copies: a copy given a new line table or list fields is never encoded" % "; ".join(memo))
        # (b) integer fields
        touched = sorted(stores & INT_FIELDS)
        aug = sorted({x.target.attr for x in ast.walk(fn) if isinstance(x, ast.AugAssign) and isinstance(x.target, ast.Attribute) and isinstance(x.target.value, ast.Name)
                      and x.target.value.id == "self" and x.target.attr in INT_FIELDS})
        rep.ob(rule, q, "integer-fields-untouched", not touched and not aug, expected="no store to %s" % ", ".join(sorted(INT_FIELDS)), derived=touched + aug or "none", where=repo.where(m, fn),
               msg="freeze() rewrites %s; to_native() passes the rewritten value to types.CodeType, so the native object differs from the original" % ", ".join(touched + aug))
    rep.floor("freeze() implementations", n, 4)
