"""C20 -- xdis.std is a faithful drop-in for the host's dis module (DESIGN.md section 4, C20).

Instruction fields themselves are decided by C02-C05; here: the plumbing of xdis.std.
 R1 first_line reaches starts_line: def-use chain first_line -> line offset -> get_instructions_bytes -> decoder -> starts_line
 R2 the Bytecode class nested in _StdApi.__init__ uses the instance's opcode table, not the module-level default API
 R3 module-level opmap/opname/... are the same-named members of the default API, and those are the same-named table fields
 R4 get_code_object probes the same attributes, in the same order, as dis._get_code_object of every host
 R5 make_std_api / get_opcode_module turn a float version into the right tuple for 1.0 ... 3.9"""
import ast

from ..disasm_sum import CODE, MARK, ByteHook
from ..fold import ClassRef, FoldError, FuncRef, Instance, ModuleNS, PyExc
from ..report import AnalysisError
from ..repo import get_repo
from ..sve import (Lin, Op, Ret, Spec, Sym, flatten_effects, leaves, show)
from ..tables import ref_json, tables

STD_NAMES = ["hasconst", "hasname", "opmap", "opname", "EXTENDED_ARG", "HAVE_ARGUMENT", "Bytecode", "Instruction", "findlabels", "findlinestarts",
             "get_instructions", "code_info", "show_code", "dis", "distb", "disassemble", "disco", "pretty_flags",
             "cmp_op", "hasjrel", "hasjabs", "haslocal", "hascompare", "hasfree", "hasnargs", "stack_effect"]
TABLE_FIELDS = ["hasconst", "hasname", "opmap", "opname", "EXTENDED_ARG", "HAVE_ARGUMENT", "cmp_op", "hasjrel", "hasjabs", "haslocal", "hascompare", "hasfree", "hasnargs"]


def run(rep, tier):
    rep.explanation = ("def-use chains through xdis.std / Bytecode / get_instructions_bytes / the decoder by specialisation with symbolic first_line and "
                       "line offset; the folded xdis.std module (the default API object, API objects for other versions, the classes they carry) specialised on symbolic "
                       "arguments down to the decoder call; probe order of get_code_object observed on the specialised function; constant folding of the float-version conversions")
    rep.rule("R1", "the first_line argument shifts every reported starts_line: first_line -> (first_line - co_firstlineno) -> line_offset parameter of "
                   "get_instructions_bytes -> line_offset of the decoder -> starts_line = linestarts[offset] + line_offset, with no link dropping it")
    rep.rule("R2", "inside _StdApi.__init__ the nested Bytecode falls back to the API instance's own opcode table (a variable of that __init__), not to the module-level default API")
    rep.rule("R3", "xdis.std's module-level names are the same-named members of the default API object and those are the same-named fields of its opcode table / bound finders")
    rep.rule("R4", "get_code_object probes __func__, __code__, gi_code, ag_code, cr_code, str (compile), co_code in dis._get_code_object's order")
    rep.rule("R5", "float version numbers 1.0 ... 3.9 convert to the right (major, minor)")
    rep.rule("R8", "xdis.std.Bytecode constructs its base class with dup_lines=False (dis reports a line only where it changes)")
    rep.rule("R7", "like dis, xdis.std.get_instructions and iteration over xdis.std.Bytecode leave out the inline CACHE entries of 3.11+ code unless show_caches is given")
    rep.rule("R9", "repeating a question gives dis's answer again: nothing the std API runs (xdis.std, the decoder, label and line-start finders, instruction records, opcode "
                   "tables) writes shared state or hands out a memoised mutable result that a caller changes (C18 R1/R3/R4, restated for these modules)")
    rep.rule("R6", "what the API returns is what the shared machinery computes: for every opcode table make_std_api can select, the decoder (C02 widths/operands, "
                   "C03 operand values, C04 targets and labels) and the line-start finders (C05 rules) agree with Lib/dis.py of that version")
    T = tables()
    F = T.F
    repo = get_repo()
    bc = F.modules["xdis.bytecode"]
    # ---------------------------------------------------------------- R1
    LO = Sym("LO", "int")
    # (a) decoder: starts_line = linestarts.get(i) + line_offset
    f = bc.ns.get("get_logical_instruction_at_offset")
    opc = T.table_for_version("3.8")
    bh = ByteHook(opc.ns["opmap"]["POP_TOP"])
    sp = Spec(F, hooks=[bh], opaque_funcs={"format_CALL_FUNCTION", "format_CALL_FUNCTION_EX"})
    sp.byte_hook = bh.index
    ls_ = Sym("linestarts", "dict")
    sp.run(f, [], dict(bytecode=CODE, offset=Sym("offset0", "int"), opc=opc, varnames=MARK["varnames"], names=MARK["names"], constants=MARK["constants"],
                       cells=MARK["cells"], linestarts=ls_, line_offset=LO, exception_entries=None, labels=Sym("labels", "list")))
    ys = [e for k, e in flatten_effects(sp.effects) if k == "yield"]
    sl = dict(ys[0].args[0].args[1]).get("starts_line") if ys and isinstance(ys[0].args[0], Op) else None
    s = show(sl)
    ok = "LO" in s and "linestarts" in s
    rep.ob("R1", "xdis.bytecode.get_logical_instruction_at_offset", "starts_line=linestarts[offset]+line_offset", ok, expected="linestarts.get(offset) + line_offset when a line starts here",
           derived=s[:200], msg="the decoder does not add its line_offset parameter to starts_line")
    rep.analysed(f.qualname)
    # (b) get_instructions_bytes passes its line_offset on
    g = bc.ns.get("get_instructions_bytes")
    seen = {}

    def hook(spec, name, fv, args, kw, node):
        if name.endswith("findlabels"):
            return Sym("labels", "list")
        if name.endswith("get_logical_instruction_at_offset"):
            seen["kw"] = dict(kw)
            seen["args"] = list(args)
            return Sym("gen", "gen", {})
        return NotImplemented
    sp = Spec(F, hooks=[hook])
    sp.run(g, [Sym("code", "bytes"), opc], dict(linestarts=ls_, line_offset=LO))
    passed = seen.get("kw", {}).get("line_offset", seen.get("args", [None] * 9)[8] if len(seen.get("args", [])) > 8 else "<not passed>")
    rep.ob("R1", "xdis.bytecode.get_instructions_bytes", "passes-line_offset", repr(passed) == repr(LO), expected="line_offset=line_offset", derived=show(passed),
           msg="get_instructions_bytes does not hand its line_offset parameter to the decoder: first_line has no effect on starts_line")
    lsp = seen.get("kw", {}).get("linestarts")
    rep.ob("R1", "xdis.bytecode.get_instructions_bytes", "passes-linestarts", repr(lsp) == repr(ls_), expected="linestarts=linestarts", derived=show(lsp))
    rep.analysed(g.qualname)
    # (c) Bytecode.get_instructions and Bytecode.__init__/__iter__ compute first_line - co_firstlineno and pass it
    B = bc.ns.get("Bytecode")
    FL = Sym("first_line", "int")
    for meth, kind in (("get_instructions", "call"), ("__iter__", "init")):
        seen.clear()

        def hook2(spec, name, fv, args, kw, node):
            if name.endswith("get_code_object"):
                return Sym("co", "obj!")
            if name.endswith("findlinestarts"):
                return []
            if name.endswith("get_instructions_bytes"):
                seen["kw"] = dict(kw)
                seen["args"] = list(args)
                return Sym("gen", "gen", {})
            return NotImplemented
        sp = Spec(F, hooks=[hook2], opaque_funcs={"parse_exception_table"})
        if kind == "call":
            inst = Instance(B)
            inst.attrs.update(opc=opc)
            sp.run(B.lookup(meth), [inst, Sym("x"), FL])
        else:
            inst = sp.call(B, [Sym("x"), opc], {"first_line": FL}, None, {})
            sp.run(B.lookup(meth), [inst])
        a = seen.get("args", [])
        lo = seen.get("kw", {}).get("line_offset", a[7] if len(a) > 7 else None)
        want = "first_line + -1*attr(co, 'co_firstlineno')"
        alt = "-1*attr(co, 'co_firstlineno') + first_line"
        got = show(lo)
        rep.ob("R1", "xdis.bytecode.Bytecode.%s" % meth, "line_offset=first_line-co_firstlineno", got in (want, alt), expected="first_line - co.co_firstlineno", derived=got,
               msg="Bytecode.%s does not pass first_line - co_firstlineno as the line offset" % meth)
        rep.analysed("xdis.bytecode.Bytecode.%s" % meth)
    # (d) std.get_instructions(x, first_line): specialised on the folded default API object, inlined through its Bytecode class down to the decoder call
    F.load("xdis.std")
    std_mod = F.modules.get("xdis.std")
    api_obj = std_mod.ns.get("_std_api") if std_mod else None
    A_ = std_mod.ns.get("_StdApi") if std_mod else None
    gi = A_.lookup("get_instructions") if isinstance(A_, ClassRef) else None
    if not isinstance(gi, FuncRef) or not isinstance(api_obj, Instance):
        raise AnalysisError("anchor vanished: xdis.std._StdApi.get_instructions / xdis.std._std_api")
    rep.analysed(gi.qualname)
    from ..sve import eval_term

    def cache_filter(ys):
        """[is a CACHE entry yielded?, is another instruction yielded?] for the single yield site ys[0], by evaluating its guards (however they are written)"""
        res = []
        for opn in ("CACHE", "LOAD_CONST"):
            try:
                res.append(all(bool(eval_term(g, {"attr(%s, 'opname')" % show(ys[0].args[0]): opn})) for g in ys[0].guards if not (isinstance(g, Op) and g.op == "in-loop")))
            except Exception as ex:
                res.append("not evaluable: %s" % ex)
        return res

    def std_run(sc):
        seen_ = {}

        def hook3(spec, name, fv, args, kw, node):
            if name.endswith("get_code_object"):
                return Sym("co", "obj!")
            if name.endswith("findlinestarts"):
                return []
            if name.endswith("get_instructions_bytes"):
                seen_["kw"] = dict(kw)
                seen_["args"] = list(args)
                return Sym("gen", "gen", {})
            return NotImplemented
        sp_ = Spec(F, hooks=[hook3], opaque_funcs={"parse_exception_table"})
        sp_.gen_elem_hook = lambda spec, gen, tag: Sym("inst", "obj!")
        kwargs = {"show_caches": sc} if "show_caches" in [a.arg for a in gi.node.args.args] else {}
        out_ = sp_.run(gi, [api_obj, Sym("x"), FL], kwargs)
        return sp_, out_, seen_, kwargs
    sp_d, out_d, seen_d, _ = std_run(False)
    a = seen_d.get("args", [])
    lo = seen_d.get("kw", {}).get("line_offset", a[7] if len(a) > 7 else None)
    try:
        lo_val = eval_term(lo, {repr(FL): 1234, "attr(co, 'co_firstlineno')": 1000}) if lo is not None else None
    except Exception as ex:
        lo_val = "not evaluable: %s" % ex
    rep.ob("R1", "xdis.std._StdApi.get_instructions", "forwards-first_line", lo_val == 234, expected="the decoder's line_offset is first_line - co.co_firstlineno (1234, 1000 -> 234)",
           derived={"line_offset": show(lo)[:80], "evaluated": lo_val},
           msg="xdis.std.get_instructions(x, first_line) does not shift the reported lines by first_line - co_firstlineno")
    # ---------------------------------------------------------------- R2 each API object decodes with its own version's table
    msa_ = std_mod.ns.get("make_std_api")
    if not isinstance(msa_, FuncRef):
        raise AnalysisError("anchor vanished: xdis.std.make_std_api")
    for v_ in ((2, 7), (3, 8), (3, 11), (3, 13)):
        try:
            api_v = F.apply(msa_, [v_], {})
        except (PyExc, FoldError) as ex:
            rep.ob("R2", "xdis.std.make_std_api", "api-object@%d.%d" % v_, False, expected="an API object", derived="raises %s" % ex)
            continue
        tbl_v = api_v.attrs.get("opc") if isinstance(api_v, Instance) else None
        ok_t = isinstance(tbl_v, ModuleNS) and tuple(tbl_v.ns.get("version_tuple", ())[:2]) == v_
        rep.ob("R2", "xdis.std._StdApi.__init__", "api-table@%d.%d" % v_, ok_t, expected="the opcode table of %d.%d" % v_, derived=getattr(tbl_v, "name", show(tbl_v)),
               msg="make_std_api(%r).opc is not that version's opcode table" % (v_,))
        if not ok_t:
            continue
        for entry in ("get_instructions", "Bytecode-iteration"):
            seen_ = {}

            def hook_v(spec, name, fv, args, kw, node, seen_=seen_):
                if name.endswith("get_code_object"):
                    return Sym("co", "obj!")
                if name.endswith("findlinestarts"):
                    return []
                if name.endswith("get_instructions_bytes"):
                    seen_["args"] = list(args)
                    seen_["kw"] = dict(kw)
                    return Sym("gen", "gen", {})
                return NotImplemented
            sp_v = Spec(F, hooks=[hook_v], opaque_funcs={"parse_exception_table"})
            sp_v.gen_elem_hook = lambda spec, gen, tag: Sym("inst", "obj!")
            try:
                if entry == "get_instructions":
                    sp_v.run(A_.lookup("get_instructions"), [api_v, Sym("x")], {})
                else:
                    Bc = api_v.attrs.get("Bytecode")
                    inst_b = sp_v.call(Bc, [Sym("x")], {}, None, {})
                    it_f = Bc.lookup("__iter__") if isinstance(Bc, ClassRef) else None
                    sp_v.run(it_f, [inst_b])
            except Exception as ex:
                seen_["err"] = "not evaluable: %s" % ex
            a_ = seen_.get("args", [])
            used = seen_.get("kw", {}).get("opc", a_[1] if len(a_) > 1 else None)
            rep.ob("R2", "xdis.std._StdApi.%s" % ("get_instructions" if entry == "get_instructions" else "__init__.Bytecode.__iter__"), "%s-decodes-with-api-table@%d.%d" % (entry, v_[0], v_[1]),
                   used is tbl_v, expected=tbl_v.name, derived=seen_.get("err") or getattr(used, "name", show(used)),
                   msg="make_std_api(%r): %s hands the decoder %s instead of this API's own table: instructions are decoded with another version's opcodes" % (
                       v_, entry, getattr(used, "name", show(used))))
    # ---------------------------------------------------------------- R3 decided on the folded module: what the names are bound to after `import xdis.std`
    from ..fold import BoundMethod
    ns_std = std_mod.ns
    rep.ob("R3", "xdis.std", "default-api", isinstance(api_obj, Instance) and api_obj.cls is A_, expected="a module-level API object made by make_std_api()", derived=show(api_obj)[:60])
    tbl0 = api_obj.attrs.get("opc")

    def member(obj, nm):
        if nm in obj.attrs:
            return obj.attrs[nm]
        m_ = obj.cls.lookup(nm)
        return BoundMethod(m_, obj) if isinstance(m_, FuncRef) else m_

    def same_binding(a_, b_):
        if isinstance(a_, BoundMethod) and isinstance(b_, BoundMethod):
            return a_.func is b_.func and a_.self is b_.self
        return a_ is b_ or (not isinstance(a_, (BoundMethod, FuncRef, ClassRef, Instance)) and type(a_) is type(b_) and a_ == b_)
    for nm in STD_NAMES:
        v = ns_std.get(nm)
        w = member(api_obj, nm)
        rep.ob("R3", "xdis.std", "module-level:%s" % nm, v is not None and w is not None and same_binding(v, w), expected="the default API object's %s" % nm,
               derived=show(v)[:60] if v is not None else None, msg="xdis.std.%s is not the default API's %s" % (nm, nm))
    # every public name of the host's dis module exists in xdis.std (any binding; the ones above are checked for *what* they are bound to)
    disall = ref_json("dis_all.json")["hosts"]
    for hk, names in sorted(disall.items(), key=lambda kv: tuple(int(x) for x in kv[0].split("."))):
        for nm in names:
            rep.ob("R3", "xdis.std", "dis.__all__:%s@host%s" % (nm, hk), nm in ns_std, expected="xdis.std.%s exists (dis %s has it)" % (nm, hk), derived="bound" if nm in ns_std else "missing",
                   msg="`from xdis.std import %s` fails although the dis module of Python %s exports %s" % (nm, hk, nm))
    # the API object's table fields are its own opcode table's (checked on the default API and on one for another version)
    for label, obj in (("default", api_obj), ("2.7", F.apply(msa_, [(2, 7)], {}))):
        tb = obj.attrs.get("opc") if isinstance(obj, Instance) else None
        for nm in TABLE_FIELDS:
            got_ = obj.attrs.get(nm) if isinstance(obj, Instance) else None
            want_ = tb.ns.get(nm) if isinstance(tb, ModuleNS) else None
            rep.ob("R3", "xdis.std._StdApi.__init__", "member:%s@%s" % (nm, label), want_ is not None and (got_ is want_ or got_ == want_), expected="opc.%s" % nm,
                   derived=show(got_)[:60], msg="make_std_api(...).%s is not the %s of that API's opcode table" % (nm, nm))
    # findlabels / findlinestarts delegate to the table's bound finders with the caller's code (and the table itself for findlabels)
    for nm in ("findlabels", "findlinestarts"):
        called = []

        def hook_f(spec, name, fv, args, kw, node, nm=nm, called=called):
            if name.split(".")[-1] == nm or name.endswith("." + nm):
                called.append((name, [show(a_)[:40] for a_ in args]))
                return Sym("result", "list")
            return NotImplemented
        meth = A_.lookup(nm)
        sp_f = Spec(F, hooks=[hook_f])
        code_s = Sym("code", "obj!")
        out_f = sp_f.run(meth, [api_obj, code_s])
        rets_f = [show(l.value) for g, l in leaves(out_f) if isinstance(l, Ret)]
        finder = tbl0.ns.get(nm) if isinstance(tbl0, ModuleNS) else None
        okf = len(called) == 1 and rets_f == ["result"] and called[0][1][:1] == ["code"] and (nm != "findlabels" or called[0][1][1:2] == [show(tbl0)[:40]]) \
            and isinstance(finder, FuncRef) and called[0][0] == finder.qualname
        rep.ob("R3", "xdis.std._StdApi.%s" % nm, "delegates-to-table", okf, expected="the table's own %s, given the caller's code%s" % (nm, " and the table" if nm == "findlabels" else ""),
               derived=[called[:2], rets_f[:2]])
    # ---------------------------------------------------------------- R4
    ref = ref_json("codetype.json")["hosts"]
    m_, fn_ = repo.function("xdis.cross_dis.get_code_object")
    rep.analysed("xdis.cross_dis.get_code_object")
    # the order in which get_code_object consults its argument, observed on the specialised function (an if-chain, a loop over a table of names and a
    # dispatch dict all give the same sequence): every probe answers "no", so the whole sequence is visited
    gco = F.modules["xdis.cross_dis"].ns.get("get_code_object")
    if not isinstance(gco, FuncRef):
        raise AnalysisError("anchor vanished: xdis.cross_dis.get_code_object")
    xo = Sym("x", "obj")

    def probe_run(yes):
        seq = []

        def hookp(spec, name, fv, args, kw, node):
            if name == "hasattr" and len(args) == 2 and isinstance(args[1], str) and (args[0] is xo or (isinstance(args[0], Op) and args[0].op == "attr")):
                seq.append(["hasattr", args[1]])
                return args[1] in yes and args[0] is xo or (args[1] == "co_code" and "co_code" in yes)
            if name == "isinstance" and len(args) == 2 and (args[0] is xo or isinstance(args[0], Op)):
                t_ = args[1]
                seq.append(["isinstance", getattr(t_, "__name__", show(t_))])
                return False
            return NotImplemented
        spp = Spec(F, hooks=[hookp])
        outp = spp.run(gco, [xo])
        rets_ = [l.value for g, l in leaves(outp) if isinstance(l, Ret)]
        return seq, rets_
    seq0, _ = probe_run(set())
    mine = [p_ for p_ in seq0 if p_[1] != "func_code"]
    for host, rec in sorted(ref.items()):
        rep.ob("R4", "xdis.cross_dis.get_code_object", "probes@host%s" % host, mine == rec["get_code_object_probes"], expected=rec["get_code_object_probes"], derived=mine,
               msg="objects accepted by dis on host %s are coerced differently" % host)
    # a probe that answers "yes" leads to that attribute of the object (and the result is what carries co_code)
    for kind_, nm_ in mine:
        if kind_ != "hasattr" or nm_ in ("co_code", "__func__"):
            continue
        _, rets_ = probe_run({nm_, "co_code"})
        got_ = [show(r_) for r_ in rets_]
        rep.ob("R4", "xdis.cross_dis.get_code_object", "probe:%s-reads-its-attribute" % nm_, got_ == ["attr(x, '%s')" % nm_], expected="x.%s" % nm_, derived=got_,
               msg="an object with %s is not coerced to its %s" % (nm_, nm_))
    # ---------------------------------------------------------------- R5
    F.load("xdis.std")
    msa = F.modules["xdis.std"].ns.get("make_std_api")
    gom = F.modules["xdis.op_imports"].ns.get("get_opcode_module")
    floats = sorted(k for k in T.op_imports if isinstance(k, float))
    rep.floor("float version keys", len(floats), 20)
    for v in floats:
        want = (int(str(v).split(".")[0]), int(str(v).split(".")[1]))
        # make_std_api: fold only the conversion prefix
        major = int(v)
        try:
            mod = F.apply(gom, [v, None], {})
            got = tuple(mod.ns["version_tuple"][:2]) if isinstance(mod, ModuleNS) else repr(mod)
        except (PyExc, FoldError) as e:
            got = "raises %s" % e
        rep.ob("R5", "xdis.op_imports.get_opcode_module", "float=%s" % v, got == want, expected=list(want), derived=got,
               msg="get_opcode_module(%r) selects the table of %r" % (v, got))
    # make_std_api's own float conversion: the version it constructs the API object with
    for v in floats:
        got_v = []

        def hook5(spec, name, fv, args, kw, node, got_v=got_v):
            if name.endswith("._StdApi"):
                got_v.append(kw.get("python_version", args[0] if args else None))
                return Sym("api", "obj!")
            return NotImplemented
        sp5 = Spec(F, hooks=[hook5])
        try:
            sp5.run(msa, [v], {})
        except Exception as ex:
            got_v.append("not evaluable: %s" % ex)
        want = (int(str(v).split(".")[0]), int(str(v).split(".")[1]))
        g0 = got_v[0] if got_v else None
        rep.ob("R5", "xdis.std.make_std_api", "float=%s" % v, isinstance(g0, (tuple, list)) and tuple(g0) == want, expected=list(want), derived=show(g0) if not isinstance(g0, (tuple, list)) else list(g0))
    # ---------------------------------------------------------------- R7 inline CACHE entries are hidden by default, as in dis (show_caches=False)
    for sc, want in ((False, ["NotEq(attr(%s, 'opname'), 'CACHE')"]), (True, [])):
        sp, out_, seen_, kwargs = std_run(sc)
        ys = [e for k, e in flatten_effects(sp.effects) if k == "yield"]
        srcs = [e for k, e in flatten_effects(sp.effects) if k == "loop-begin"]
        got = None
        okc = False
        if len(ys) == 1 and len(srcs) >= 1:
            got = cache_filter(ys)
            okc = got == [bool(sc), True] and show(ys[0].args[0]) == "inst" and any(show(s_.args[3].cond) == "iter-more(gen)" for s_ in srcs) and "args" in seen_
        elif not ys:
            got = "returns the underlying iterator unfiltered"
        if sc is False or kwargs:
            rep.ob("R7", gi.qualname, "cache-entries:show_caches=%s" % sc, okc, expected="yields every instruction the decoder produces%s" % (" except CACHE" if not sc else ""),
                   derived=got, msg="dis.get_instructions(x) leaves out the inline CACHE entries of 3.11+ code unless show_caches=True; xdis.std.get_instructions %s" % (
                       "yields them" if not sc else "does not yield them on request"))
    # iteration over xdis.std.Bytecode(x[, show_caches=...]) and the dup_lines value it asks the line-start finder for: the class of the default API object is
    # instantiated on a symbolic x and its __iter__ specialised
    Bc0 = api_obj.attrs.get("Bytecode")
    if not isinstance(Bc0, ClassRef):
        raise AnalysisError("anchor vanished: the default API object's Bytecode class")
    dl_seen = []
    for sc, want in ((False, ["NotEq(attr(%s, 'opname'), 'CACHE')"]), (True, [])):
        def hook_b(spec, name, fv, args, kw, node):
            if name.endswith("get_code_object"):
                return Sym("co", "obj!")
            if name.endswith("findlinestarts"):
                dl_seen.append(kw.get("dup_lines", args[1] if len(args) > 1 else "<not passed: the finder's default>"))
                return []
            if name.endswith("get_instructions_bytes"):
                return Sym("gen", "gen", {})
            return NotImplemented
        sp_b = Spec(F, hooks=[hook_b], opaque_funcs={"parse_exception_table"})
        sp_b.gen_elem_hook = lambda spec, gen, tag: Sym("inst", "obj!")
        got_b, ok_b = None, False
        try:
            inst_b = sp_b.call(Bc0, [Sym("x")], {"show_caches": sc} if sc else {}, None, {})
            mark_ = len(sp_b.effects)
            sp_b.run(Bc0.lookup("__iter__"), [inst_b])
            ys = [e for k, e in flatten_effects(sp_b.effects[mark_:]) if k == "yield"]
            if len(ys) == 1:
                got_b = cache_filter(ys)
                ok_b = got_b == [bool(sc), True] and show(ys[0].args[0]) == "inst"
            else:
                got_b = "%d yield sites" % len(ys)
        except Exception as ex:
            got_b = "not evaluable: %s" % ex
        rep.ob("R7", "xdis.std._StdApi.__init__.Bytecode.__iter__", "cache-entries-hidden-by-default" if not sc else "cache-entries-shown-on-request", ok_b,
               expected="iteration yields every decoded instruction%s" % (" except CACHE" if not sc else ""), derived=got_b,
               msg="iterating dis.Bytecode(x) leaves out the inline CACHE entries of 3.11+ code unless show_caches=True")
    # ---------------------------------------------------------------- R6 the shared decoder and line-start machinery
    from ..report import SubReport, merge_sub
    from . import c05, dis_rules
    if not getattr(rep, "plumbing_only", False):  # (C02 restates this module's plumbing rules and has the decoder rules itself)
        dis_rules.restate_decoder(rep, T, "R6", tier)
        sub = SubReport("C05", tier=tier)
        c05.run(sub, tier)
        # C05-R7 is about the default of xdis.bytecode.Bytecode; xdis.std's own Bytecode class chooses the value itself (R8 below)
        merge_sub(rep, sub, "R6", "C05", only_rules=tuple(r for r in ("R1", "R2", "R3", "R4", "R5", "R6")))
        # R9: a second question gets the first one's answer only if nothing is kept in between (C18's audit, for everything the std API runs)
        from . import c18
        sub18 = SubReport("C18", tier=tier)
        c18.run(sub18, tier)
        merge_sub(rep, sub18, "R9", "C18", only_rules=("R1", "R3", "R4"),
                  only_constructs=lambda c_: c_.startswith(("xdis.std.", "xdis.bytecode.", "xdis.wordcode.", "xdis.cross_dis.", "xdis.instruction.", "xdis.opcodes.", "xdis.op_imports.")))
    # ---------------------------------------------------------------- R8 xdis.std.Bytecode asks for dis's line semantics
    dl = dl_seen[0] if dl_seen else "<findlinestarts not called>"
    rep.ob("R8", "xdis.std._StdApi.__init__.Bytecode.__init__", "dup_lines=False", dl is False, expected="the line-start finder is asked for dup_lines=False", derived=show(dl),
           msg="xdis.std.Bytecode builds its line starts with dup_lines=%s: instructions that begin a new lnotab entry on the same line get a starts_line that dis does not report" % show(dl))
    rep.assumptions = ["reference/codetype.json (dis._get_code_object of hosts 3.8-3.13)", "instruction fields, labels, line starts and stack effects are C02-C05, C15",
                       "equality of returned data with the host's dis is not evaluated; only the plumbing is decided"]
