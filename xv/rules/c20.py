"""C20 -- xdis.std is a faithful drop-in for the host's dis module (DESIGN.md section 4, C20).

Instruction fields themselves are decided by C02-C05; here: the plumbing of xdis.std.
 R1 first_line reaches starts_line: def-use chain first_line -> line offset -> get_instructions_bytes -> decoder -> starts_line
 R2 the Bytecode class nested in _StdApi.__init__ uses the instance's opcode table, not the module-level default API
 R3 module-level opmap/opname/... are the same-named members of the default API, and those are the same-named table fields
 R4 get_code_object probes the same attributes, in the same order, as dis._get_code_object of every host
 R5 make_std_api / get_opcode_module turn a float version into the right tuple for 1.0 ... 3.9"""
import ast
import symtable

from ..disasm_sum import CODE, MARK, ByteHook
from ..fold import ClassRef, FoldError, FuncRef, Instance, ModuleNS, PyExc
from ..report import AnalysisError
from ..repo import get_repo
from ..sve import (Lin, Op, Spec, Sym, flatten_effects, show)
from ..tables import ref_json, tables

STD_NAMES = ["hasconst", "hasname", "opmap", "opname", "EXTENDED_ARG", "HAVE_ARGUMENT", "Bytecode", "Instruction", "findlabels", "findlinestarts",
             "get_instructions", "code_info", "show_code", "dis", "distb", "disassemble", "disco", "pretty_flags",
             "cmp_op", "hasjrel", "hasjabs", "haslocal", "hascompare", "hasfree", "hasnargs", "stack_effect"]
TABLE_FIELDS = ["hasconst", "hasname", "opmap", "opname", "EXTENDED_ARG", "HAVE_ARGUMENT", "cmp_op", "hasjrel", "hasjabs", "haslocal", "hascompare", "hasfree", "hasnargs"]


def run(rep, tier):
    rep.explanation = ("def-use chains through xdis.std / Bytecode / get_instructions_bytes / the decoder by specialisation with symbolic first_line and "
                       "line offset; scope resolution (symtable) of the nested Bytecode class; AST comparison of the module-level bindings and of the "
                       "object-coercion probe list with dis._get_code_object; constant folding of the float-version conversions")
    rep.rule("R1", "the first_line argument shifts every reported starts_line: first_line -> (first_line - co_firstlineno) -> line_offset parameter of "
                   "get_instructions_bytes -> line_offset of the decoder -> starts_line = linestarts[offset] + line_offset, with no link dropping it")
    rep.rule("R2", "inside _StdApi.__init__ the nested Bytecode falls back to the API instance's own opcode table (a variable of that __init__), not to the module-level default API")
    rep.rule("R3", "xdis.std's module-level names are the same-named members of the default API object and those are the same-named fields of its opcode table / bound finders")
    rep.rule("R4", "get_code_object probes __func__, __code__, gi_code, ag_code, cr_code, str (compile), co_code in dis._get_code_object's order")
    rep.rule("R5", "float version numbers 1.0 ... 3.9 convert to the right (major, minor)")
    rep.rule("R8", "xdis.std.Bytecode constructs its base class with dup_lines=False (dis reports a line only where it changes)")
    rep.rule("R7", "like dis, xdis.std.get_instructions and iteration over xdis.std.Bytecode leave out the inline CACHE entries of 3.11+ code unless show_caches is given")
    rep.rule("R6", "what the API returns is what the shared machinery computes: for every opcode table make_std_api can select, the decoder (C02 widths/operands, "
                   "C03 operand values, C04 targets and labels) and the line-start finders (C05 rules) agree with Lib/dis.py of that version")
    T = tables()
    F = T.F
    repo = get_repo()
    bc = F.modules["xdis.bytecode"]
    # ---------------------------------------------------------------- R1
    LO = Sym("LO", "int")
    # (a) decoder: starts_line = linestarts.get(i) + line_offset
    f = bc.ns.get("get_logical_instruction_at_offset")
    opc = T.table_for_version("3.8")
    bh = ByteHook(opc.ns["opmap"]["POP_TOP"])
    sp = Spec(F, hooks=[bh], opaque_funcs={"format_CALL_FUNCTION", "format_CALL_FUNCTION_EX"})
    sp.byte_hook = bh.index
    ls_ = Sym("linestarts", "dict")
    sp.run(f, [], dict(bytecode=CODE, offset=Sym("offset0", "int"), opc=opc, varnames=MARK["varnames"], names=MARK["names"], constants=MARK["constants"],
                       cells=MARK["cells"], linestarts=ls_, line_offset=LO, exception_entries=None, labels=Sym("labels", "list")))
    ys = [e for k, e in flatten_effects(sp.effects) if k == "yield"]
    sl = dict(ys[0].args[0].args[1]).get("starts_line") if ys and isinstance(ys[0].args[0], Op) else None
    s = show(sl)
    ok = "LO" in s and "linestarts" in s
    rep.ob("R1", "xdis.bytecode.get_logical_instruction_at_offset", "starts_line=linestarts[offset]+line_offset", ok, expected="linestarts.get(offset) + line_offset when a line starts here",
           derived=s[:200], msg="the decoder does not add its line_offset parameter to starts_line")
    rep.analysed(f.qualname)
    # (b) get_instructions_bytes passes its line_offset on
    g = bc.ns.get("get_instructions_bytes")
    seen = {}

    def hook(spec, name, fv, args, kw, node):
        if name.endswith("findlabels"):
            return Sym("labels", "list")
        if name.endswith("get_logical_instruction_at_offset"):
            seen["kw"] = dict(kw)
            seen["args"] = list(args)
            return Sym("gen", "gen", {})
        return NotImplemented
    sp = Spec(F, hooks=[hook])
    sp.run(g, [Sym("code", "bytes"), opc], dict(linestarts=ls_, line_offset=LO))
    passed = seen.get("kw", {}).get("line_offset", seen.get("args", [None] * 9)[8] if len(seen.get("args", [])) > 8 else "<not passed>")
    rep.ob("R1", "xdis.bytecode.get_instructions_bytes", "passes-line_offset", repr(passed) == repr(LO), expected="line_offset=line_offset", derived=show(passed),
           msg="get_instructions_bytes does not hand its line_offset parameter to the decoder: first_line has no effect on starts_line")
    lsp = seen.get("kw", {}).get("linestarts")
    rep.ob("R1", "xdis.bytecode.get_instructions_bytes", "passes-linestarts", repr(lsp) == repr(ls_), expected="linestarts=linestarts", derived=show(lsp))
    rep.analysed(g.qualname)
    # (c) Bytecode.get_instructions and Bytecode.__init__/__iter__ compute first_line - co_firstlineno and pass it
    B = bc.ns.get("Bytecode")
    FL = Sym("first_line", "int")
    for meth, kind in (("get_instructions", "call"), ("__iter__", "init")):
        seen.clear()

        def hook2(spec, name, fv, args, kw, node):
            if name.endswith("get_code_object"):
                return Sym("co", "obj!")
            if name.endswith("findlinestarts"):
                return []
            if name.endswith("get_instructions_bytes"):
                seen["kw"] = dict(kw)
                seen["args"] = list(args)
                return Sym("gen", "gen", {})
            return NotImplemented
        sp = Spec(F, hooks=[hook2], opaque_funcs={"parse_exception_table"})
        if kind == "call":
            inst = Instance(B)
            inst.attrs.update(opc=opc)
            sp.run(B.lookup(meth), [inst, Sym("x"), FL])
        else:
            inst = sp.call(B, [Sym("x"), opc], {"first_line": FL}, None, {})
            sp.run(B.lookup(meth), [inst])
        a = seen.get("args", [])
        lo = seen.get("kw", {}).get("line_offset", a[7] if len(a) > 7 else None)
        want = "first_line + -1*attr(co, 'co_firstlineno')"
        alt = "-1*attr(co, 'co_firstlineno') + first_line"
        got = show(lo)
        rep.ob("R1", "xdis.bytecode.Bytecode.%s" % meth, "line_offset=first_line-co_firstlineno", got in (want, alt), expected="first_line - co.co_firstlineno", derived=got,
               msg="Bytecode.%s does not pass first_line - co_firstlineno as the line offset" % meth)
        rep.analysed("xdis.bytecode.Bytecode.%s" % meth)
    # (d) std.get_instructions(x, first_line): specialised on the folded default API object, inlined through its Bytecode class down to the decoder call
    F.load("xdis.std")
    std_mod = F.modules.get("xdis.std")
    api_obj = std_mod.ns.get("_std_api") if std_mod else None
    A_ = std_mod.ns.get("_StdApi") if std_mod else None
    gi = A_.lookup("get_instructions") if isinstance(A_, ClassRef) else None
    if not isinstance(gi, FuncRef) or not isinstance(api_obj, Instance):
        raise AnalysisError("anchor vanished: xdis.std._StdApi.get_instructions / xdis.std._std_api")
    rep.analysed(gi.qualname)
    from ..sve import eval_term

    def std_run(sc):
        seen_ = {}

        def hook3(spec, name, fv, args, kw, node):
            if name.endswith("get_code_object"):
                return Sym("co", "obj!")
            if name.endswith("findlinestarts"):
                return []
            if name.endswith("get_instructions_bytes"):
                seen_["kw"] = dict(kw)
                seen_["args"] = list(args)
                return Sym("gen", "gen", {})
            return NotImplemented
        sp_ = Spec(F, hooks=[hook3], opaque_funcs={"parse_exception_table"})
        sp_.gen_elem_hook = lambda spec, gen, tag: Sym("inst", "obj!")
        kwargs = {"show_caches": sc} if "show_caches" in [a.arg for a in gi.node.args.args] else {}
        out_ = sp_.run(gi, [api_obj, Sym("x"), FL], kwargs)
        return sp_, out_, seen_, kwargs
    sp_d, out_d, seen_d, _ = std_run(False)
    a = seen_d.get("args", [])
    lo = seen_d.get("kw", {}).get("line_offset", a[7] if len(a) > 7 else None)
    try:
        lo_val = eval_term(lo, {repr(FL): 1234, "attr(co, 'co_firstlineno')": 1000}) if lo is not None else None
    except Exception as ex:
        lo_val = "not evaluable: %s" % ex
    rep.ob("R1", "xdis.std._StdApi.get_instructions", "forwards-first_line", lo_val == 234, expected="the decoder's line_offset is first_line - co.co_firstlineno (1234, 1000 -> 234)",
           derived={"line_offset": show(lo)[:80], "evaluated": lo_val},
           msg="xdis.std.get_instructions(x, first_line) does not shift the reported lines by first_line - co_firstlineno")
    # ---------------------------------------------------------------- R2
    sm = repo.module("xdis.std")
    m, init = repo.function("xdis.std._StdApi.__init__")
    nested = [n for n in ast.walk(init) if isinstance(n, ast.ClassDef) and n.name == "Bytecode"]
    if not nested:
        # the class handed out as self.Bytecode is not created per API object: one class object (and whatever table it reads) serves every API
        bound = [ast.unparse(n.value) for n in ast.walk(init) if isinstance(n, ast.Assign) and any(ast.unparse(t) == "self.Bytecode" for t in n.targets)]
        if not bound:
            raise AnalysisError("anchor vanished: self.Bytecode is not assigned in _StdApi.__init__")
        rep.ob("R2", "xdis.std._StdApi.__init__", "per-instance-Bytecode-class", False, expected="a Bytecode class created inside __init__ that closes over this API's opcode table",
               derived="self.Bytecode = %s (not defined in __init__)" % bound[0],
               msg="every API object shares the class %s: the opcode table it falls back to is common to all of them, so make_std_api(v) objects answer with one another's tables" % bound[0])
        nested = None
    ninit_src = nested[0].body if nested else []
    ninit = [n for n in ninit_src if isinstance(n, ast.FunctionDef) and n.name == "__init__"]
    fallback = None
    if ninit:
        for n in ast.walk(ninit[0]):
            if isinstance(n, ast.If) and "opc is None" in ast.unparse(n.test):
                for s_ in n.body:
                    if isinstance(s_, ast.Assign) and any(isinstance(t, ast.Name) and t.id == "opc" for t in s_.targets):
                        fallback = s_.value
    if fallback is None and nested:
        # no fallback: opc must be passed explicitly by every caller in the module -- treated as vanished
        raise AnalysisError("anchor vanished: `if opc is None: opc = ...` in the nested Bytecode.__init__")
    # scope of the names in the fallback expression
    st = symtable.symtable(sm.src, "xdis/std.py", "exec")

    def find(tab, path):
        if not path:
            return tab
        for c in tab.get_children():
            if c.get_name() == path[0]:
                r = find(c, path[1:])
                if r is not None:
                    return r
        return None
    tab = find(st, ["_StdApi", "__init__", "Bytecode", "__init__"]) if nested else None
    names = [n.id for n in ast.walk(fallback) if isinstance(n, ast.Name)] if fallback is not None else []
    kinds = {}
    for nm in names:
        try:
            sy = tab.lookup(nm)
            kinds[nm] = "free" if sy.is_free() else ("global" if sy.is_global() else ("local" if sy.is_local() else "?"))
        except KeyError:
            kinds[nm] = "?"
    ok = bool(names) and all(k in ("free", "local") for k in kinds.values())
    if nested:
        rep.ob("R2", "xdis.std._StdApi.__init__.Bytecode.__init__", "fallback-opc-is-the-instance-table", ok, expected="a variable of the enclosing _StdApi.__init__ (this API's table)",
           derived={"expr": ast.unparse(fallback), "name scopes": kinds}, where=repo.where(sm, fallback),
           msg="the nested Bytecode falls back to %s, a module-level object: make_std_api(v).Bytecode/get_instructions use the *default* API's opcode table" % ast.unparse(fallback))
    if ok:
        # and that variable is the table chosen for this instance
        assigns = [n for n in ast.walk(init) if isinstance(n, ast.Assign) and any(isinstance(t, ast.Name) and t.id in names for t in n.targets)]
        src = " ".join(ast.unparse(a.value) for a in assigns)
        rep.ob("R2", "xdis.std._StdApi.__init__", "instance-table-from-get_opcode_module", "get_opcode_module(python_version, variant)" in src,
               expected="get_opcode_module(python_version, variant)", derived=src[:120])
    # ---------------------------------------------------------------- R3
    top = {}
    for s_ in sm.tree.body:
        if isinstance(s_, ast.Assign) and len(s_.targets) == 1 and isinstance(s_.targets[0], ast.Name):
            top[s_.targets[0].id] = s_.value
    api_var = None
    for k, v in top.items():
        if isinstance(v, ast.Call) and ast.unparse(v.func) == "make_std_api" and not v.args and not v.keywords:
            api_var = k
    rep.ob("R3", "xdis.std", "default-api", api_var is not None, expected="<name> = make_std_api()", derived=api_var)
    for nm in STD_NAMES:
        v = top.get(nm)
        ok = v is not None and ast.unparse(v) == "%s.%s" % (api_var, nm)
        rep.ob("R3", "xdis.std", "module-level:%s" % nm, ok, expected="%s.%s" % (api_var, nm), derived=ast.unparse(v) if v is not None else None,
               msg="xdis.std.%s is not the default API's %s" % (nm, nm))
    # every public name of the host's dis module exists in xdis.std (any binding; the ones above are checked for *what* they are bound to)
    disall = ref_json("dis_all.json")["hosts"]
    bound = set(top)
    for s_ in sm.tree.body:
        if isinstance(s_, (ast.FunctionDef, ast.ClassDef)):
            bound.add(s_.name)
        elif isinstance(s_, (ast.Import, ast.ImportFrom)):
            bound.update((a.asname or a.name).split(".")[0] for a in s_.names)
    for hk, names in sorted(disall.items(), key=lambda kv: tuple(int(x) for x in kv[0].split("."))):
        for nm in names:
            rep.ob("R3", "xdis.std", "dis.__all__:%s@host%s" % (nm, hk), nm in bound, expected="xdis.std.%s exists (dis %s has it)" % (nm, hk), derived="bound" if nm in bound else "missing",
                   msg="`from xdis.std import %s` fails although the dis module of Python %s exports %s" % (nm, hk, nm))
    selfassign = {}
    for n in ast.walk(init):
        if isinstance(n, ast.Assign):
            for t in n.targets:
                if isinstance(t, ast.Attribute) and isinstance(t.value, ast.Name) and t.value.id == "self":
                    selfassign[t.attr] = ast.unparse(n.value)
    for nm in TABLE_FIELDS:
        rep.ob("R3", "xdis.std._StdApi.__init__", "member:%s" % nm, selfassign.get(nm) == "opc.%s" % nm, expected="opc.%s" % nm, derived=selfassign.get(nm))
    for nm, want in (("findlabels", "self.opc.findlabels(code, self.opc)"), ("findlinestarts", "self.opc.findlinestarts(code)")):
        m_, fn_ = repo.function("xdis.std._StdApi.%s" % nm)
        ret = [ast.unparse(n.value) for n in ast.walk(fn_) if isinstance(n, ast.Return) and n.value is not None]
        rep.ob("R3", "xdis.std._StdApi.%s" % nm, "delegates-to-table", ret == [want], expected=want, derived=ret)
    # ---------------------------------------------------------------- R4
    ref = ref_json("codetype.json")["hosts"]
    m_, fn_ = repo.function("xdis.cross_dis.get_code_object")
    rep.analysed("xdis.cross_dis.get_code_object")
    probes = []
    for n in ast.walk(fn_):
        if isinstance(n, ast.Call) and isinstance(n.func, ast.Name) and n.func.id == "hasattr" and len(n.args) == 2 and isinstance(n.args[1], ast.Constant):
            probes.append(("hasattr", n.args[1].value, n.lineno, n.col_offset))
        if isinstance(n, ast.Call) and isinstance(n.func, ast.Name) and n.func.id == "isinstance" and len(n.args) == 2 and isinstance(n.args[1], ast.Name):
            probes.append(("isinstance", n.args[1].id, n.lineno, n.col_offset))
    probes.sort(key=lambda t: (t[2], t[3]))
    mine = [[a, b] for a, b, c, d in probes if b != "func_code"]
    for host, rec in sorted(ref.items()):
        rep.ob("R4", "xdis.cross_dis.get_code_object", "probes@host%s" % host, mine == rec["get_code_object_probes"], expected=rec["get_code_object_probes"], derived=mine,
               msg="objects accepted by dis on host %s are coerced differently" % host)
    # ---------------------------------------------------------------- R5
    F.load("xdis.std")
    msa = F.modules["xdis.std"].ns.get("make_std_api")
    gom = F.modules["xdis.op_imports"].ns.get("get_opcode_module")
    floats = sorted(k for k in T.op_imports if isinstance(k, float))
    rep.floor("float version keys", len(floats), 20)
    for v in floats:
        want = (int(str(v).split(".")[0]), int(str(v).split(".")[1]))
        # make_std_api: fold only the conversion prefix
        major = int(v)
        try:
            mod = F.apply(gom, [v, None], {})
            got = tuple(mod.ns["version_tuple"][:2]) if isinstance(mod, ModuleNS) else repr(mod)
        except (PyExc, FoldError) as e:
            got = "raises %s" % e
        rep.ob("R5", "xdis.op_imports.get_opcode_module", "float=%s" % v, got == want, expected=list(want), derived=got,
               msg="get_opcode_module(%r) selects the table of %r" % (v, got))
    # make_std_api's own float folding, as written
    m_, fn_ = repo.function("xdis.std.make_std_api")
    conv = [n for n in ast.walk(fn_) if isinstance(n, ast.If) and "float" in ast.unparse(n.test)]
    if conv:
        from ..fold import Folder
        for v in floats:
            env = {"python_version": v, "__closure__": None}
            try:
                F.exec_block(conv[0].body, F.modules["xdis.std"].ns, F.modules["xdis.std"], env)
                got = env.get("python_version")
            except (PyExc, FoldError) as e:
                got = "raises %s" % e
            want = (int(str(v).split(".")[0]), int(str(v).split(".")[1]))
            rep.ob("R5", "xdis.std.make_std_api", "float=%s" % v, tuple(got) == want if isinstance(got, (tuple, list)) else False, expected=list(want), derived=got)
    else:
        rep.ob("R5", "xdis.std.make_std_api", "float-branch", False, expected="isinstance(python_version, float) conversion", derived="not found")
    # ---------------------------------------------------------------- R7 inline CACHE entries are hidden by default, as in dis (show_caches=False)
    for sc, want in ((False, ["NotEq(attr(%s, 'opname'), 'CACHE')"]), (True, [])):
        sp, out_, seen_, kwargs = std_run(sc)
        ys = [e for k, e in flatten_effects(sp.effects) if k == "yield"]
        srcs = [e for k, e in flatten_effects(sp.effects) if k == "loop-begin"]
        got = None
        okc = False
        if len(ys) == 1 and len(srcs) >= 1:
            elem = show(ys[0].args[0])
            got = [show(g) for g in ys[0].guards if not (isinstance(g, Op) and g.op == "in-loop")]
            okc = got == [w % elem for w in want] and any(show(s_.args[3].cond) == "iter-more(gen)" for s_ in srcs) and "args" in seen_
        elif not ys:
            got = "returns the underlying iterator unfiltered"
        if sc is False or kwargs:
            rep.ob("R7", gi.qualname, "cache-entries:show_caches=%s" % sc, okc, expected="yields every instruction the decoder produces%s" % (" except CACHE" if not sc else ""),
                   derived=got, msg="dis.get_instructions(x) leaves out the inline CACHE entries of 3.11+ code unless show_caches=True; xdis.std.get_instructions %s" % (
                       "yields them" if not sc else "does not yield them on request"))
    m_std, init_std = repo.function("xdis.std._StdApi.__init__")
    ncls = [n for n in ast.walk(init_std) if isinstance(n, ast.ClassDef) and n.name == "Bytecode"]
    it_ = [n for c in ncls for n in c.body if isinstance(n, ast.FunctionDef) and n.name == "__iter__"]
    filt = False
    for fn_ in it_:
        for c in ast.walk(fn_):
            if isinstance(c, ast.Compare) and any(isinstance(x, ast.Constant) and x.value == "CACHE" for x in ast.walk(c)) and any(isinstance(x, ast.Attribute) and x.attr == "opname" for x in ast.walk(c)):
                filt = True
    rep.ob("R7", "xdis.std._StdApi.__init__.Bytecode.__iter__", "cache-entries-hidden-by-default", filt, expected="iteration skips CACHE unless show_caches", derived="filtered" if filt else "not filtered",
           msg="iterating dis.Bytecode(x) leaves out the inline CACHE entries of 3.11+ code unless show_caches=True")
    # ---------------------------------------------------------------- R6 the shared decoder and line-start machinery
    from ..report import SubReport, merge_sub
    from . import c05, dis_rules
    if not getattr(rep, "plumbing_only", False):  # (C02 restates this module's plumbing rules and has the decoder rules itself)
        dis_rules.restate_decoder(rep, T, "R6", tier)
        sub = SubReport("C05", tier=tier)
        c05.run(sub, tier)
        # C05-R7 is about the default of xdis.bytecode.Bytecode; xdis.std's own Bytecode class chooses the value itself (R8 below)
        merge_sub(rep, sub, "R6", "C05", only_rules=tuple(r for r in ("R1", "R2", "R3", "R4", "R5", "R6")))
    # ---------------------------------------------------------------- R8 xdis.std.Bytecode asks for dis's line semantics
    dl = None
    for c_ in ncls:
        for n_ in ast.walk(c_):
            if isinstance(n_, ast.Call) and ast.unparse(n_.func) == "_Bytecode.__init__":
                dl = "default (True)"
                for k_ in n_.keywords:
                    if k_.arg == "dup_lines":
                        dl = ast.unparse(k_.value)
    rep.ob("R8", "xdis.std._StdApi.__init__.Bytecode.__init__", "dup_lines=False", dl == "False", expected="_Bytecode.__init__(..., dup_lines=False)", derived=dl,
           msg="xdis.std.Bytecode builds its line starts with dup_lines=%s: instructions that begin a new lnotab entry on the same line get a starts_line that dis does not report" % dl)
    rep.assumptions = ["reference/codetype.json (dis._get_code_object of hosts 3.8-3.13)", "instruction fields, labels, line starts and stack effects are C02-C05, C15",
                       "equality of returned data with the host's dis is not evaluated; only the plumbing is decided"]
