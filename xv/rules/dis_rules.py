"""Per-table worker for C02 (instruction stream), C03 (operand resolution), C04 (jump targets / labels).

For one folded opcode table every defined opcode K < 256 is taken as a configuration: the instruction decoder, the
operand unpacker and the label finder bound by that table are specialised with the opcode byte = K and all other bytes
symbolic, and the extracted terms are compared with Lib/dis.py's semantics (reference/dis_semantics.json)."""
import ast

from ..disasm_sum import CODE, MARK, instr_summary, unpacker_iteration
from ..fold import FoldError, FuncRef, ModuleNS, PyExc
from ..report import AnalysisError
from ..sve import (Guard, Lin, Op, Spec, Sym, add, binop, flatten_effects, mul, show)
from ..tables import ref_json, ref_opcodes, tables

_STATE = {}


def state():
    if not _STATE:
        T = tables()
        _STATE["T"] = T
        _STATE["sem"] = ref_json("dis_semantics.json")
        refs = {}
        for v in ("2.7", "3.6", "3.7", "3.8", "3.9", "3.10", "3.11", "3.12", "3.13"):
            refs[tuple(int(x) for x in v.split("."))] = ref_opcodes(v)
        _STATE["refs"] = refs
    return _STATE


def fn(T, mod, name):
    m = T.F.modules.get(mod)
    if m is None or not isinstance(m.ns.get(name), FuncRef):
        raise AnalysisError("anchor vanished: %s.%s" % (mod, name))
    return m.ns[name]


def localsplus_expected(marks):
    return tuple(marks["varnames"]) + tuple(c for c in marks["cells"] if c not in marks["varnames"])


def expected_has_arg(m, K, ref, v):
    """operand presence per Lib/dis.py of that version"""
    if ref is not None and v >= (3, 12) and "hasarg" in ref:
        return K in ref["hasarg"]
    return K >= m.ns["HAVE_ARGUMENT"]


def extract_index(term):
    """(table, index term) out of  index(T, i)  or  (Lt(i, n) ? index(T, i) : i)"""
    if isinstance(term, Guard):
        c = term.cond
        if isinstance(term.a, Op) and term.a.op == "index" and isinstance(c, Op) and c.op == "Lt":
            tbl, idx = term.a.args
            if repr(c.args[0]) == repr(idx) and c.args[1] == len(tbl) and repr(term.b) == repr(idx):
                return tbl, idx, "guarded"
        return None
    if isinstance(term, Op) and term.op == "index":
        return term.args[0], term.args[1], "plain"
    return None


def shifted(A, k):
    return binop(ast.RShift(), A, k) if k else A


def table_worker(mname, which=("C02", "C03", "C04")):
    """returns a list of (property, rule, construct, detail, ok, expected, derived, where, msg)"""
    st = state()
    T, sem, refs = st["T"], st["sem"], st["refs"]
    m = T.reachable[mname]
    ns = m.ns
    short = mname.split(".")[-1]
    v = tuple(ns["version_tuple"][:2])
    pypy = bool(ns.get("is_pypy"))
    ref = None if pypy else refs.get(v)
    wordcode = v >= tuple(sem["wordcode_from"])
    W = sem["width"]["wordcode" if wordcode else "bytecode"]
    out = []

    def ob(prop, rule, construct, detail, ok, expected=None, derived=None, where=None, msg=None):
        if prop in which:
            out.append((prop, rule, construct, "%s:%s" % (short, detail), bool(ok), expected, derived, where, msg if not ok else None))

    F = T.F
    f_isz = fn(T, "xdis.cross_dis", "instruction_size")
    DEC = "xdis.bytecode.get_logical_instruction_at_offset"
    opmap = ns["opmap"]
    opname = ns["opname"]
    ext_op = opmap.get("EXTENDED_ARG")
    scale = 2 if v >= (3, 10) else 1
    caches = (ref or {}).get("caches", {}) if v >= (3, 12) else {}
    jrel, jabs = set(ns.get("hasjrel", [])), set(ns.get("hasjabs", []))
    cats = {c: set(ns.get(c, [])) for c in ("hasconst", "hasname", "haslocal", "hasfree", "hascompare")}
    refcats = {c: set((ref or {}).get(c, [])) for c in ("hasconst", "hasname", "haslocal", "hasfree", "hascompare")}
    refjrel, refjabs = set((ref or {}).get("hasjrel", [])), set((ref or {}).get("hasjabs", []))
    ref_names = {num: nme for nme, num in (ref or {}).get("opmap", {}).items() if num < 256}
    lp = localsplus_expected(MARK)
    finder = ns.get("findlabels")
    if not isinstance(finder, FuncRef):
        raise AnalysisError("table %s binds no findlabels function" % mname)
    w_ext = None
    if ext_op is not None:
        try:
            w_ext = F.apply(f_isz, [ext_op, m], {})
        except (PyExc, FoldError) as e:
            w_ext = "raises %s" % e
    if ext_op is not None:
        # the decoder recognises the prefix by its *name*: the slot the table calls EXTENDED_ARG must carry that name, and the table's EXTENDED_ARG constant must be that slot
        nm_at = opname[ext_op] if ext_op < len(opname) else None
        ob("C02", "R3", DEC, "EXTENDED_ARG:prefix-slot-is-named", nm_at == "EXTENDED_ARG" and ns.get("EXTENDED_ARG") == ext_op, "opname[%d] == 'EXTENDED_ARG' == name of opc.EXTENDED_ARG" % ext_op,
           {"opname[opmap['EXTENDED_ARG']]": nm_at, "EXTENDED_ARG": ns.get("EXTENDED_ARG")},
           msg="%s: opmap says EXTENDED_ARG is %d but opname[%d] is %r (EXTENDED_ARG constant %r): the decoder, which tests the name, does not fold the prefix into the next operand" % (
               short, ext_op, ext_op, nm_at, ns.get("EXTENDED_ARG")))
    n_ops = 0
    for nm, K in sorted(opmap.items(), key=lambda t: t[1]):
        if K >= 256 or not T.is_defined(m, K):
            continue
        n_ops += 1
        has_arg = expected_has_arg(m, K, ref, v)
        want_w = W["arg"] if (K >= ns["HAVE_ARGUMENT"]) else W["noarg"]
        # ------------------------------------------------------------ C02-R1 width
        try:
            w = F.apply(f_isz, [K, m], {})
        except (PyExc, FoldError) as e:
            w = "raises %s" % e
        ob("C02", "R1", "xdis.cross_dis.instruction_size", "%s:width" % nm, w == want_w, want_w, w,
           msg="instruction_size(%s) is %r; Python %d.%d instructions of that kind are %d bytes" % (nm, w, v[0], v[1], want_w))
        r = instr_summary(T, m, K)
        if "error" in r:
            ob("C02", "R2", DEC, "%s:summarisable" % nm, False, "one Instruction per iteration, one fall-through", r["error"],
               msg="decoder iteration for %s cannot be summarised: %s" % (nm, r["error"]))
            continue
        fl = r["fields"]
        cur = r["cursor"]
        head, env = r["head"], r["env"]
        # ------------------------------------------------------------ C02-R2 tiling
        ob("C02", "R2", DEC, "%s:advance" % nm, r["advance"] == want_w, want_w, show(r["advance"]),
           msg="after decoding %s the cursor advances by %s bytes, the instruction is %d bytes wide" % (nm, show(r["advance"]), want_w))
        ob("C02", "R2", DEC, "%s:offset" % nm, repr(fl.get("offset")) == repr(cur), show(cur), show(fl.get("offset")),
           msg="Instruction.offset is not the offset the opcode byte was read from")
        ob("C02", "R2", DEC, "%s:opcode" % nm, fl.get("opcode") == K and fl.get("opname") == opname[K], [K, opname[K]], [show(fl.get("opcode")), show(fl.get("opname"))])
        if ref is not None and K in ref_names:
            # the name reported for this opcode number is CPython's spelling (dis says SLICE+0, not SLICE_0)
            ob("C02", "R2", DEC, "%s:opname-spelling" % nm, fl.get("opname") == ref_names[K], ref_names[K], show(fl.get("opname")),
               msg="opcode %d of %d.%d is %r in CPython's dis; the instruction reports %s" % (K, v[0], v[1], ref_names[K], show(fl.get("opname"))))
        # inst_size = width + count*width(EXTENDED_ARG)
        isz = fl.get("inst_size")
        extc = None
        if isinstance(isz, Lin) and len(isz.terms) == 1:
            (atom, coef), = isz.terms.items()
            extc = atom
            ok = isz.const == want_w and coef == w_ext and isinstance(atom, Sym)
        else:
            ok = False
        ob("C02", "R2", DEC, "%s:inst_size" % nm, ok, "%s + %s*<extended-arg count>" % (want_w, w_ext), show(isz),
           msg="inst_size must be the instruction width plus the width of every EXTENDED_ARG prefix")
        # ------------------------------------------------------------ C02-R6 operand presence
        if not nm.startswith("INSTRUMENTED_"):  # instrumented opcodes never occur in the co_code of a code object on disk
            ob("C02", "R6", DEC, "%s:has_arg" % nm, fl.get("has_arg") is has_arg and ((fl.get("arg") is None) == (not has_arg)), has_arg,
               [show(fl.get("has_arg")), "arg=" + show(fl.get("arg"))[:60]],
               msg="operand presence of %s: dis of %d.%d says %s" % (nm, v[0], v[1], "operand" if has_arg else "no operand (arg None)"))
        A = fl.get("arg")
        if A is None:
            continue
        # ------------------------------------------------------------ C02-R3 operand assembly
        b1 = Op("byte", CODE, add(cur, 1))
        b2 = Op("byte", CODE, add(cur, 2))
        E = None
        for name, hv in head.items():
            if isinstance(name, str) and isinstance(hv, Sym) and repr(hv) != repr(cur) and repr(hv) in atoms_repr(A):
                E = (name, hv)
        if E is None:
            ob("C02", "R3", DEC, "%s:arg" % nm, False, "operand bytes combined with the carried EXTENDED_ARG value", show(A),
               msg="the operand does not include a carried extended-arg value")
            continue
        if wordcode:
            expA = binop(ast.BitOr(), b1, E[1])
            exp_ext = mul(expA, 256)
        else:
            expA = add(add(b1, mul(b2, 256)), E[1])
            exp_ext = mul(expA, 65536)
        ob("C02", "R3", DEC, "%s:arg" % nm, repr(A) == repr(expA), show(expA), show(A),
           msg="numeric operand of %s is assembled differently from dis (%s)" % (nm, sem["operand"]["wordcode" if wordcode else "bytecode"]["arg"]))
        nxt = env.get(E[0])
        want_next = exp_ext if K == ext_op else 0
        ob("C02", "R3", DEC, "%s:ext-carry" % nm, repr(nxt) == repr(want_next), show(want_next), show(nxt),
           msg="value carried to the next instruction after %s" % nm)
        if K == ext_op and extc is not None:
            # the count of prefixes grows by one, the loop continues
            cn = None
            for name, hv in head.items():
                if isinstance(name, str) and repr(hv) == repr(extc):
                    cn = env.get(name)
            ob("C02", "R3", DEC, "%s:prefix-count" % nm, repr(cn) == repr(add(extc, 1)), show(add(extc, 1)), show(cn))
        # ------------------------------------------------------------ C03 operand resolution
        av = fl.get("argval")
        cat = None
        for c in ("hasconst", "hasname", "haslocal", "hasfree", "hascompare"):
            if K in cats[c]:
                cat = c
                break
        if K in jrel or K in jabs:
            cat = None
        if ref is not None and nm in ref.get("opmap", {}) and ref["opmap"][nm] == K:
            # the category that decides which table dis indexes is CPython's own (the table's category lists are C09's subject, but an
            # opcode filed under the wrong category resolves its operand in the wrong table, which is this property)
            rcat = None
            for c in ("hasconst", "hasname", "haslocal", "hasfree", "hascompare"):
                if K in refcats[c]:
                    rcat = c
                    break
            if K in set(ref.get("hasjrel", [])) or K in set(ref.get("hasjabs", [])):
                rcat = None
            if rcat != cat:
                ob("C03", "R1", DEC, "%s:category" % nm, False, rcat and rcat[3:], cat and cat[3:],
                   msg="%s is a %s operand in CPython %d.%d; the table files it under %s, so its operand is looked up in the wrong table" % (
                       nm, rcat and rcat[3:], v[0], v[1], cat and cat[3:]))
                cat = rcat
        if cat is not None:
            res = sem["resolution"]
            if cat == "hasconst":
                etab, eidx = MARK["constants"], A
            elif cat == "hasname":
                etab, eidx = MARK["names"], A
                for sp_ in res["name"]["special"]:
                    if nm == sp_["opname"] and v >= tuple(sp_["from"]):
                        eidx = shifted(A, sp_["shift"])
            elif cat == "haslocal":
                etab = lp if v >= (3, 11) else MARK["varnames"]
                eidx = A
            elif cat == "hasfree":
                etab = lp if v >= (3, 11) else MARK["cells"]
                eidx = A
            else:
                sh = [x["value"] for x in res["compare"]["shift"] if v >= tuple(x["from"])][0]
                refcmp = (ref or {}).get("cmp_op") or ["<", "<=", "==", "!=", ">", ">="]
                etab = tuple(s_.replace(" ", "-") for s_ in refcmp)
                eidx = shifted(A, sh)
            pr = res["local"]["pairs"]
            if cat == "haslocal" and v >= tuple(pr["from"]) and nm in pr["opnames"]:
                ok = isinstance(av, tuple) and len(av) == 2
                got = []
                if ok:
                    e1 = extract_index(av[0])
                    e2 = extract_index(av[1])
                    want1 = shifted(A, pr["hi_shift"])
                    want2 = binop(ast.BitAnd(), A, pr["lo_mask"])
                    ok = bool(e1 and e2 and tuple(e1[0]) == tuple(etab) and tuple(e2[0]) == tuple(etab)
                              and repr(e1[1]) == repr(want1) and repr(e2[1]) == repr(want2))
                    got = [show(e1[1]) if e1 else None, show(e2[1]) if e2 else None]
                ob("C03", "R1", DEC, "%s:argval" % nm, ok, "(localsplus[arg>>4], localsplus[arg&15])", got or show(av)[:200],
                   msg="paired local operand of %s resolved differently from dis 3.13" % nm)
            else:
                e = extract_index(av)
                if e is None:
                    ob("C03", "R1", DEC, "%s:argval" % nm, False, "a lookup in the %s table" % cat[3:], show(av)[:200],
                       msg="argval of %s is not a table lookup" % nm)
                else:
                    tbl, idx, how = e
                    if cat == "hascompare":
                        tb = tuple(tbl)[:len(etab)] if isinstance(tbl, (tuple, list)) else tbl
                        t_ok = tuple(x.replace(" ", "-") if isinstance(x, str) else x for x in tb) == tuple(etab)
                    else:
                        t_ok = isinstance(tbl, (tuple, list)) and tuple(tbl) == tuple(etab)
                    ob("C03", "R1", DEC, "%s:table" % nm, t_ok, list(etab), list(tbl) if isinstance(tbl, (tuple, list)) else show(tbl),
                       msg="%s indexes the wrong table (expected %s of %d.%d)" % (nm, cat[3:], v[0], v[1]))
                    ob("C03", "R1", DEC, "%s:index" % nm, repr(idx) == repr(eidx), show(eidx), show(idx),
                       msg="%s uses index %s; dis of %d.%d uses %s" % (nm, show(idx), v[0], v[1], show(eidx)))
            ob("C03", "R2", DEC, "%s:optype" % nm, fl.get("optype") == {"hasconst": "const", "hasname": "name", "haslocal": "local", "hasfree": "free", "hascompare": "compare"}[cat]
               or (cat in ("haslocal", "hasname", "hasfree") and fl.get("optype") in ("compare", "const", "free", "jabs", "jrel", "local", "name")),
               cat[3:], fl.get("optype"))
        # ------------------------------------------------------------ C04 decoder jump target
        if ref is not None and nm in ref.get("opmap", {}) and ref["opmap"][nm] == K:
            rj = ("jrel" if K in refjrel else "jabs" if K in refjabs else None)
            xj = ("jrel" if K in jrel else "jabs" if K in jabs else None)
            if rj or xj:
                ob("C04", "R1", DEC, "%s:jump-category" % nm, rj == xj, rj, xj,
                   msg="%s is %s in CPython %d.%d but the table files it under %s: its operand is %s as a jump target and its labels are %s" % (
                       nm, rj or "not a jump", v[0], v[1], xj or "no jump category", "shown" if xj else "not shown", "invented" if xj and not rj else "missing"))
        if K in jrel or K in jabs:
            if K in jrel:
                sign = -1 if (v >= (3, 11) and "JUMP_BACKWARD" in nm) else 1
                c = caches.get(nm, 0) if v >= (3, 12) else 0
                exp = add(add(add(cur, want_w), mul(A, scale * sign)), 2 * c)
                what = "o + %d %s %d*arg%s" % (want_w, "-" if sign < 0 else "+", scale, (" + 2*%d caches" % c) if c else "")
            else:
                exp = mul(A, scale)
                what = "%d*arg" % scale
            ob("C04", "R1", DEC, "%s:target" % nm, repr(av) == repr(exp), show(exp), show(av),
               msg="jump target of %s: dis of %d.%d computes %s" % (nm, v[0], v[1], what))
        # is_jump_target: membership of this instruction's offset in the label list
        ijt = fl.get("is_jump_target")
        okj = isinstance(ijt, Op) and ijt.op == "In" and repr(ijt.args[0]) == repr(cur) and isinstance(ijt.args[1], Sym) and ijt.args[1].name == "labels"
        ob("C04", "R2", DEC, "%s:is_jump_target" % nm, okj, "In(<offset>, labels)", show(ijt))
    # ---------------------------------------------------------------- finder per opcode (C04-R1b) and unpacker (C02-R4)
    unp_name = None
    for nm, K in sorted(opmap.items(), key=lambda t: t[1]):
        if K >= 256 or not T.is_defined(m, K):
            continue
        has_arg = K >= ns["HAVE_ARGUMENT"]
        want_w = W["arg"] if has_arg else W["noarg"]
        o, a = Sym("o", "int"), Sym("arg", "int")

        def gh(spec, gen, tag, K=K, o=o, a=a, has_arg=has_arg):
            return (o, K, a if has_arg else None)

        sp = Spec(T.F)
        sp.gen_elem_hook = gh
        sp.run(finder, [CODE, m])
        apps = []
        for k, e in flatten_effects(sp.effects):
            if k == "gen":
                unp_name = str(e.args[0])
            if k == "mutate" and e.args[0] == "append":
                apps.append(e)
            elif k == "call" and str(e.args[0]).endswith(".append"):
                apps.append(e)
        FN = finder.qualname
        if K in jrel or K in jabs:
            if K in jrel:
                sign = -1 if (v >= (3, 11) and "JUMP_BACKWARD" in nm) else 1
                c = caches.get(nm, 0) if v >= (3, 12) else 0
                exp = add(add(add(o, want_w), mul(a, scale * sign)), 2 * c)
            else:
                exp = mul(a, scale)
            got = [x.args[-1][0] if x.args and isinstance(x.args[-1], tuple) and x.args[-1] else None for x in apps]
            ok = len(got) == 1 and repr(got[0]) == repr(exp)
            ob("C04", "R1", FN, "%s:label" % nm, ok, show(exp), [show(g) for g in got],
               msg="label computed by the finder bound to this table for %s differs from dis of %d.%d" % (nm, v[0], v[1]))
            if ok:
                bad_guards = [show(g) for g in apps[0].guards if not (isinstance(g, Op) and (g.op == "in-loop" or (g.op == "NotIn" and repr(g.args[0]) == repr(exp)) or
                                                                                                 (g.op == "GtE" and repr(g.args[0]) == repr(exp) and g.args[1] == 0)))]
                ob("C04", "R1", FN, "%s:label-unconditional" % nm, not bad_guards, "recorded for every occurrence (dedupe / >= 0 only)", bad_guards)
        else:
            ob("C04", "R1", FN, "%s:no-label" % nm, not apps, "no label for a non-jump opcode", [show(x.args[-1]) for x in apps],
               msg="the finder records a label for %s, which is not a jump" % nm)
    # unpacker: three representative opcodes
    if unp_name:
        mod, _, fname = unp_name.rpartition(".")
        uf = T.F.modules.get(mod).ns.get(fname) if mod in T.F.modules else None
        reps = []
        for K in sorted(set(opmap.values())):
            if K < 256 and T.is_defined(m, K):
                if K < ns["HAVE_ARGUMENT"] and not any(r_[0] == "noarg" for r_ in reps):
                    reps.append(("noarg", K))
                if K >= ns["HAVE_ARGUMENT"] and expected_has_arg(m, K, ref, v) and K != ext_op and not any(r_[0] == "arg" for r_ in reps):
                    reps.append(("arg", K))
        if ext_op is not None:
            reps.append(("ext", ext_op))
        if isinstance(uf, FuncRef):
            # The unpacker is run (generators eagerly, loops unrolled: the code string is concrete) on a scripted instruction sequence: an instruction without
            # operand, one with, an EXTENDED_ARG prefix and its instruction, two stacked prefixes and their instruction, a closing instruction without operand.
            # What it yields is compared with dis._unpack_opargs of that bytecode layout -- however the unpacker's loops, helpers and byte access are written.
            UN = uf.qualname
            kinds = dict(reps)
            if "noarg" in kinds and "arg" in kinds:
                K0, K1 = kinds["noarg"], kinds["arg"]
                seq = [(K0, None), (K1, 0x3412)]
                if ext_op is not None:
                    seq += [(ext_op, 0x01), (K1, 0x7856), (ext_op, 0x02), (ext_op, 0x03), (K1, 0x9ABC)]
                seq += [(K0, None)]
                code_, want_ = [], []
                ext_ = 0
                for op_, a_ in seq:
                    off_ = len(code_)
                    if wordcode:
                        code_ += [op_, (a_ or 0) & 0xFF]
                        if op_ >= ns["HAVE_ARGUMENT"]:
                            arg_ = ((a_ or 0) & 0xFF) | ext_
                            ext_ = (arg_ << 8) if op_ == ext_op else 0
                        else:
                            arg_ = None
                    elif a_ is None:
                        code_ += [op_]
                        arg_ = None
                    else:
                        code_ += [op_, a_ & 0xFF, (a_ >> 8) & 0xFF]
                        arg_ = (a_ & 0xFFFF) + ext_
                        ext_ = arg_ * 65536 if op_ == ext_op else 0
                    want_.append((off_, op_, arg_))
                got_ = None
                for blob in (bytes(code_),):
                    spu = Spec(T.F)
                    spu.eager_generators = True
                    try:
                        got_ = spu.call(uf, [blob, m], {}, None, {})
                    except Exception as ex:
                        got_ = "not evaluable: %s" % str(ex)[:100]
                if isinstance(got_, list):
                    got_ = [tuple(t_) if isinstance(t_, (tuple, list)) else t_ for t_ in got_]
                okU = isinstance(got_, list) and got_ == want_
                ob("C02", "R4", UN, "script:yields", okU, [("%d" % o_, "%d" % p_, "None" if a_ is None else "0x%x" % a_) for o_, p_, a_ in want_],
                   [show(t_)[:60] for t_ in got_][:10] if isinstance(got_, list) else show(got_)[:200],
                   msg="the operand unpacker the label finder of %s uses yields %s for the scripted code %s; dis._unpack_opargs yields %s (offset, opcode, operand with the EXTENDED_ARG "
                       "prefixes folded in)" % (short, ([show(t_) for t_ in got_][:8] if isinstance(got_, list) else show(got_)[:120]), bytes(code_).hex(), want_))
            else:
                ob("C02", "R4", UN, "script:yields", False, "an opcode with and one without operand to script", sorted(kinds))
    out.append(("META", "ops", short, n_ops, True, None, None, None, None))
    return out


def atoms_repr(t):
    from ..sve import atoms_of
    return set(atoms_of(t).keys())



def restate_decoder(rep, T, rule, tier="quick"):
    """Re-derive every obligation of C02, C03 and C04 (per-table decoder summaries plus their plumbing rules) and restate them in `rep`
    under `rule` -- used by the properties whose statement includes the decoded records (C12 listings, C20 xdis.std)."""
    from ..par import pmap
    from ..report import SubReport, merge_sub
    from . import c02, c03, c04
    subs = {p: SubReport(p) for p in ("C02", "C03", "C04")}
    nops = 0
    for res in pmap(_all_work, sorted(T.reachable)):
        for (p_, r_, construct, detail, ok, exp, got, where, msg) in res:
            if p_ == "META":
                nops += detail
            elif p_ in subs:
                subs[p_].ob(r_, construct, detail, ok, expected=exp, derived=got, where=where, msg=msg)
    rep.floor("(table, opcode) decoder specialisations", nops, 4000)
    c02.driver(subs["C02"])
    c03.plumbing_rule(subs["C03"], T)
    c04.extra_rules(subs["C04"], T, tier)
    for p_ in sorted(subs):
        merge_sub(rep, subs[p_], rule, p_)
    return nops


def _all_work(mname):
    return table_worker(mname, ("C02", "C03", "C04"))
