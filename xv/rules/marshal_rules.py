"""Reader obligations shared by C01 and C10 (DESIGN.md section 4: C01-R1..R3,R5 / C10-R7,R8)."""
import collections

from ..fold import FuncRef, Instance
from ..loadmod import analyse
from ..marshal_read import classify_value, marshal_version, summarise_reader, unmarshaller
from ..report import AnalysisError
from ..sve import Op, Sym, show
from ..tables import ref_json, tables


def accepted_magics(T):
    """[(magic_as_passed_to_load_code, version tuple)] for every magic load_module accepts and hands to the unmarshaller."""
    out = []
    for mg in sorted(T.magics["magicint2version"]):
        hs = analyse(T, mg)
        if hs.disposition != "accept" or hs.ret is None:
            continue
        version = hs.ret[0]
        if not isinstance(version, tuple):
            continue
        # the magic the loader passes on (48 is rewritten to 3187)
        passed = mg
        for name, args, g in hs.loader_calls:
            if name.endswith("load_code") and len(args) >= 2 and isinstance(args[1], int):
                passed = args[1]
        out.append((mg, passed, version))
    return out


def vlabel(versions, universe):
    vs = sorted(set(versions))
    uni = sorted(set(universe))
    if not vs:
        return "none"
    i0, i1 = uni.index(vs[0]), uni.index(vs[-1])
    if uni[i0:i1 + 1] == vs:
        a, b = "%d.%d" % vs[0], "%d.%d" % vs[-1]
        return a if a == b else "%s-%s" % (a, b)
    return ",".join("%d.%d" % v for v in vs)


def expected_kind(row, v):
    k = row["kind"]
    return k


KIND_OK = {
    "int": {"int"}, "float": {"float"}, "complex": {"complex"}, "text": {"text"}, "bytes-or-str": {"bytes-or-str"},
    "tuple": {"tuple"}, "list": {"list"}, "set": {"set"}, "frozenset": {"frozenset"}, "dict": {"dict"},
    "None": {"None"}, "True": {"True"}, "False": {"False"}, "Ellipsis": {"Ellipsis"}, "StopIteration": {"StopIteration"},
    "interned-table-entry": {"interned-table-entry"}, "ref-table-entry": {"ref-table-entry"},
}
REF_OK = {"leaf": {"leaf", "reserve"}, "reserve": {"reserve", "mutable-first"}, "never": {"never"}}


def long_digits_rule(rep, T, cls, f, probe):
    """TYPE_LONG: |n| 16-bit digits, digit j weighs 2**(15*j), result negated iff n < 0 -- the extracted count, update and result terms
    are evaluated on small integers (the analysis's own terms, not repo code)"""
    from ..fold import Instance as _Inst
    from ..marshal_read import new_instance, robj_hook
    from ..sve import Cont, Fall, Guard, Ret, Spec, eval_term, leaves
    mg, passed, version = probe
    sp = Spec(T.F, opaque_funcs={"to_portable"})
    sp.hooks.append(robj_hook)
    inst = new_instance(cls, passed, version)
    out = sp.run(f, [inst, True, Sym("bytes_for_s", "bool")])
    FQ = f.qualname
    tag = "@%d.%d" % tuple(version[:2])
    unp = [e for k, e in _flat(sp.effects) if k == "unpack"]
    loops = [e.args[3] for e in sp.effects if e.kind == "loop"]
    if len(loops) != 1 or len(unp) < 2:
        rep.ob("R9", FQ, "long:digit-loop" + tag, False, expected="a size field and one loop reading 16-bit digits", derived=[len(unp), len(loops)])
        return
    ls = loops[0]
    n_sym = None
    for nme, v in ls.pre.items():
        if isinstance(nme, str) and show(v).startswith("fld(") and "<i" in show(v):
            n_sym = v
    digits = [x for x in ls.effects if x.kind == "unpack"]
    dsym = None
    for g, l in leaves(ls.out):
        if isinstance(l, (Fall, Cont)):
            for nme, v in l.env.items():
                if isinstance(nme, str) and show(v).startswith("fld(") and "h," in show(v).lower() and nme not in ls.pre:
                    dsym = v
    if n_sym is None or dsym is None or len(digits) != 1:
        rep.ob("R9", FQ, "long:digit-loop" + tag, False, expected="size from '<i', one '<h' digit per iteration", derived=[show(n_sym), show(dsym), len(digits)])
        return
    rep.ob("R9", FQ, "long:digit-format" + tag, str(digits[0].args[0]) in ("<h", "<H"), expected="<h", derived=str(digits[0].args[0]))
    # count
    c = ls.cond
    got = show(c)
    okc = False
    if isinstance(c, Op) and c.op == "iter-more" and isinstance(c.args[0], Op) and c.args[0].op == "range":
        try:
            got = [len(range(*[eval_term(a, {repr(n_sym): sv}) for a in c.args[0].args])) for sv in (-3, 1, 4)]
            okc = got == [3, 1, 4]
        except Exception as ex:
            got = "not evaluable: %s" % ex
    rep.ob("R9", FQ, "long:digit-count" + tag, okc, expected="|n| digits (n = -3, 1, 4 -> 3, 1, 4)", derived=got, msg="the number of digits read is not the absolute value of the size field")
    # accumulation: the in-loop update of the accumulator (a plain int variable or the value of the int-like wrapper object)
    idx = Sym("%s:idx" % ls.tag)
    upd = None
    head = None
    for x in ls.effects:
        if x.kind == "store-attr" and x.args[1] == "value" and repr(dsym) in repr(x.args[2]):
            upd = x.args[2]
    for g, l in leaves(ls.out):
        if isinstance(l, (Fall, Cont)):
            for nme, v in l.env.items():
                if isinstance(nme, str) and nme in ls.pre and repr(dsym) in repr(v) and upd is None:
                    upd = v
    heads = [Sym("%s:%s" % (ls.tag, nme)) for nme in ls.pre if isinstance(nme, str)]
    oka, gota = False, show(upd)
    if upd is not None:
        hs = [h for h in heads if repr(h) in repr(upd)]
        if len(hs) == 1:
            try:
                vals = [eval_term(upd, {repr(dsym): dv, repr(idx): iv, repr(hs[0]): hv}) for dv, iv, hv in ((3, 2, 5), (0x7FFF, 0, 0), (1, 3, 1 << 44))]
                oka = vals == [5 + (3 << 30), 0x7FFF, (1 << 44) + (1 << 45)]
                gota = {"update": show(upd), "evaluated": vals}
                head = hs[0]
            except Exception as ex:
                gota = "not evaluable: %s" % ex
    rep.ob("R9", FQ, "long:accumulation" + tag, oka, expected="d' = d + (digit << 15*j)", derived=gota, msg="the digits of a TYPE_LONG are combined with the wrong weights")
    # sign
    oks, gots = False, None
    if head is not None:
        after = Sym("after-" + head.name)

        def value_of(t, val):
            if isinstance(t, Guard):
                return value_of(t.a if eval_term(t.cond, val) else t.b, val)
            if isinstance(t, _Inst):
                last = None
                for k, e in _flat(sp.effects):
                    if k == "store-attr" and e.args[1] == "value" and not any(isinstance(g, Op) and g.op == "in-loop" for g in e.guards):
                        if all(eval_term(g, val) for g in e.guards if "loop-exit" not in show(g)):
                            last = e.args[2]
                return eval_term(last, val) if last is not None else None
            return eval_term(t, val)
        try:
            res = []
            for sv in (-3, 2):
                val = {repr(n_sym): sv, repr(after): 7}
                r = None
                for g, l in leaves(out):
                    if isinstance(l, Ret) and all(eval_term(c_, val) for c_ in g if "loop-exit" not in show(c_)):
                        r = value_of(l.value, val)
                        break
                res.append(r)
            oks = res == [-7, 7]
            gots = {"evaluated(n=-3, 2; magnitude 7)": res}
        except Exception as ex:
            gots = "not evaluable: %s" % ex
    rep.ob("R9", FQ, "long:sign" + tag, oks, expected="-magnitude when n < 0, +magnitude otherwise", derived=gots, msg="the sign of a TYPE_LONG does not follow the sign of its size field")


def _flat(effects):
    from ..sve import flatten_effects
    return flatten_effects(effects)


def reader_obligations(rep, T, want_rules=("R1", "R2", "R3", "R5", "R7", "R8", "R9")):
    um, cls, tbl = unmarshaller(T)
    spec = ref_json("marshal_format.json")
    rows = spec["rows"]
    rep.floor("marshal type codes in reference", len(rows), 30)
    acc = accepted_magics(T)
    rep.floor("accepted magics", len(acc), 150)
    universe = [tuple(v[:2]) for _, _, v in acc]
    readers = {}
    for r in rows:
        code = r["code"]
        ok = code in tbl
        rep.ob("R1", "xdis.unmarshal.UNMARSHAL_DISPATCH_TABLE", "code=%r:present" % code, ok, expected=r["name"], derived=tbl.get(code),
               msg="marshal type code %r (%s) has no entry in the dispatch table" % (code, r["name"]))
        if not ok:
            continue
        suffix = tbl[code]
        f = cls.lookup("t_" + suffix) if isinstance(suffix, str) else None
        ok = isinstance(f, FuncRef)
        rep.ob("R1", "xdis.unmarshal.UNMARSHAL_DISPATCH_TABLE", "code=%r:resolves" % code, ok, expected="a t_* method", derived="t_%s" % suffix,
               msg="dispatch entry %r -> t_%s does not name a method of the unmarshaller" % (code, suffix))
        if ok:
            readers[code] = (suffix, f)
            rep.analysed(f.qualname)
    # r_object's own decoding of the type byte
    # ------------------------------------------------------------ per (code, magic) summaries, grouped
    groups = collections.OrderedDict()  # (code, aspect, sig) -> [versions]
    details = {}
    nconf = 0
    for code, (suffix, f) in sorted(readers.items()):
        row = [r for r in rows if r["code"] == code][0]
        if row["payload"] == [["code"]]:
            continue
        for mg, passed, version in acc:
            v2 = tuple(version[:2])
            mv = marshal_version(version, passed)
            if mv < row["since"]:
                continue
            nconf += 1
            rs = summarise_reader(T, cls, suffix, passed, version)
            where = "xdis/unmarshal.py:%d" % rs.line
            exp_shape = row["payload"]
            # R1 shape
            sig = ("shape", repr(rs.shape))
            groups.setdefault((code, suffix, "shape", repr(rs.shape), repr(exp_shape), where), []).append(v2)
            # R1 kind (an integer read from a Python 2 file may be the 'L'-suffixed long wrapper; a Python 3 integer is a plain int)
            exp_k = row["kind"]
            got_k = rs.kind
            if exp_k == "int" and "py2-long" in got_k:
                parts = set(got_k.split("|"))
                parts = {("int" if v2 < (3, 0) else "py2-long (repr ends in 'L')") if p_ == "py2-long" else p_ for p_ in parts}
                got_k = "|".join(sorted(parts))
            groups.setdefault((code, suffix, "kind", got_k, exp_k, where), []).append(v2)
            # R2 formats
            for det, msg in rs.fmt_problems:
                groups.setdefault((code, suffix, "fmt:" + det, msg, "width/endianness agree", where), []).append(v2)
            groups.setdefault((code, suffix, "fmt-ok", "ok" if not rs.fmt_problems else "bad", "ok", where), []).append(v2)
            # R3 reference table
            if mv >= 3:
                groups.setdefault((code, suffix, "ref", rs.ref, row["flagref"], where), []).append(v2)
                for det, msg in rs.ref_problems:
                    groups.setdefault((code, suffix, "ref:" + det, msg, row["flagref"], where), []).append(v2)
                rs0 = summarise_reader(T, cls, suffix, passed, version, save_ref=False)
                for det, msg in rs0.ref_problems:
                    groups.setdefault((code, suffix, "ref:" + det, msg, "nothing registered without FLAG_REF", where), []).append(v2)
            # R5 containers hand their own bytes_for_s setting to every child
            if rs.child_bfs:
                bad = sorted(set(b for b in rs.child_bfs if b != "bytes_for_s"))
                groups.setdefault((code, suffix, "child-bytes_for_s", repr(bad), "[]", where), []).append(v2)
            # R5 text decoding of TYPE_UNICODE for py3 producers
            if code == "u" and v2 >= (3, 1):
                dec = tuple(str(x) for x in (rs.decode or ()))
                groups.setdefault((code, suffix, "decode", repr(dec), "utf-8 with surrogatepass", where), []).append(v2)
            # R8 interned strings (py2 string table)
            if code == "t":
                groups.setdefault((code, suffix, "interned-appends", str(rs.intern_string_appends), "1", where), []).append(v2)
            if code == "R":
                groups.setdefault((code, suffix, "interned-appends", str(rs.intern_string_appends), "0", where), []).append(v2)
    rep.configurations += nconf
    for (code, suffix, aspect, got, exp, where), vs in groups.items():
        lab = vlabel(vs, universe)
        construct = "xdis.unmarshal._VersionIndependentUnmarshaller.t_%s" % suffix
        if aspect == "shape":
            ok = got == exp
            rule = "R1"
            msg = "type %r: payload read as %s, format is %s" % (code, got, exp)
        elif aspect == "kind":
            ok = got in KIND_OK.get(exp, {exp})
            if exp == "null-sentinel":
                ok = True  # decided by R7
            rule = "R1"
            msg = "type %r decodes to a %s, the format says %s" % (code, got, exp)
        elif aspect == "fmt-ok":
            ok, rule, msg = True, "R2", ""
            if got != "ok":
                continue
        elif aspect.startswith("fmt:"):
            ok, rule, msg = False, "R2", got
        elif aspect == "ref":
            ok = got in REF_OK[exp]
            rule = "R3"
            msg = "type %r: reference-table behaviour is '%s', marshal.c's is '%s'" % (code, got, exp)
            if not ok and got in ("bad",):
                continue  # the specific ref:* entries describe it
        elif aspect.startswith("ref:"):
            ok, rule, msg = False, "R3", got
        elif aspect == "child-bytes_for_s":
            ok = got == exp
            rule = "R5"
            msg = "type %r reads its children with bytes_for_s=%s instead of the setting it was called with: strings inside this container get the wrong kind (bytes vs text)" % (code, got)
        elif aspect == "decode":
            ok = ("surrogatepass" in got) and ("utf" in got.lower())
            rule = "R5"
            msg = "TYPE_UNICODE payload decoded with %s; CPython 3 decodes utf-8 with errors='surrogatepass' (lone surrogates are legal in constants)" % got
        elif aspect == "interned-appends":
            ok = got == exp
            rule = "R8"
            msg = "type %r appends %s times to the interned-string table, expected %s" % (code, got, exp)
        else:
            continue
        if rule not in want_rules:
            continue
        det = aspect if aspect.count(":") == 0 else aspect
        rep.ob(rule, construct, "code=%r:%s@%s" % (code, det, lab), ok, expected=exp, derived=got, where=where, msg=msg if not ok else None)
    # ------------------------------------------------------------ R9: digits of TYPE_LONG
    if "R9" in want_rules and "l" in readers:
        for probe in [a for a in acc if tuple(a[2][:2]) in ((2, 7), (3, 8))][:2] or acc[:1]:
            long_digits_rule(rep, T, cls, readers["l"][1], probe)
    # ------------------------------------------------------------ R7: NULL sentinel
    if "R7" in want_rules:
        some = [a for a in acc if tuple(a[2][:2]) >= (3, 8)][:1] or acc[:1]
        mg, passed, version = some[0]
        null = readers.get("0")
        if null:
            rn = summarise_reader(T, cls, null[0], passed, version)
            nv = rn.returns[0][1] if rn.returns else None
            clash = []
            for code, (suffix, f) in sorted(readers.items()):
                if code in ("0", "c", "C"):
                    continue
                rs = summarise_reader(T, cls, suffix, passed, version)
                for g, v in rs.returns:
                    if not isinstance(v, (Sym, Op)) and (v is nv or (type(v) == type(nv) and not isinstance(v, Instance) and v == nv)):
                        clash.append("t_%s" % suffix)
            rep.ob("R7", "xdis.unmarshal._VersionIndependentUnmarshaller.t_%s" % null[0], "null-distinguishable", not clash,
                   expected="a value no other reader can return", derived="%s, also returned by %s" % (show(nv), sorted(set(clash))) if clash else show(nv),
                   where="xdis/unmarshal.py:%d" % rn.line,
                   msg="the NULL terminator decodes to %s, which %s also return: a dict with that key or value is truncated" % (show(nv), sorted(set(clash))))
            d = readers.get("{")
            if d:
                rd = summarise_reader(T, cls, d[0], passed, version)
                exits = rd.dict_exits
                good = bool(exits)
                bad = []
                for g in exits:
                    last = g[-1] if g else None
                    s = show(last)
                    okx = isinstance(last, Op) and last.op == "Is" and (last.args[1] is nv) and not clash
                    if not okx:
                        bad.append(s)
                rep.ob("R7", "xdis.unmarshal._VersionIndependentUnmarshaller.t_%s" % d[0], "dict-terminates-only-on-null", good and not bad,
                       expected="loop exits only when the key (or value) IS the NULL sentinel", derived=[show(g[-1]) for g in exits if g],
                       where="xdis/unmarshal.py:%d" % rd.line,
                       msg="dict reader stops on %s: a None key or value ends the dict early" % bad)
    return acc, readers
