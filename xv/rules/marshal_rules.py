"""Reader obligations shared by C01 and C10 (DESIGN.md section 4: C01-R1..R3,R5 / C10-R7,R8)."""
import collections

from ..fold import FuncRef, Instance
from ..loadmod import analyse
from ..marshal_read import classify_value, marshal_version, summarise_reader, unmarshaller
from ..report import AnalysisError
from ..sve import Op, Sym, show
from ..tables import ref_json, tables


def accepted_magics(T):
    """[(magic_as_passed_to_load_code, version tuple)] for every magic load_module accepts and hands to the unmarshaller."""
    out = []
    for mg in sorted(T.magics["magicint2version"]):
        hs = analyse(T, mg)
        if hs.disposition != "accept" or hs.ret is None:
            continue
        version = hs.ret[0]
        if not isinstance(version, tuple):
            continue
        # the magic the loader passes on (48 is rewritten to 3187)
        passed = mg
        for name, args, g in hs.loader_calls:
            if name.endswith("load_code") and len(args) >= 2 and isinstance(args[1], int):
                passed = args[1]
        out.append((mg, passed, version))
    return out


def vlabel(versions, universe):
    vs = sorted(set(versions))
    uni = sorted(set(universe))
    if not vs:
        return "none"
    i0, i1 = uni.index(vs[0]), uni.index(vs[-1])
    if uni[i0:i1 + 1] == vs:
        a, b = "%d.%d" % vs[0], "%d.%d" % vs[-1]
        return a if a == b else "%s-%s" % (a, b)
    return ",".join("%d.%d" % v for v in vs)


def expected_kind(row, v):
    k = row["kind"]
    return k


KIND_OK = {
    "int": {"int"}, "float": {"float"}, "complex": {"complex"}, "text": {"text"}, "bytes-or-str": {"bytes-or-str"},
    "tuple": {"tuple"}, "list": {"list"}, "set": {"set"}, "frozenset": {"frozenset"}, "dict": {"dict"},
    "None": {"None"}, "True": {"True"}, "False": {"False"}, "Ellipsis": {"Ellipsis"}, "StopIteration": {"StopIteration"},
    "interned-table-entry": {"interned-table-entry"}, "ref-table-entry": {"ref-table-entry"},
}
REF_OK = {"leaf": {"leaf", "reserve"}, "reserve": {"reserve", "mutable-first"}, "never": {"never"}}


def long_digits_rule(rep, T, cls, f, probe):
    """TYPE_LONG: |n| 16-bit digits, digit j weighs 2**(15*j), result negated iff n < 0.  Decided independently of how the digit loop is written: the
    reader is specialised with the size field bound to concrete values (the loop then unrolls, every digit read is its own symbol) and the result term
    is evaluated on distinctive digits (the analysis's own terms, not repo code)."""
    from ..fold import Instance as _Inst
    from ..marshal_read import new_instance, robj_hook
    from ..sve import Guard, Ret, Spec, eval_term, leaves
    mg, passed, version = probe
    FQ = f.qualname
    tag = "@%d.%d" % tuple(version[:2])

    def run_with(assume):
        sp = Spec(T.F, opaque_funcs={"to_portable"}, assume=assume)
        sp.hooks.append(robj_hook)
        inst = new_instance(cls, passed, version)
        out = sp.run(f, [inst, True, Sym("bytes_for_s", "bool")])
        return sp, out
    sp0, out0 = run_with({})
    unp0 = [e for k, e in _flat(sp0.effects) if k == "unpack"]
    if not unp0 or str(unp0[0].args[0]) not in ("<i", "<l"):
        rep.ob("R9", FQ, "long:digit-loop" + tag, False, expected="a signed 32-bit size field read first", derived=[str(e.args[0]) for e in unp0[:2]])
        return
    n_repr = "fld(%s,%s,0)" % (show(unp0[0].args[3]), unp0[0].args[0])
    DIG = [0x7FFF, 0x0001, 0x1234, 0x4000, 0x2AAA]
    fmt_bad, cnt_bad, acc_bad, sign_bad = [], [], [], []
    for size in (-5, -3, -1, 0, 1, 2, 4):
        try:
            sp, out = run_with({n_repr: size})
        except Exception as ex:
            cnt_bad.append("size %d: not evaluable (%s)" % (size, ex))
            continue
        unp = [e for k, e in _flat(sp.effects) if k == "unpack"][1:]
        for e in unp:
            if str(e.args[0]) not in ("<h", "<H"):
                fmt_bad.append(str(e.args[0]))
        if len(unp) != abs(size):
            cnt_bad.append("size %d: %d digits read" % (size, len(unp)))
            continue
        rets = [l.value for g, l in leaves(out) if isinstance(l, Ret)]
        if len(rets) != 1:
            acc_bad.append("size %d: %d results" % (size, len(rets)))
            continue
        v = rets[0]
        if isinstance(v, _Inst):
            v = getattr(v, "prim", v.attrs.get("value"))
        val = {"fld(%s,%s,0)" % (show(e.args[3]), e.args[0]): DIG[j] for j, e in enumerate(unp)}
        try:
            got = eval_term(v, val)
        except Exception as ex:
            acc_bad.append("size %d: result %s not evaluable (%s)" % (size, show(v)[:60], ex))
            continue
        mag = sum(DIG[j] << (15 * j) for j in range(abs(size)))
        if not isinstance(got, int) or isinstance(got, bool) or abs(got) != mag:
            acc_bad.append("size %d: %s -> %r, magnitude should be %d" % (size, show(v)[:60], got, mag))
        elif got != (-mag if size < 0 else mag):
            sign_bad.append("size %d: %r, expected %d" % (size, got, -mag if size < 0 else mag))
    rep.ob("R9", FQ, "long:digit-format" + tag, not fmt_bad, expected="<h", derived=sorted(set(fmt_bad)) or "<h")
    rep.ob("R9", FQ, "long:digit-count" + tag, not cnt_bad, expected="|n| digits for size fields -5, -3, -1, 0, 1, 2, 4", derived=cnt_bad[:3] or "equal",
           msg="the number of digits read is not the absolute value of the size field: %s" % "; ".join(cnt_bad[:2]))
    rep.ob("R9", FQ, "long:accumulation" + tag, not acc_bad and not cnt_bad, expected="magnitude = sum(digit_j << 15*j)", derived=acc_bad[:3] or ("equal" if not cnt_bad else "not evaluated"),
           msg="the digits of a TYPE_LONG are combined with the wrong weights: %s" % "; ".join(acc_bad[:2]))
    rep.ob("R9", FQ, "long:sign" + tag, not sign_bad and not acc_bad and not cnt_bad, expected="-magnitude when n < 0, +magnitude otherwise",
           derived=sign_bad[:3] or ("equal" if not (acc_bad or cnt_bad) else "not evaluated"),
           msg="the sign of a TYPE_LONG does not follow the sign of its size field: %s" % "; ".join(sign_bad[:2]))


def dict_script(T, cls, f, passed, version, null_value):
    """t_dict decided independently of how its loop is written: the reader is run with r_object replaced by a script of concrete objects ending in the
    unmarshaller's own NULL sentinel; the dict it returns and the number of objects it consumed are compared with marshal.c's r_object loop
    (read key; NULL ends; read value; NULL ends; store).  Returns a list of disagreements."""
    from ..marshal_read import new_instance
    from ..sve import Ret, Spec, leaves
    bad = []
    N = null_value
    for script, want, nread in ((["k1", "v1", "k2", "v2", N], {"k1": "v1", "k2": "v2"}, 5), (["k1", N], {}, 2), ([None, "v1", N], {None: "v1"}, 3), (["k1", None, N], {"k1": None}, 3),
                                ([N], {}, 1), ([0, False, "", (), N, "x"], {0: False, "": ()}, 5)):
        it = iter(script)
        n = [0]

        def hook(spec, name, fv, args, kw, node, it=it, n=n):
            if name.endswith(".r_object"):
                n[0] += 1
                try:
                    return next(it)
                except StopIteration:
                    return Sym("past-end-of-script")
            return NotImplemented
        sp = Spec(T.F, hooks=[hook], opaque_funcs={"to_portable"})
        inst = new_instance(cls, passed, version)
        label = [("NULL" if x is N else repr(x)) for x in script]
        try:
            out = sp.run(f, [inst, True, False])
            rets = [l.value for g, l in leaves(out) if isinstance(l, Ret)]
        except Exception as ex:
            bad.append("%s: not evaluable (%s)" % (label, ex))
            continue
        if len(rets) != 1 or not isinstance(rets[0], dict) or rets[0] != want or n[0] != nread:
            bad.append("objects %s -> %s after %d reads (expected %r after %d)" % (label, [show(r) for r in rets][:2], n[0], want, nread))
    return bad


def _flat(effects):
    from ..sve import flatten_effects
    return flatten_effects(effects)


def reader_obligations(rep, T, want_rules=("R1", "R2", "R3", "R5", "R7", "R8", "R9")):
    um, cls, tbl = unmarshaller(T)
    spec = ref_json("marshal_format.json")
    rows = spec["rows"]
    rep.floor("marshal type codes in reference", len(rows), 30)
    acc = accepted_magics(T)
    rep.floor("accepted magics", len(acc), 150)
    universe = [tuple(v[:2]) for _, _, v in acc]
    readers = {}
    for r in rows:
        code = r["code"]
        ok = code in tbl
        rep.ob("R1", "xdis.unmarshal.UNMARSHAL_DISPATCH_TABLE", "code=%r:present" % code, ok, expected=r["name"], derived=tbl.get(code),
               msg="marshal type code %r (%s) has no entry in the dispatch table" % (code, r["name"]))
        if not ok:
            continue
        suffix = tbl[code]
        f = cls.lookup("t_" + suffix) if isinstance(suffix, str) else None
        ok = isinstance(f, FuncRef)
        rep.ob("R1", "xdis.unmarshal.UNMARSHAL_DISPATCH_TABLE", "code=%r:resolves" % code, ok, expected="a t_* method", derived="t_%s" % suffix,
               msg="dispatch entry %r -> t_%s does not name a method of the unmarshaller" % (code, suffix))
        if ok:
            readers[code] = (suffix, f)
            rep.analysed(f.qualname)
    # r_object's own decoding of the type byte
    # ------------------------------------------------------------ per (code, magic) summaries, grouped
    groups = collections.OrderedDict()  # (code, aspect, sig) -> [versions]
    details = {}
    nconf = 0
    for code, (suffix, f) in sorted(readers.items()):
        row = [r for r in rows if r["code"] == code][0]
        if row["payload"] == [["code"]]:
            continue
        for mg, passed, version in acc:
            v2 = tuple(version[:2])
            mv = marshal_version(version, passed)
            if mv < row["since"]:
                continue
            nconf += 1
            rs = summarise_reader(T, cls, suffix, passed, version)
            where = "xdis/unmarshal.py:%d" % rs.line
            exp_shape = row["payload"]
            # R1 shape
            got_shape = repr(rs.shape)
            if code == "{" and "0" in readers:
                # the dict reader has no count: its loop is decided by running it on scripted objects (any loop form), see dict_script
                rn0 = summarise_reader(T, cls, readers["0"][0], passed, version)
                nv0 = rn0.returns[0][1] if rn0 and rn0.returns else None
                dbad = dict_script(T, cls, f, passed, version, nv0)
                got_shape = repr(exp_shape) if not dbad else "scripted runs disagree: %s" % "; ".join(dbad[:2])
            groups.setdefault((code, suffix, "shape", got_shape, repr(exp_shape), where), []).append(v2)
            # R1 kind (an integer read from a Python 2 file may be the 'L'-suffixed long wrapper; a Python 3 integer is a plain int)
            exp_k = row["kind"]
            got_k = rs.kind
            if exp_k == "int" and "py2-long" in got_k:
                parts = set(got_k.split("|"))
                parts = {("int" if v2 < (3, 0) else "py2-long (repr ends in 'L')") if p_ == "py2-long" else p_ for p_ in parts}
                got_k = "|".join(sorted(parts))
            groups.setdefault((code, suffix, "kind", got_k, exp_k, where), []).append(v2)
            # R2 formats
            for det, msg in rs.fmt_problems:
                groups.setdefault((code, suffix, "fmt:" + det, msg, "width/endianness agree", where), []).append(v2)
            groups.setdefault((code, suffix, "fmt-ok", "ok" if not rs.fmt_problems else "bad", "ok", where), []).append(v2)
            # R3 reference table
            if mv >= 3:
                groups.setdefault((code, suffix, "ref", rs.ref, row["flagref"], where), []).append(v2)
                for det, msg in rs.ref_problems:
                    groups.setdefault((code, suffix, "ref:" + det, msg, row["flagref"], where), []).append(v2)
                rs0 = summarise_reader(T, cls, suffix, passed, version, save_ref=False)
                for det, msg in rs0.ref_problems:
                    groups.setdefault((code, suffix, "ref:" + det, msg, "nothing registered without FLAG_REF", where), []).append(v2)
            # R5 containers hand their own bytes_for_s setting to every child
            if rs.child_bfs:
                bad = sorted(set(b for b in rs.child_bfs if b != "bytes_for_s"))
                groups.setdefault((code, suffix, "child-bytes_for_s", repr(bad), "[]", where), []).append(v2)
            # R5 text decoding of TYPE_UNICODE for py3 producers
            if code == "u" and v2 >= (3, 1):
                dec = tuple(str(x) for x in (rs.decode or ()))
                groups.setdefault((code, suffix, "decode", repr(dec), "utf-8 with surrogatepass", where), []).append(v2)
            # R8 interned strings (py2 string table)
            if code == "t":
                groups.setdefault((code, suffix, "interned-appends", str(rs.intern_string_appends), "1", where), []).append(v2)
            if code == "R":
                groups.setdefault((code, suffix, "interned-appends", str(rs.intern_string_appends), "0", where), []).append(v2)
    rep.configurations += nconf
    for (code, suffix, aspect, got, exp, where), vs in groups.items():
        lab = vlabel(vs, universe)
        construct = "xdis.unmarshal._VersionIndependentUnmarshaller.t_%s" % suffix
        if aspect == "shape":
            ok = got == exp
            rule = "R1"
            msg = "type %r: payload read as %s, format is %s" % (code, got, exp)
        elif aspect == "kind":
            ok = got in KIND_OK.get(exp, {exp})
            if exp == "null-sentinel":
                ok = True  # decided by R7
            rule = "R1"
            msg = "type %r decodes to a %s, the format says %s" % (code, got, exp)
        elif aspect == "fmt-ok":
            ok, rule, msg = True, "R2", ""
            if got != "ok":
                continue
        elif aspect.startswith("fmt:"):
            ok, rule, msg = False, "R2", got
        elif aspect == "ref":
            ok = got in REF_OK[exp]
            rule = "R3"
            msg = "type %r: reference-table behaviour is '%s', marshal.c's is '%s'" % (code, got, exp)
            if not ok and got in ("bad",):
                continue  # the specific ref:* entries describe it
        elif aspect.startswith("ref:"):
            ok, rule, msg = False, "R3", got
        elif aspect == "child-bytes_for_s":
            ok = got == exp
            rule = "R5"
            msg = "type %r reads its children with bytes_for_s=%s instead of the setting it was called with: strings inside this container get the wrong kind (bytes vs text)" % (code, got)
        elif aspect == "decode":
            ok = ("surrogatepass" in got) and ("utf" in got.lower())
            rule = "R5"
            msg = "TYPE_UNICODE payload decoded with %s; CPython 3 decodes utf-8 with errors='surrogatepass' (lone surrogates are legal in constants)" % got
        elif aspect == "interned-appends":
            ok = got == exp
            rule = "R8"
            msg = "type %r appends %s times to the interned-string table, expected %s" % (code, got, exp)
        else:
            continue
        if rule not in want_rules:
            continue
        det = aspect if aspect.count(":") == 0 else aspect
        rep.ob(rule, construct, "code=%r:%s@%s" % (code, det, lab), ok, expected=exp, derived=got, where=where, msg=msg if not ok else None)
    # ------------------------------------------------------------ R9: digits of TYPE_LONG
    if "R9" in want_rules and "l" in readers:
        for probe in [a for a in acc if tuple(a[2][:2]) in ((2, 7), (3, 8))][:2] or acc[:1]:
            long_digits_rule(rep, T, cls, readers["l"][1], probe)
    # ------------------------------------------------------------ R7: NULL sentinel
    if "R7" in want_rules:
        some = [a for a in acc if tuple(a[2][:2]) >= (3, 8)][:1] or acc[:1]
        mg, passed, version = some[0]
        null = readers.get("0")
        if null:
            rn = summarise_reader(T, cls, null[0], passed, version)
            nv = rn.returns[0][1] if rn.returns else None
            clash = []
            for code, (suffix, f) in sorted(readers.items()):
                if code in ("0", "c", "C"):
                    continue
                rs = summarise_reader(T, cls, suffix, passed, version)
                for g, v in rs.returns:
                    if not isinstance(v, (Sym, Op)) and (v is nv or (type(v) == type(nv) and not isinstance(v, Instance) and v == nv)):
                        clash.append("t_%s" % suffix)
            rep.ob("R7", "xdis.unmarshal._VersionIndependentUnmarshaller.t_%s" % null[0], "null-distinguishable", not clash,
                   expected="a value no other reader can return", derived="%s, also returned by %s" % (show(nv), sorted(set(clash))) if clash else show(nv),
                   where="xdis/unmarshal.py:%d" % rn.line,
                   msg="the NULL terminator decodes to %s, which %s also return: a dict with that key or value is truncated" % (show(nv), sorted(set(clash))))
            d = readers.get("{")
            if d:
                dbad = dict_script(T, cls, d[1], passed, version, nv) if not clash else ["the NULL sentinel is not distinguishable"]
                rep.ob("R7", "xdis.unmarshal._VersionIndependentUnmarshaller.t_%s" % d[0], "dict-terminates-only-on-null", not dbad,
                       expected="pairs are read until the key (or the value) IS the NULL sentinel; None, 0, False, '' and () are ordinary keys and values",
                       derived=dbad[:3] or "6 scripted object sequences agree", where="xdis/unmarshal.py:%d" % d[1].node.lineno,
                       msg="the dict reader does not stop exactly at the NULL terminator: %s" % "; ".join(dbad[:2]))
    return acc, readers
