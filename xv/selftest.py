"""Self-test of the checkers (DESIGN.md section 7): must-fire mutants and must-stay-silent variants.

Each case edits a scratch copy of /repo's *current* xdis package (under $TMPDIR or /dev/shm, removed afterwards) and runs one
check against it with XV_REPO pointing at the copy.
  must-fire   : the check must exit 1 and a VIOLATION key must contain the expected fragment
  silent      : a behaviour-preserving edit; the check must exit 0 with no new VIOLATION
A case whose anchor text is no longer present in the tree is reported as 'skipped (anchor text changed)', never as a failure.
Usage:  ./check --selftest [Cxx ...] [--jobs N]"""
import json
import os
import shutil
import subprocess
import sys
import tempfile
import time
from concurrent.futures import ThreadPoolExecutor

HERE = os.path.dirname(os.path.dirname(os.path.abspath(__file__)))
REPO = os.environ.get("XV_REPO", "/repo")

# (id, property, kind, file, old, new, expected key fragment)
CASES = [
    # ---------------- C01 / C10 marshal reader
    ("m-c01-swap-cellfree", "C01", "fire", "xdis/unmarshal.py", "            co_freevars=co_freevars,\n            co_cellvars=co_cellvars,\n            co_exceptiontable=co_exceptiontable,",
     "            co_freevars=co_cellvars,\n            co_cellvars=co_freevars,\n            co_exceptiontable=co_exceptiontable,", "binding:co_"),
    ("m-c01-gate-38", "C01", "fire", "xdis/unmarshal.py", "        if self.version_tuple >= (3, 8):\n            co_posonlyargcount", "        if self.version_tuple > (3, 8):\n            co_posonlyargcount", "field-sequence"),
    ("m-c01-h-width", "C01", "fire", "xdis/unmarshal.py", "            co_stacksize = unpack(\"<h\", self.fp.read(2))[0]", "            co_stacksize = unpack(\"<i\", self.fp.read(4))[0]", "field-sequence"),
    ("m-c01-localsplus-mask", "C01", "fire", "xdis/unmarshal.py", "            CO_FAST_CELL = 0x40", "            CO_FAST_CELL = 0x80", "localsplus"),
    ("m-c01-lnotab-text", "C01", "fire", "xdis/unmarshal.py", "                co_lnotab = self.r_object(bytes_for_s=True)", "                co_lnotab = self.r_object(bytes_for_s=bytes_for_s)", "bytes_for_s:linetable"),
    ("m-c01-code-noreserve", "C01", "fire", "xdis/unmarshal.py", "        ret, i = self.r_ref_reserve(None, save_ref)\n        self.version_tuple", "        ret, i = None, None\n        self.version_tuple", "code:ref"),
    ("m-c10-swap-set", "C10", "fire", "xdis/unmarshal.py", "    \"<\": \"set\",\n    \">\": \"frozenset\",", "    \"<\": \"frozenset\",\n    \">\": \"set\",", "kind@"),
    ("m-c10-int-unsigned", "C10", "fire", "xdis/unmarshal.py", "        return self.r_ref(int(unpack(\"<i\", self.fp.read(4))[0]), save_ref)", "        return self.r_ref(int(unpack(\"<I\", self.fp.read(4))[0]), save_ref)", "code='i':shape"),
    ("m-c10-short-len", "C10", "fire", "xdis/unmarshal.py", "    def t_short_ASCII(self, save_ref, bytes_for_s=False):\n        strsize = unpack(\"B\", self.fp.read(1))[0]",
     "    def t_short_ASCII(self, save_ref, bytes_for_s=False):\n        strsize = unpack(\"<i\", self.fp.read(4))[0]", "code='z':shape"),
    ("m-c10-list-late-ref", "C10", "fire", "xdis/unmarshal.py", "        ret = self.r_ref(list(), save_ref)\n        while n > 0:\n            ret += (self.r_object(bytes_for_s=bytes_for_s),)\n            n -= 1\n        return ret",
     "        ret = list()\n        while n > 0:\n            ret += (self.r_object(bytes_for_s=bytes_for_s),)\n            n -= 1\n        return self.r_ref(ret, save_ref)", "code='[':ref"),
    ("m-c10-dict-none", "C10", "fire", "xdis/unmarshal.py", "            if key is _NULL:\n                break", "            if key is _NULL or key is None:\n                break", "dict-terminates"),
    ("m-c10-smalltuple-noinsert", "C10", "fire", "xdis/unmarshal.py", "            tuplesize -= 1\n            pass\n        return self.r_ref_insert(ret, i)", "            tuplesize -= 1\n            pass\n        return ret", "code=')':ref"),
    ("m-c10-ref-singleton", "C10", "fire", "xdis/unmarshal.py", "    def t_Ellipsis(self, save_ref, bytes_for_s=False):\n        return Ellipsis", "    def t_Ellipsis(self, save_ref, bytes_for_s=False):\n        return self.r_ref(Ellipsis, save_ref)", "code='.':ref"),
    ("s-c10-list-comprehension", "C10", "silent", "xdis/unmarshal.py", "        ret = self.r_ref(list(), save_ref)\n        while n > 0:\n            ret += (self.r_object(bytes_for_s=bytes_for_s),)\n            n -= 1\n        return ret",
     "        ret = self.r_ref(list(), save_ref)\n        ret.extend([self.r_object(bytes_for_s=bytes_for_s) for _ in range(n)])\n        return ret", ""),
    ("m-c10-child-bfs", "C10", "fire", "xdis/unmarshal.py", "        while setsize > 0:\n            ret += (self.r_object(bytes_for_s=bytes_for_s),)\n            setsize -= 1\n        return self.r_ref_insert(set(ret), i)",
     "        while setsize > 0:\n            ret += (self.r_object(bytes_for_s=self.bytes_for_s),)\n            setsize -= 1\n        return self.r_ref_insert(set(ret), i)", "child-bytes_for_s"),
    ("m-c10-strict-decode", "C10", "fire", "xdis/unmarshal.py", "            string = unicodestring.decode(\"utf-8\", \"surrogatepass\")", "            string = unicodestring.decode()", "decode@"),
    ("s-c10-rename-local", "C10", "silent", "xdis/unmarshal.py", "        setsize = unpack(\"<i\", self.fp.read(4))[0]\n        ret, i = self.r_ref_reserve(tuple(), save_ref)\n        while setsize > 0:\n            ret += (self.r_object(bytes_for_s=bytes_for_s),)\n            setsize -= 1\n        return self.r_ref_insert(frozenset(ret), i)",
     "        count = unpack(\"<i\", self.fp.read(4))[0]\n        items, slot = self.r_ref_reserve(tuple(), save_ref)\n        while count > 0:\n            items += (self.r_object(bytes_for_s=bytes_for_s),)\n            count -= 1\n        return self.r_ref_insert(frozenset(items), slot)", ""),
    # ---------------- C02 / C03 / C04 decoder
    ("m-c02-ext-shift", "C02", "fire", "xdis/bytecode.py", "                extended_arg = (arg << 8) if opname == \"EXTENDED_ARG\" else 0", "                extended_arg = (arg << 16) if opname == \"EXTENDED_ARG\" else 0", "ext-carry"),
    ("m-c02-hi-byte", "C02", "fire", "xdis/bytecode.py", "                    + code2num(bytecode, i + 1) * 0x100", "                    + code2num(bytecode, i + 1) * 0x10", ":arg"),
    ("m-c02-size-36", "C02", "fire", "xdis/cross_dis.py", "        return 2 if opc.version_tuple >= (3, 6) else 3", "        return 2 if opc.version_tuple > (3, 6) else 3", ":width"),
    ("m-c02-unpacker-310", "C02", "fire", "xdis/cross_dis.py", "            arg = code2num(code, offset + 1) | extended_arg\n            extended_arg = extended_arg_val(opc, arg) if op == opc.EXTENDED_ARG else 0",
     "            arg = code2num(code, offset + 1)\n            extended_arg = extended_arg_val(opc, arg) if op == opc.EXTENDED_ARG else 0", "unpack_opargs_bytecode_310"),
    ("m-c02-driver-first", "C02", "fire", "xdis/bytecode.py", "        offset = next_offset(instruction.opcode, opc, instruction.offset)", "        offset = next_offset(instructions[0].opcode, opc, instructions[0].offset)", "driver-next-offset"),
    ("s-c02-mul-shift", "C02", "silent", "xdis/bytecode.py", "                    + code2num(bytecode, i + 1) * 0x100", "                    + (code2num(bytecode, i + 1) << 8)", ""),
    ("m-c03-global-shift", "C03", "fire", "xdis/bytecode.py", "                if opc.version_tuple >= (3, 11) and opname == \"LOAD_GLOBAL\":\n                    argval, argrepr = _get_name_info(arg >> 1, names)",
     "                if opc.version_tuple >= (3, 12) and opname == \"LOAD_GLOBAL\":\n                    argval, argrepr = _get_name_info(arg >> 1, names)", "LOAD_GLOBAL:index"),
    ("m-c03-cmp-shift", "C03", "fire", "xdis/bytecode.py", "                    argval = opc.cmp_op[arg >> 5]", "                    argval = opc.cmp_op[arg >> 4]", "COMPARE_OP:index"),
    ("m-c03-free-table", "C03", "fire", "xdis/bytecode.py", "                else:\n                    argval, argrepr = _get_name_info(arg, cells)", "                else:\n                    argval, argrepr = _get_name_info(arg, varnames)", ":table"),
    ("m-c03-pair-mask", "C03", "fire", "xdis/bytecode.py", "                    arg2 = arg & 15", "                    arg2 = arg & 7", "argval"),
    ("m-c03-cells-order", "C03", "fire", "xdis/bytecode.py", "                self._cell_names = co.co_cellvars + co.co_freevars", "                self._cell_names = co.co_freevars + co.co_cellvars", "tables-passed"),
    ("m-c04-310-scale", "C04", "fire", "xdis/bytecode.py", "    return jump_arg * 2 if version[:2] >= (3, 10) else jump_arg", "    return jump_arg * 2 if version[:2] > (3, 10) else jump_arg", ":target"),
    ("m-c04-finder-cache", "C04", "fire", "xdis/cross_dis.py", "        \"POP_JUMP_IF_NONE\": 1,", "        \"POP_JUMP_IF_NONE\": 0,", "POP_JUMP_IF_NONE"),
    ("m-c04-finder-abs", "C04", "fire", "xdis/cross_dis.py", "                jump_offset = offset + op_len + arg\n            elif op in opc.JABS_OPS:\n                jump_offset = arg\n            if jump_offset >= 0:\n                if jump_offset not in offsets:",
     "                jump_offset = offset + op_len + arg\n            elif op in opc.JABS_OPS:\n                jump_offset = arg + 1\n            if jump_offset >= 0:\n                if jump_offset not in offsets:", ":label"),
    ("m-c04-labels-param", "C04", "fire", "xdis/bytecode.py", "        is_jump_target = i in labels\n", "        is_jump_target = offset in labels and i != 0\n", "is_jump_target"),
    ("m-c04-wordcode-send", "C04", "fire", "xdis/wordcode.py", "opc.opname[op] in (\"FOR_ITER\", \"SEND\")", "opc.opname[op] in (\"FOR_ITER\",)", "SEND:label"),
    # ---------------- C05
    ("m-c05-sign", "C05", "fire", "xdis/cross_dis.py", "                if signed_line_delta and line_delta >= 0x80:", "                if signed_line_delta and line_delta > 0x80:", "two-pairs(dup_lines=False)"),
    ("m-c05-unsigned-gate", "C05", "fire", "xdis/opcodes/base.py", "    if version_tuple is None or version_tuple <= (3, 5):\n        loc[\"findlinestarts\"] = findlinestarts_unsigned", "    if version_tuple is None or version_tuple <= (3, 6):\n        loc[\"findlinestarts\"] = findlinestarts_unsigned", "line-delta-signedness"),
    ("m-c05-unsigned-dropped", "C05", "fire", "xdis/cross_dis.py", "    return findlinestarts(code, dup_lines=dup_lines, signed_line_delta=False)", "    return findlinestarts(code, dup_lines=dup_lines)", "line-delta-signedness"),
    ("m-c05-310-128", "C05", "fire", "xdis/codetype/code310.py", "            if line_delta != -128:", "            if line_delta != -127:", "minus128"),
    ("m-c05-end-check-before-increment", "C05", "fire", "xdis/cross_dis.py", "                    offset += byte_incr\n                    if stop_at_code_end and offset >= bytecode_len:",
     "                    if stop_at_code_end and offset >= bytecode_len:\n                        return\n                    offset += byte_incr\n                    if False:", "end-of-code@3.8"),
    ("m-c05-end-check-38-gate", "C05", "fire", "xdis/opcodes/base.py", "            if (3, 8) <= tuple(version_tuple[:2]) < (3, 10)", "            if (3, 9) <= tuple(version_tuple[:2]) < (3, 10)", "end-of-code@3.8"),
    ("m-c05-end-check-for-all", "C05", "fire", "xdis/cross_dis.py", "                    if stop_at_code_end and offset >= bytecode_len:", "                    if offset >= bytecode_len:", "end-of-code@"),
    ("s-c05-end-check-rewritten", "C05", "silent", "xdis/cross_dis.py", "                    offset += byte_incr\n                    if stop_at_code_end and offset >= bytecode_len:",
     "                    offset = offset + byte_incr\n                    past_end = not offset < bytecode_len\n                    if past_end and stop_at_code_end:", ""),
    ("m-c05-none-313", "C05", "fire", "xdis/opcodes/opcode_313.py", "        if line is not lastline:", "        if line is not None and line is not lastline:", "3.13:guard"),
    # ---------------- C06 / C08 / C09
    ("m-c06-flag-byte", "C06", "fire", "xdis/load.py", "                pep_bits = ts[0]", "                pep_bits = ts[1]", "pep552-flag-term"),
    ("m-c06-size-gate", "C06", "fire", "xdis/load.py", "                    (3200 <= magic_int < 20121)", "                    (3240 <= magic_int < 20121)", ":reads"),
    ("s-c06-size-gate-interim", "C06", "silent", "xdis/load.py", "                    (3200 <= magic_int < 20121)", "                    (3220 <= magic_int < 20121)", ""),
    ("m-c06-37-gate", "C06", "fire", "xdis/load.py", "            if magic_int in (3439,) or version >= (3, 7):", "            if magic_int in (3439,) or version > (3, 7):", ""),
    ("m-c06-ts-signed", "C06", "fire", "xdis/load.py", "                    timestamp = unpack(\"<I\", fp.read(4))[0]  # pep552_bits", "                    timestamp = unpack(\"<i\", fp.read(4))[0]  # pep552_bits", "timestamp"),
    ("m-c08-magic-row", "C08", "fire", "xdis/magics.py", "add_magic_from_int(3420, \"3.9.0a0\")", "add_magic_from_int(3420, \"3.8.0a0\")", "magic=3420:version"),
    ("m-c08-canonic", "C08", "fire", "xdis/magics.py", "    \"3.13 3.13.0 3.13.1\",\n    \"3.13.0rc3\",", "    \"3.13 3.13.0 3.13.1\",\n    \"3.13a6\",", "release=3.13"),
    ("m-c08-jython-suffix", "C08", "fire", "xdis/magics.py", "    version = re.sub(r\"(pypy|dropbox)$\", \"\", orig_version)", "    version = re.sub(r\"(pypy|dropbox|Jython)$\", \"\", orig_version)", "magic=1011"),
    ("m-c08-int2magic", "C08", "fire", "xdis/magics.py", "        return struct.pack(\"<H\", magic_int) + b\"\\x99\\x00\"", "        return struct.pack(\">H\", magic_int) + b\"\\x99\\x00\"", "u16le-then-tail"),
    ("m-c09-category", "C09", "fire", "xdis/opcodes/opcode_38.py", "jrel_op(l, \"CALL_FINALLY\",    162,     0, 1)", "jabs_op2 = None\ndef_op(l, \"CALL_FINALLY\",    162,     0, 1)", "hasjrel"),
    ("m-c09-313-number", "C09", "fire", "xdis/opcodes/opcode_313.py", "def_op(loc, \"SEND\"                             , 104 , 0 , 0)", "def_op(loc, \"SEND\"                             , 105 , 0 , 0)", "SEND"),
    ("m-c09-27pypy", "C09", "fire", "xdis/opcodes/opcode_27pypy.py", "jrel_op(loc, \"JUMP_IF_NOT_DEBUG\", 204, conditional=True)", "jrel_op(loc, \"JUMP_IF_NOT_DEBUG\", 203, conditional=True)", "opcode_27pypy"),
    # ---------------- C11 / C12 / C18 / C20
    ("m-c11-narrow-except", "C11", "fire", "xdis/load.py", "        except Exception:\n            kind, msg = sys.exc_info()[0:2]", "        except (ValueError, EOFError):\n            kind, msg = sys.exc_info()[0:2]", "call:"),
    ("m-c11-raise-other", "C11", "fire", "xdis/load.py", "                raise ImportError(\"This smells like Pyston which is not supported.\")", "                raise ValueError(\"This smells like Pyston which is not supported.\")", "raise:"),
    ("m-c11-eval", "C11", "fire", "xdis/unmarshal.py", "        s = self.fp.read(strsize)\n        return self.r_ref(float(s), save_ref)", "        s = self.fp.read(strsize)\n        return self.r_ref(eval(s), save_ref)", "sink:builtin:eval"),
    ("m-c11-spin", "C11", "fire", "xdis/unmarshal.py", "        for j in range(0, size):\n            md = int(unpack(\"<h\", self.fp.read(2))[0])", "        md = int(unpack(\"<h\", self.fp.read(2))[0])\n        for j in range(0, size):", "reads-every-iteration"),
    ("m-c11-read-negative", "C11", "fire", "xdis/marsh.py", "def _read(self, n):\n    if n < 0:\n        raise ValueError(\"bad marshal data (negative size)\")\n", "def _read(self, n):\n", "cursor-store"),
    ("s-c11-read-combined-check", "C11", "silent", "xdis/marsh.py", "def _read(self, n):\n    if n < 0:\n        raise ValueError(\"bad marshal data (negative size)\")\n    pos = self.bufpos\n    newpos = pos + n\n    if newpos > len(self.bufstr):",
     "def _read(self, n):\n    pos = self.bufpos\n    newpos = pos + n\n    if n < 0 or newpos > len(self.bufstr):", ""),
    ("m-c11-read1-noadvance", "C11", "fire", "xdis/marsh.py", "    ret = self.bufstr[self.bufpos]\n    self.bufpos += 1\n    return ret", "    ret = self.bufstr[self.bufpos]\n    return ret", "advances"),
    ("m-c11-prealloc-list", "C11", "fire", "xdis/unmarshal.py", "        ret = self.r_ref(list(), save_ref)\n        while n > 0:\n            ret += (self.r_object(bytes_for_s=bytes_for_s),)\n            n -= 1\n        return ret",
     "        ret = self.r_ref([None] * n, save_ref)\n        for j in range(n):\n            ret[j] = self.r_object(bytes_for_s=bytes_for_s)\n        return ret", "repeat:"),
    ("m-c11-prealloc-buffer", "C11", "fire", "xdis/unmarshal.py", "        strsize = unpack(\"<i\", self.fp.read(4))[0]\n        interned = compat_str(self.fp.read(strsize))", "        strsize = unpack(\"<i\", self.fp.read(4))[0]\n        buf = bytearray(strsize)\n        self.fp.readinto(buf)\n        interned = compat_str(bytes(buf))", "sized-buffer"),
    ("s-c11-bounded-prealloc", "C11", "silent", "xdis/unmarshal.py", "        ret = self.r_ref(list(), save_ref)\n        while n > 0:\n            ret += (self.r_object(bytes_for_s=bytes_for_s),)\n            n -= 1\n        return ret",
     "        if n > 1 << 20:\n            raise ValueError(\"list too long\")\n        ret = self.r_ref([None] * n, save_ref)\n        del ret[:]\n        while n > 0:\n            ret += (self.r_object(bytes_for_s=bytes_for_s),)\n            n -= 1\n        return ret", ""),
    ("m-c11-jython-suffix", "C11", "fire", "xdis/magics.py", "    version = re.sub(r\"(pypy|dropbox)$\", \"\", orig_version)", "    version = re.sub(r\"(pypy|dropbox|Graal|Jython|Pyston)$\", \"\", orig_version)", ":exits"),
    ("m-c11-dict-noread", "C11", "fire", "xdis/marsh.py", "        d = {}\n        while 1:\n            key = self.load()\n            if key is _NULL:\n                break\n            value = self.load()\n            d[key] = value\n        return d",
     "        d = {}\n        key = self.load()\n        value = self.load()\n        while 1:\n            if key is _NULL:\n                break\n            d[key] = value\n        return d", "advances-every-iteration"),
    ("m-c12-print", "C12", "fire", "xdis/cross_dis.py", "    if opc.version_tuple < (3, 10):\n        return findlabels_pre_310(code, opc)", "    if opc.version_tuple < (3, 10):\n        print(\"pre-310\")\n        return findlabels_pre_310(code, opc)", "stdout:"),
    ("m-c12-skip", "C12", "fire", "xdis/bytecode.py", "            if instr.opname == \"CACHE\" and asm_format not in (", "            if instr.opname in (\"CACHE\", \"NOP\") and asm_format not in (", "every-opcode-name-rendered-once"),
    ("m-c12-offset-col", "C12", "fire", "xdis/instruction.py", "            fields.append(repr(self.offset).rjust(4))", "            fields.append(repr(self.arg).rjust(4))", ":row"),
    ("s-c12-offset-col-percent-d", "C12", "silent", "xdis/instruction.py", "            fields.append(repr(self.offset).rjust(4))", "            fields.append(\"%4d\" % self.offset)", ""),
    ("m-c18-cache", "C18", "fire", "xdis/disasm.py", "def get_opcode(version_tuple, is_pypy, alternate_opmap=None):\n    # Set up disassembler with the right opcodes\n    lookup",
     "def get_opcode(version_tuple, is_pypy, alternate_opmap=None):\n    op_imports.setdefault(\"last\", None)\n    op_imports[\"last\"] = version_tuple\n    lookup", "write:global:xdis.op_imports.op_imports"),
    ("m-c18-default", "C18", "fire", "xdis/cross_dis.py", "def findlabels_pre_310(code, opc):\n    \"\"\"Returns a list of instruction offsets in the supplied bytecode\n    which are the targets of some sort of jump instruction.\n    \"\"\"\n    offsets = []",
     "def findlabels_pre_310(code, opc, offsets=[]):\n    \"\"\"Returns a list of instruction offsets in the supplied bytecode\n    which are the targets of some sort of jump instruction.\n    \"\"\"", "write:default:"),
    ("m-c20-firstline", "C20", "fire", "xdis/bytecode.py", "            line_offset = first_line - co.co_firstlineno\n        else:\n            line_offset = 0\n        return get_instructions_bytes(", "            line_offset = first_line\n        else:\n            line_offset = 0\n        return get_instructions_bytes(", "line_offset=first_line"),
    ("m-c20-global-api", "C20", "fire", "xdis/std.py", "                    opc = api_opc", "                    opc = _std_api.opc", "decodes-with-api-table"),
    ("m-c20-probe", "C20", "fire", "xdis/cross_dis.py", "    elif hasattr(x, \"ag_code\"):  # ...an asynchronous generator object, or\n        x = x.ag_code\n", "", "probes@"),
    # ---------------- C13 / C14 / C15 / C16 / C17 / C19
    ("m-c13-header-size", "C13", "fire", "xdis/load.py", "    if version >= (3, 3):\n        # In Python 3.3+, these 4 bytes are the size", "    if version >= (3, 4):\n        # In Python 3.3+, these 4 bytes are the size", ":header"),
    ("m-c13-field-order", "C13", "fire", "xdis/marsh.py", "        self.dump(x.co_freevars)\n        self.dump(x.co_cellvars)\n        self.dump(x.co_filename)", "        self.dump(x.co_cellvars)\n        self.dump(x.co_freevars)\n        self.dump(x.co_filename)", "layout@"),
    ("m-c14-type-const", "C14", "fire", "xdis/marsh.py", "TYPE_FROZENSET = \">\"", "TYPE_FROZENSET = \"<\"", "const:TYPE_FROZENSET"),
    ("m-c14-digit-bits", "C14", "fire", "xdis/marsh.py", "            digits.append(x & 0x7FFF)\n            x = x >> 15", "            digits.append(x & 0xFFFF)\n            x = x >> 16", "15-bit"),
    ("m-c14-rshort-sign", "C14", "fire", "xdis/marsh.py", "def _r_short(self):\n    lo = Ord(_read1(self))\n    hi = Ord(_read1(self))\n    x = lo | (hi << 8)\n    if x & 0x8000:", "def _r_short(self):\n    lo = Ord(_read1(self))\n    hi = Ord(_read1(self))\n    x = lo | (hi << 8)\n    if x & 0x4000:", "_r_short"),
    ("m-c15-callkw", "C15", "fire", "xdis/cross_dis.py", "        return -2 - oparg", "        return -1 - oparg", "CALL_KW"),
    ("m-c15-build-map", "C15", "fire", "xdis/cross_dis.py", "        return 1 - (2 * oparg)", "        return 1 - (2 * oparg) if oparg < 300 else -oparg", "BUILD_MAP"),
    ("m-c15-table-pop", "C15", "fire", "xdis/opcodes/opcode_37.py", "jrel_op(loc, \"SETUP_ASYNC_WITH\",   154,  0,  5)", "jrel_op(loc, \"SETUP_ASYNC_WITH\",   154,  0,  4)", "SETUP_ASYNC_WITH"),
    ("m-c16-linetable", "C16", "fire", "xdis/codetype/__init__.py", "    if version_tuple >= (3, 10) and hasattr(code, \"co_linetable\"):", "    if version_tuple >= (3, 11) and hasattr(code, \"co_linetable\"):", "co_linetable@host3.10"),
    ("m-c16-order", "C16", "fire", "xdis/codetype/code311.py", "            code.co_exceptiontable,\n            code.co_freevars,\n            code.co_cellvars,\n        )", "            code.co_exceptiontable,\n            code.co_cellvars,\n            code.co_freevars,\n        )", "argument-order"),
    ("m-c16-replace", "C16", "fire", "xdis/codetype/code13.py", "        code = deepcopy(self)\n        for field, value in kwargs.items():", "        code = self\n        for field, value in kwargs.items():", "copy-is-deepcopy"),
    ("m-c17-mask", "C17", "fire", "xdis/bytecode.py", "        val |= b & 63\n    return val", "        val |= b & 31\n    return val", "big-endian-accumulation"),
    ("m-c17-depth", "C17", "fire", "xdis/bytecode.py", "            depth = dl >> 1", "            depth = dl >> 2", "field:depth"),
    ("m-c17-short-col", "C17", "fire", "xdis/codetype/code311.py", "            start_column = (code * 8) + ((second_byte >> 4) & 7)", "            start_column = (code * 8) + ((second_byte >> 3) & 7)", "start_column"),
    ("m-c17-svarint", "C17", "fire", "xdis/codetype/code311.py", "    if value & 1:\n        return -(value >> 1)\n    return value >> 1", "    if value & 1:\n        return -(value >> 1) - 1\n    return value >> 1", "line_delta"),
    ("s-c17-equiv-bits", "C17", "silent", "xdis/codetype/code311.py", "        return (b & 0b01111000) >> 3  # extracts bits 3-6", "        return (b >> 3) & 15  # extracts bits 3-6", ""),
    ("m-c19-chunk", "C19", "fire", "xdis/codetype/code30.py", "            while offset_diff >= 256:\n                co_lnotab += bytearray([255, 0])\n                offset_diff -= 255", "            while offset_diff >= 256:\n                co_lnotab += bytearray([256, 0])\n                offset_diff -= 256", "roundtrip:"),
    ("m-c19-freeze-attr", "C19", "fire", "xdis/codetype/code30.py", "        if isinstance(self.co_lnotab, str):\n            self.co_lnotab = self.co_lnotab.encode()", "        if isinstance(self.co_linetable, str):\n            self.co_lnotab = self.co_lnotab.encode()", "reads-defined-attributes"),
    # ---------------- later additions (seed-driven rules)
    ("m-c17-colines-onesided-split", "C17", "fire", "xdis/codetype/code311.py", "            linetable_entry.line_delta != 0\n            or linetable_entry.no_line_flag != no_line_flag", "            linetable_entry.line_delta != 0\n            or (linetable_entry.no_line_flag and not no_line_flag)", "co_lines:range-per-entry"),
    ("m-c05-colines-onesided-split", "C05", "fire", "xdis/codetype/code311.py", "            linetable_entry.line_delta != 0\n            or linetable_entry.no_line_flag != no_line_flag", "            linetable_entry.line_delta != 0\n            or (linetable_entry.no_line_flag and not no_line_flag)", "co_lines:range-per-entry"),
    ("m-c17-colines-start-not-moved", "C17", "fire", "xdis/codetype/code311.py", "            no_line_flag = linetable_entry.no_line_flag\n            code_start = code_end\n", "            no_line_flag = linetable_entry.no_line_flag\n", "co_lines:range-per-entry"),
    ("s-c17-colines-never-merge", "C17", "silent", "xdis/codetype/code311.py", "        if (\n            linetable_entry.line_delta != 0\n            or linetable_entry.no_line_flag != no_line_flag\n        ):", "        if True:", ""),
    ("m-c16-native-cache", "C16", "fire", "xdis/codetype/code311.py", "        code = deepcopy(self)\n        code.freeze()\n        try:\n            code.check()\n        except AssertionError as e:\n            raise TypeError(e)\n\n        return types.CodeType(\n            code.co_argcount,\n            code.co_posonlyargcount,\n            code.co_kwonlyargcount,\n            code.co_nlocals,\n            code.co_stacksize,\n            code.co_flags,\n            code.co_code,\n            code.co_consts,\n            code.co_names,\n            code.co_varnames,\n            code.co_filename,\n            code.co_name,\n            code.co_qualname,",
     "        if getattr(self, \"_frozen\", None) is not None:\n            code = self._frozen\n        else:\n            code = deepcopy(self)\n            code.freeze()\n            self._frozen = code\n        try:\n            code.check()\n        except AssertionError as e:\n            raise TypeError(e)\n\n        return types.CodeType(\n            code.co_argcount,\n            code.co_posonlyargcount,\n            code.co_kwonlyargcount,\n            code.co_nlocals,\n            code.co_stacksize,\n            code.co_flags,\n            code.co_code,\n            code.co_consts,\n            code.co_names,\n            code.co_varnames,\n            code.co_filename,\n            code.co_name,\n            code.co_qualname,", "fresh-object"),
    ("m-c12-backward-startswith", "C12", "fire", "xdis/bytecode.py", "\"JUMP_BACKWARD\" in opname", "opname.startswith(\"JUMP_BACKWARD\")", "C04-R1"),
    ("m-c20-linedelta-boundary", "C20", "fire", "xdis/cross_dis.py", "                if signed_line_delta and line_delta >= 0x80:", "                if signed_line_delta and line_delta > 0x80:", "C05-R2"),
    ("m-c13-long-noref", "C13", "fire", "xdis/unmarshal.py", "        if n < 0:\n            d = to_long(d * -1)", "        if n < 0:\n            return to_long(-d)", "C01-R3"),
    ("m-c19-divmod-256", "C19", "fire", "xdis/codetype/code30.py", "            while offset_diff >= 256:\n                co_lnotab += bytearray([255, 0])\n                offset_diff -= 255\n",
     "            if offset_diff >= 256:\n                extra, offset_diff = divmod(offset_diff, 256)\n                co_lnotab += bytearray([255, 0]) * extra\n", "roundtrip:"),
    ("s-c19-divmod-255", "C19", "silent", "xdis/codetype/code30.py", "            while offset_diff >= 256:\n                co_lnotab += bytearray([255, 0])\n                offset_diff -= 255\n",
     "            if offset_diff >= 256:\n                extra, offset_diff = divmod(offset_diff, 255)\n                co_lnotab += bytearray([255, 0]) * extra\n", ""),
    ("m-c19-no-reset", "C19", "fire", "xdis/codetype/code15.py", "                co_lnotab += chr(255)\n                offset_diff = 0\n                line_diff -= 255", "                co_lnotab += chr(255)\n                line_diff -= 255", "roundtrip:"),
    ("m-c19-chunk-126", "C19", "fire", "xdis/codetype/code30.py", "                co_lnotab += bytearray([offset_diff, 127])\n                offset_diff = 0\n                line_diff -= 127", "                co_lnotab += bytearray([offset_diff, 127])\n                offset_diff = 0\n                line_diff -= 128", "roundtrip:"),
    ("m-c19-chunk-255-signed", "C19", "fire", "xdis/codetype/code30.py", "            while line_diff >= 128:", "            while line_diff >= 256:", "roundtrip:"),
    ("m-c19-neg-chunk-unbalanced", "C19", "fire", "xdis/codetype/code30.py", "                co_lnotab += bytearray([offset_diff, 0x80])\n                offset_diff = 0\n                line_diff += 128", "                co_lnotab += bytearray([offset_diff, 0x80])\n                offset_diff = 0\n                line_diff += 127", "roundtrip:"),
    ("m-c19-drop-negative", "C19", "fire", "xdis/codetype/code30.py", "            co_lnotab += bytearray([offset_diff, line_diff & 0xFF])", "            if line_diff >= 0:\n                co_lnotab += bytearray([offset_diff, line_diff & 0xFF])", "roundtrip:"),
    ("s-c19-chunk-200", "C19", "silent", "xdis/codetype/code15.py", "            while offset_diff >= 256:\n                co_lnotab += chr(255)\n                co_lnotab += chr(0)\n                offset_diff -= 255", "            while offset_diff >= 256:\n                co_lnotab += chr(200)\n                co_lnotab += chr(0)\n                offset_diff -= 200", ""),
    ("m-c12-ternary-offbyone", "C12", "fire", "xdis/opcodes/format/extended.py", "            stack_inst3 = instructions[k]", "            stack_inst3 = instructions[k + 1]", "index:instructions[k + 1]"),
    ("m-c12-lookup-unchecked", "C12", "fire", "xdis/opcodes/format/extended.py", "            i = get_instruction_index_from_offset(arg1_start_offset, instructions, 1)\n            if i is None:\n                return \"\", None\n        j = skip_cache(instructions, i + 1)",
     "            i = get_instruction_index_from_offset(arg1_start_offset, instructions, 1)\n        j = skip_cache(instructions, i + 1)", "lookup-result"),
    ("m-c12-call-unguarded", "C12", "fire", "xdis/opcodes/format/extended.py", "    assert i is not None\n    if i >= len(instructions) - 1:\n        return \"\", None\n", "    assert i is not None\n", "index:instructions[i + 1]"),
    ("m-c01-pypy-ident-bytes", "C01", "fire", "xdis/unmarshal.py", "            co_filename = self.r_object(bytes_for_s=False)\n            co_name = self.r_object(bytes_for_s=False)", "            co_filename = self.r_object(bytes_for_s=bytes_for_s)\n            co_name = self.r_object(bytes_for_s=bytes_for_s)", "bytes_for_s:filename"),
    ("m-c14-strict-unicode", "C14", "fire", "xdis/marsh.py", "        ret = s.decode(\"utf8\", \"surrogatepass\")", "        ret = s.decode(\"utf8\")", "unicode-decode"),
    ("m-c14-dump-raw-sink", "C14", "fire", "xdis/marsh.py", "    f.write(dumps(x, version, python_version))", "    m = _Marshaller(f.write, python_version)\n    m.dump(x)", "marshaller-sink"),
    ("m-c14-load-bytes-key", "C14", "fire", "xdis/marsh.py", "        if not isinstance(c, str):\n            # type codes are kept as text; a binary file gives bytes\n            c = c.decode(\"latin-1\")\n", "", "dispatch-key-is-text"),
    ("m-c14-ord-py3", "C14", "fire", "xdis/marsh.py", "    return c if isinstance(c, int) else ord(c)", "    return c if PYTHON3 else ord(c)", "integer-from-bytes"),
    ("s-c14-load-chr-key", "C14", "silent", "xdis/marsh.py", "            c = c.decode(\"latin-1\")\n        try:\n            return self.dispatch[c](self)", "            c = c.decode(\"ascii\", \"replace\")\n        try:\n            return self.dispatch[c](self)", ""),
    ("m-c10-long-sign", "C10", "fire", "xdis/unmarshal.py", "        if n < 0:\n            d = to_long(d * -1)", "        if n > 0:\n            d = to_long(d * -1)", "long:sign"),
    ("m-c10-long-weight", "C10", "fire", "xdis/unmarshal.py", "            d += md << j * 15", "            d += md << j * 16", "long:accumulation"),
    ("m-c14-long-sign", "C14", "fire", "xdis/marsh.py", "        sign = 1\n        if size < 0:\n            sign = -1\n            size = -size\n        x = 0\n        for i in range(size):\n            d = _r_short(self)", "        sign = 1\n        size = abs(size)\n        if size < 0:\n            sign = -1\n        x = 0\n        for i in range(size):\n            d = _r_short(self)", "long:sign"),
    ("m-c14-long-weight", "C14", "fire", "xdis/marsh.py", "            d = _r_short(self)\n            x = x | (d << (i * 15))", "            d = _r_short(self)\n            x = x | (d << (i * 16))", "long:accumulation"),
    ("s-c14-long-add", "C14", "silent", "xdis/marsh.py", "            d = _r_short(self)\n            x = x | (d << (i * 15))", "            d = _r_short(self)\n            x += d * (1 << (15 * i))", ""),
    ("m-c12-arglist-unguarded", "C12", "fire", "xdis/opcodes/format/extended.py", "        if (\n            arglist\n            and instructions[1].opname == \"MAKE_FUNCTION\"", "        if (\n            instructions[1].opname == \"MAKE_FUNCTION\"", "arglist-index"),
    ("m-c12-percent-eq", "C12", "fire", "xdis/opcodes/opcode_311.py", "    opname = opname.replace(\"%\", \"%%\")", "    if opname == \"%\":\n        opname = \"%%\"", "format:%="),
    ("m-c12-bad-constant-format", "C12", "fire", "xdis/opcodes/opcode_35.py", "\"%s @= %s\"", "\"%s @= %\"", "format:"),
    ("s-c12-arglist-len-guard", "C12", "silent", "xdis/opcodes/format/extended.py", "        if (\n            arglist\n            and instructions[1].opname == \"MAKE_FUNCTION\"", "        if (\n            len(arglist) > 0\n            and instructions[1].opname == \"MAKE_FUNCTION\"", ""),
    ("m-c15-std-wrong-table", "C15", "fire", "xdis/std.py", "        return _stack_effect(opcode, self.opc, oparg, jump)", "        return _stack_effect(opcode, opc, oparg, jump)", "passes-own-table"),
    ("m-c20-missing-name", "C20", "fire", "xdis/std.py", "hasjabs = _std_api.hasjabs\n", "", "dis.__all__:hasjabs"),
    ("m-c09-hasexc", "C09", "fire", "xdis/opcodes/opcode_312.py", "loc.update({\"hasexc\": [256, 257, 258]})", "loc.update({\"hasexc\": [264, 265, 266]})", "hasexc"),
    ("m-c11-eof-returns", "C11", "fire", "xdis/unmarshal.py", "        byte1 = ord(self.fp.read(1))\n", "        byte1 = self.fp.read(1)\n        if not byte1:\n            return None\n        byte1 = ord(byte1)\n", "end-of-input-raises"),
    ("s-c11-eof-raises", "C11", "silent", "xdis/unmarshal.py", "        byte1 = ord(self.fp.read(1))\n", "        byte1 = self.fp.read(1)\n        if not byte1:\n            raise EOFError(\"marshal data too short\")\n        byte1 = ord(byte1)\n", ""),
    ("m-c04-stale-hasjabs", "C04", "fire", "xdis/opcodes/base.py", "    if op in loc[\"hasjabs\"]:\n        loc[\"hasjabs\"].remove(op)\n", "", "jump-category"),
    ("m-c10-long-wrapper-py3", "C10", "fire", "xdis/unmarshal.py", "        to_long = long if self.version_tuple < (3, 0) else int", "        to_long = long", "kind@"),
    ("m-c20-caches-shown", "C20", "fire", "xdis/std.py", "            if show_caches or inst.opname != \"CACHE\":\n                yield inst", "            yield inst", "cache-entries"),
    ("m-c04-313-range-ends", "C04", "fire", "xdis/bytecode.py", "            if opc.version_tuple >= (3, 13):\n                # From 3.13 on dis also labels the two ends of the protected range.\n                labels.append(start)\n                labels.append(end)\n\n    # label_maps", "\n    # label_maps", "exception-entry-components"),
    ("m-c04-312-range-ends", "C04", "fire", "xdis/bytecode.py", "            if opc.version_tuple >= (3, 13):\n                # From 3.13 on dis also labels the two ends of the protected range.\n                labels.append(start)\n                labels.append(end)\n\n    # label_maps", "            if opc.version_tuple >= (3, 12):\n                labels.append(start)\n                labels.append(end)\n\n    # label_maps", "exception-entry-components"),
    ("m-c13-py2-freevars-generic", "C13", "fire", "xdis/marsh.py", "        for names in (x.co_freevars, x.co_cellvars):\n            self._write(TYPE_TUPLE)\n            self.w_long(len(names))\n            for name in names:\n                self.dump_string(name)\n", "        self.dump(x.co_freevars)\n        self.dump(x.co_cellvars)\n", "py2-identifier-fields"),
    ("m-c17-positions-per-entry", "C17", "fire", "xdis/codetype/code311.py", "            for _ in range(length):\n                yield (start_line, end_line, start_col, end_col)", "            yield (start_line, end_line, start_col, end_col)", "one-tuple-per-code-unit"),
    ("m-c19-310-chunk-mismatch", "C19", "fire", "xdis/codetype/code310.py", "                co_linetable += bytearray([0, 127])\n                line_diff -= 127", "                co_linetable += bytearray([0, 127])\n                line_diff -= 128", "roundtrip:"),
    ("m-c19-310-length-mismatch", "C19", "fire", "xdis/codetype/code310.py", "                co_linetable += bytearray([254, line_diff & 0xFF])\n                length -= 254\n                line_diff = 0", "                co_linetable += bytearray([254, line_diff & 0xFF])\n                length -= 255\n                line_diff = 0", "roundtrip:"),
    ("m-c19-310-delta-repeated", "C19", "fire", "xdis/codetype/code310.py", "                length -= 254\n                line_diff = 0\n            co_linetable += bytearray([length, line_diff & 0xFF])", "                length -= 254\n            co_linetable += bytearray([length, line_diff & 0xFF])", "roundtrip:"),
    ("m-c19-310-reserved-minus128", "C19", "fire", "xdis/codetype/code310.py", "            while line_diff < -127:\n                co_linetable += bytearray([0, 0x81])\n                line_diff += 127", "            while line_diff < -128:\n                co_linetable += bytearray([0, 0x81])\n                line_diff += 127", "roundtrip:"),
    ("m-c19-310-lnotab-pairing", "C19", "fire", "xdis/codetype/code310.py", "        for (offset, line_number), (end, _) in zip(entries, ends):\n            length = end - offset", "        for (end, _), (offset, line_number) in zip([(0, None)] + entries, entries):\n            length = offset - end", ""),
    ("s-c19-310-chunk-100", "C19", "silent", "xdis/codetype/code310.py", "            while length > 254:\n                co_linetable += bytearray([254, line_diff & 0xFF])\n                length -= 254\n                line_diff = 0", "            while length > 254:\n                co_linetable += bytearray([100, line_diff & 0xFF])\n                length -= 100\n                line_diff = 0", ""),
    ("m-c02-313-hasarg", "C02", "fire", "xdis/cross_dis.py", "    if opc.version_tuple >= (3, 13):\n        # From 3.13 on the opcode number alone does not tell: WITH_EXCEPT_START sits\n        # at the HAVE_ARGUMENT threshold and takes no operand. dis consults hasarg.\n        return opcode in opc.hasarg\n", "", "WITH_EXCEPT_START:has_arg"),
    ("m-c18-dropbox-global-patch", "C18", "fire", "xdis/dropbox/decrypt25.py", "    um.dispatch = dict(um.dispatch)\n", "", "write:class:xdis.marsh._FastUnmarshaller.dispatch"),
    ("s-c18-dropbox-copy-method", "C18", "silent", "xdis/dropbox/decrypt25.py", "    um.dispatch = dict(um.dispatch)\n", "    um.dispatch = um.dispatch.copy()\n", ""),
    ("m-c20-std-dup-lines", "C20", "fire", "xdis/std.py", "                    # dis reports a line only where it changes\n                    dup_lines=False,\n", "", "dup_lines=False"),
    ("m-c13-version-not-passed", "C13", "fire", "xdis/load.py", "        fp.write(xdis.marsh.dumps(code_obj, python_version=version))", "        fp.write(xdis.marsh.dumps(code_obj))", "marshaller-told-target-version"),
    ("m-c13-py2-str-as-unicode", "C13", "fire", "xdis/marsh.py", "            if type(x) is str:\n                self.dump_string(x.encode(\"utf-8\"))\n                return\n", "", "py2-target:str-writer"),
    ("m-c13-py2-32bit-fields", "C13", "fire", "xdis/marsh.py", "            if self.python_version and self.python_version < (2, 3)\n", "            if self.python_version and self.python_version < (2, 1)\n", "Code2:layout@2.1-2.2"),
    # ---------------- whole-package reformat, one case per property
    ("s-c01-reformat", "C01", "silent", "*REFORMAT*", "", "", ""),
    ("s-c02-reformat", "C02", "silent", "*REFORMAT*", "", "", ""),
    ("s-c03-reformat", "C03", "silent", "*REFORMAT*", "", "", ""),
    ("s-c04-reformat", "C04", "silent", "*REFORMAT*", "", "", ""),
    ("s-c05-reformat", "C05", "silent", "*REFORMAT*", "", "", ""),
    ("s-c06-reformat", "C06", "silent", "*REFORMAT*", "", "", ""),
    ("s-c08-reformat", "C08", "silent", "*REFORMAT*", "", "", ""),
    ("s-c09-reformat", "C09", "silent", "*REFORMAT*", "", "", ""),
    ("s-c10-reformat", "C10", "silent", "*REFORMAT*", "", "", ""),
    ("s-c11-reformat", "C11", "silent", "*REFORMAT*", "", "", ""),
    ("s-c12-reformat", "C12", "silent", "*REFORMAT*", "", "", ""),
    ("s-c13-reformat", "C13", "silent", "*REFORMAT*", "", "", ""),
    ("s-c14-reformat", "C14", "silent", "*REFORMAT*", "", "", ""),
    ("s-c15-reformat", "C15", "silent", "*REFORMAT*", "", "", ""),
    ("s-c16-reformat", "C16", "silent", "*REFORMAT*", "", "", ""),
    ("s-c17-reformat", "C17", "silent", "*REFORMAT*", "", "", ""),
    ("s-c18-reformat", "C18", "silent", "*REFORMAT*", "", "", ""),
    ("s-c19-reformat", "C19", "silent", "*REFORMAT*", "", "", ""),
    ("s-c20-reformat", "C20", "silent", "*REFORMAT*", "", "", ""),
    # ---------------- round-3 rules
    ("m-c09-opname-normalised", "C09", "fire", "xdis/opcodes/base.py", "    loc[\"opname\"][opcode] = op_name\n    loc[\"opmap\"][op_name] = opcode\n    loc[\"oppush\"][opcode] = push",
     "    loc[\"opname\"][opcode] = op_name.replace(\"+\", \"_\")\n    loc[\"opmap\"][op_name] = opcode\n    loc[\"oppush\"][opcode] = push", "opname-spelling"),
    ("m-c02-opname-normalised", "C02", "fire", "xdis/opcodes/base.py", "    loc[\"opname\"][opcode] = op_name\n    loc[\"opmap\"][op_name] = opcode\n    loc[\"oppush\"][opcode] = push",
     "    loc[\"opname\"][opcode] = op_name.replace(\"+\", \"_\")\n    loc[\"opmap\"][op_name] = opcode\n    loc[\"oppush\"][opcode] = push", "opname-spelling"),
    ("m-c13-int-width", "C13", "fire", "xdis/marsh.py", "        y = x >> 31\n        if y and y != -1:", "        y = x >> 32\n        if y and y != -1:", "int-width"),
    ("s-c13-int-width-range", "C13", "silent", "xdis/marsh.py", "        y = x >> 31\n        if y and y != -1:", "        y = x >> 31\n        if not (-2147483648 <= x <= 2147483647):", ""),
    ("m-c14-dump-route-none", "C14", "fire", "xdis/marsh.py", "        if self.python_version and self.python_version < (3, 0) and PYTHON3:", "        if (not self.python_version or self.python_version < (3, 0)) and PYTHON3:", "R9"),
    ("m-c18-global-width", "C18", "fire", "xdis/instruction.py", "        fields.append(self.opname.ljust(_OPNAME_WIDTH))",
     "        global _OPNAME_WIDTH\n        _OPNAME_WIDTH = max(_OPNAME_WIDTH, len(self.opname))\n        fields.append(self.opname.ljust(_OPNAME_WIDTH))", "globalvar:"),
    ("s-c18-local-width", "C18", "silent", "xdis/instruction.py", "        fields.append(self.opname.ljust(_OPNAME_WIDTH))",
     "        width = max(_OPNAME_WIDTH, 0)\n        fields.append(self.opname.ljust(width))", ""),
    ("m-c18-lru-labels", "C18", "fire", "xdis/wordcode.py", "def findlabels(code, opc):", "import functools\n\n\n@functools.lru_cache(maxsize=64)\ndef findlabels(code, opc):", "memoised-result"),
    ("s-c18-lru-immutable", "C18", "silent", "xdis/cross_dis.py", "def instruction_size(op, opc):", "import functools\n\n\n@functools.lru_cache(maxsize=None)\ndef instruction_size(op, opc):", ""),
    ("m-c19-decoder-guard", "C19", "fire", "xdis/cross_dis.py", "lineno != lastlineno or dup_lines and 0 < byte_incr < 255", "(lineno != lastlineno or dup_lines) and 0 < byte_incr < 255", "C05-R2"),
    ("m-c17-positions-cached", "C17", "fire", "xdis/codetype/code311.py", "        for length, start_line, end_line, start_col, end_col in parse_location_entries(\n            self.co_linetable, self.co_firstlineno\n        ):",
     "        if not hasattr(self, \"_entries\"):\n            self._entries = parse_location_entries(self.co_linetable, self.co_firstlineno)\n        for length, start_line, end_line, start_col, end_col in self._entries:", "second-call-decodes-current-fields"),
    ("s-c17-positions-local", "C17", "silent", "xdis/codetype/code311.py", "        for length, start_line, end_line, start_col, end_col in parse_location_entries(\n            self.co_linetable, self.co_firstlineno\n        ):",
     "        table, first = self.co_linetable, self.co_firstlineno\n        entries = parse_location_entries(table, first)\n        for length, start_line, end_line, start_col, end_col in entries:", ""),
    ("m-c17-colines-cached", "C17", "fire", "xdis/codetype/code311.py", "        return parse_linetable(self.co_linetable, self.co_firstlineno)",
     "        if getattr(self, \"_lines\", None) is None:\n            self._lines = list(parse_linetable(self.co_linetable, self.co_firstlineno))\n        return self._lines", "second-call-decodes-current-fields"),
    ("m-c12-linestarts-unguarded", "C12", "fire", "xdis/instruction.py", "                    and line_starts is not None\n                    and line_starts.get(self.argval) is not None", "                    and line_starts.get(self.argval) is not None", "optional:line_starts"),
    ("s-c12-linestarts-truthy", "C12", "silent", "xdis/instruction.py", "                    and line_starts is not None\n                    and line_starts.get(self.argval) is not None", "                    and line_starts\n                    and line_starts.get(self.argval) is not None", ""),
    ("m-c06-header-unguarded", "C06", "fire", "xdis/disasm.py", "    if source_size is not None:\n        real_out.write(\"# Source code size mod 2**32: %d bytes\\n\" % source_size)", "    if True:\n        real_out.write(\"# Source code size mod 2**32: %d bytes\\n\" % source_size)", "R6"),
    ("m-c03-getinstr-self-tables", "C03", "fire", "xdis/bytecode.py", "            line_offset = 0\n        return get_instructions_bytes(\n            co.co_code,\n            self.opc,\n            co.co_varnames,\n            co.co_names,\n            co.co_consts,",
     "            line_offset = 0\n        return get_instructions_bytes(\n            co.co_code,\n            self.opc,\n            co.co_varnames,\n            self.codeobj.co_names,\n            co.co_consts,", "tables-of-the-argument"),
    ("m-c05-offset2line-low", "C05", "fire", "xdis/bytecode.py", "    return linestarts[high][1]\n", "    return linestarts[low][1]\n", "greatest-start-not-above-offset"),
    ("m-c05-offset2line-before-first", "C05", "fire", "xdis/bytecode.py", "    if len(linestarts) == 0 or offset < linestarts[0][0]:\n        return 0", "    if len(linestarts) == 0 or offset <= linestarts[0][0]:\n        return 0", "greatest-start-not-above-offset"),
    ("s-c05-offset2line-floor-mid", "C05", "silent", "xdis/bytecode.py", "    mid = (low + high + 1) // 2\n    while low <= high:", "    mid = (low + high) // 2\n    while low <= high:", ""),
    ("m-c11-name-slot-stringified", "C11", "fire", "xdis/unmarshal.py", "            co_nlocals = len(co_varnames)\n            co_filename = self.r_object(bytes_for_s=bytes_for_s)",
     "            co_nlocals = len(co_varnames)\n            co_filename = compat_str(self.r_object(bytes_for_s=bytes_for_s))", "object-to-text"),
    ("m-c08-int2magic-10-only", "C08", "fire", "xdis/magics.py", "    if magic_int in (39170, 39171):\n        return struct.pack", "    if magic_int in (39170,):\n        return struct.pack", "u16le-then-tail"),
    ("m-c08-313-gets-312-table", "C08", "fire", "xdis/op_imports.py", "    \"3.13.0rc3\": opcode_313,", "    \"3.13.0rc3\": opcode_312,", "magic=3571"),
    ("m-c09-31-extended-arg-144", "C09", "fire", "xdis/opcodes/opcode_31.py", "def_op(loc, \"EXTENDED_ARG\", 143)", "def_op(loc, \"EXTENDED_ARG\", 144)", "EXTENDED_ARG-number-shift"),
    ("m-c04-labels-memoised", "C04", "fire", "xdis/wordcode.py", "def findlabels(code, opc):", "import functools\n\n\n@functools.lru_cache(maxsize=64)\ndef findlabels(code, opc):", "C18-R3:memoised-result"),
    ("m-c12-no-line-column-for-2.0", "C12", "fire", "xdis/bytecode.py", "show_lineno = line_starts is not None or self.opc.version_tuple < (2, 3)", "show_lineno = line_starts is not None or self.opc.version_tuple < (2, 0)", "row-shows-line"),
    ("s-c12-line-column-width-4", "C12", "silent", "xdis/bytecode.py", "lineno_width = 3 if show_lineno else 0", "lineno_width = 4 if show_lineno else 0", ""),
    ("m-c14-dump-depth-never-reset", "C14", "fire", "xdis/marsh.py", "    def dump(self, x):\n        if (\n            isinstance(x, types.CodeType)",
     "    def dump(self, x):\n        self._depth = getattr(self, \"_depth\", 0) + 1\n        if self._depth > 1 and isinstance(x, (list, dict, set)):\n            raise ValueError(\"object too deeply nested to marshal\")\n        if (\n            isinstance(x, types.CodeType)", "accepted-each-time"),
    ("m-c16-check-all-posonly-refused", "C16", "fire", "xdis/codetype/code310.py", "                ), \"%s should have type %s; is type %s\" % (field, fieldtype, type(val))\n                pass\n            pass\n",
     "                ), \"%s should have type %s; is type %s\" % (field, fieldtype, type(val))\n                pass\n            pass\n        assert self.co_posonlyargcount < self.co_argcount or self.co_argcount == 0\n", "accepts:def f(a, /)"),
    ("m-c16-replace-shallow-copy", "C16", "fire", "xdis/codetype/code13.py", "        code = deepcopy(self)", "        import copy as _c\n        code = _c.copy(self)", "copy-shares-no-mutable-field"),
    ("m-c17-exception-rows-in-default-list", "C17", "fire", "xdis/cross_dis.py", "def format_exception_table(bytecode, version_tuple) -> str:\n    if version_tuple < (3, 11) or not hasattr(bytecode, \"exception_entries\"):\n        return \"\"\n    lines: List[str] = [\"ExceptionTable:\"]",
     "def format_exception_table(bytecode, version_tuple, lines=[\"ExceptionTable:\"]) -> str:\n    if version_tuple < (3, 11) or not hasattr(bytecode, \"exception_entries\"):\n        return \"\"", "rows:listing-2"),
    ("m-c18-graal-magics-filter-object", "C18", "fire", "xdis/magics.py", "GRAAL3_MAGICS = (21150, 21280)", "GRAAL3_MAGICS = filter(None, (21150, 21280))", "one-shot-iterator"),
    ("m-c18-opnames-alias-edited", "C18", "fire", "xdis/bytecode.py", "        output = StringIO()\n        if self.opc.version_tuple > (2, 0):", "        output = StringIO()\n        self.opnames[0] = \"STOP_CODE\"\n        if self.opc.version_tuple > (2, 0):", "xdis.opcodes.*.opname"),
    ("m-c20-labels-memoised", "C20", "fire", "xdis/cross_dis.py", "def findlabels(code, opc):", "import functools\n\n\n@functools.lru_cache(maxsize=64)\ndef findlabels(code, opc):", "C18-R3:memoised-result"),
    ("m-c11-short-file-guard-5", "C11", "fire", "xdis/load.py", "    elif osp.getsize(filename) < 50:", "    elif osp.getsize(filename) < 5:", "short-file-guard"),
    ("s-c11-short-file-guard-restated", "C11", "silent", "xdis/load.py", "    elif osp.getsize(filename) < 50:", "    elif not osp.getsize(filename) >= 8:", ""),
    ("m-c02-table-cache-ignores-flavour", "C02", "fire", "xdis/op_imports.py", "    return op_imports[canonic_python_version.get(vers_str, vers_str)]",
     "    return op_imports.setdefault(\"memo:\" + version_tuple_to_str(version_info[:2]), op_imports[canonic_python_version.get(vers_str, vers_str)])", ""),
]


def copy_tree():
    base = os.environ.get("TMPDIR") or ("/dev/shm" if os.path.isdir("/dev/shm") else tempfile.gettempdir())
    d = tempfile.mkdtemp(prefix="xvself-", dir=base)
    shutil.copytree(os.path.join(REPO, "xdis"), os.path.join(d, "xdis"), ignore=shutil.ignore_patterns("__pycache__", "*.pyc"))
    return d


def run_case(case):
    cid, pid, kind, rel, old, new, frag = case
    d = copy_tree()
    try:
        if rel == "*REFORMAT*":
            # whole-package behaviour-preserving rewrite: every file is replaced by ast.unparse of its own tree (all line numbers, comments,
            # quoting, parenthesisation and line breaks change)
            import ast
            for root, _, files in os.walk(os.path.join(d, "xdis")):
                for fn in files:
                    if fn.endswith(".py"):
                        p = os.path.join(root, fn)
                        with open(p, encoding="utf-8") as f:
                            src = f.read()
                        with open(p, "w", encoding="utf-8") as f:
                            f.write(ast.unparse(ast.parse(src)) + "\n")
        else:
            p = os.path.join(d, rel)
            with open(p, encoding="utf-8") as f:
                s = f.read()
            if old not in s:
                return {"id": cid, "property": pid, "kind": kind, "status": "skipped (anchor text changed)"}
            with open(p, "w", encoding="utf-8") as f:
                f.write(s.replace(old, new, 1))
        env = dict(os.environ, XV_REPO=d, XV_SERIAL="1", XV_NO_EVIDENCE="1", PYTHONDONTWRITEBYTECODE="1", PYTHONPATH=HERE)
        t0 = time.time()
        r = subprocess.run([sys.executable, "-m", "xv.main", pid], cwd=HERE, env=env, capture_output=True, text=True)
        out = r.stdout
        keys = [ln.strip().split("  at ")[0] for ln in out.splitlines() if ln.startswith("    %s/" % pid)]
        res = {"id": cid, "property": pid, "kind": kind, "exit": r.returncode, "violations": keys[:6], "wall_s": round(time.time() - t0, 2)}
        if kind == "fire":
            hit = r.returncode == 1 and (not frag or any(frag in k for k in keys))
            if frag == "" and r.returncode in (0, 1):
                # cases documented as "tolerated or detected": either outcome is recorded, not judged
                res["status"] = "detected" if r.returncode == 1 else "tolerated (behaviour change outside the decided clauses)"
            else:
                res["status"] = "detected" if hit else ("MISSED" if r.returncode == 0 else ("detected-other" if r.returncode == 1 else "analysis-error"))
        else:
            res["status"] = "silent" if r.returncode == 0 else "FALSE-ALARM" if r.returncode == 1 else "analysis-error"
        if r.returncode == 2:
            res["detail"] = [ln for ln in out.splitlines() if "ANALYSIS-ERROR" in ln][:1]
        return res
    finally:
        shutil.rmtree(d, ignore_errors=True)


def main(args):
    jobs = 8
    if "--jobs" in args:
        i = args.index("--jobs")
        jobs = int(args[i + 1])
        del args[i:i + 2]
    want = set(a.upper() for a in args)
    cases = [c for c in CASES if not want or c[1] in want]
    with ThreadPoolExecutor(max_workers=jobs) as ex:
        results = list(ex.map(run_case, cases))
    bad = 0
    for r in results:
        flag = ""
        if r["status"] in ("MISSED", "FALSE-ALARM", "analysis-error"):
            flag = "  <<<"
            bad += 1
        print("%-26s %-4s %-7s %s %s%s" % (r["id"], r["property"], r["kind"], r["status"], r.get("violations", [""])[:1], flag))
    summary = {"cases": len(results), "detected": sum(1 for r in results if r["status"].startswith("detected")),
               "silent": sum(1 for r in results if r["status"] == "silent"), "missed": sum(1 for r in results if r["status"] == "MISSED"),
               "false_alarms": sum(1 for r in results if r["status"] == "FALSE-ALARM"), "skipped": sum(1 for r in results if r["status"].startswith("skipped")),
               "results": results}
    os.makedirs(os.path.join(HERE, "evidence"), exist_ok=True)
    with open(os.path.join(HERE, "evidence", "selftest.json"), "w") as f:
        json.dump(summary, f, indent=1)
    print("selftest: %d cases, %d detected, %d silent, %d missed, %d false alarms, %d skipped" % (
        summary["cases"], summary["detected"], summary["silent"], summary["missed"], summary["false_alarms"], summary["skipped"]))
    return 1 if bad else 0
