# -*- coding: utf-8 -*-
"""Configuration specialiser with symbolic value numbering (DESIGN.md section 1.2).

Sparse conditional constant propagation of a repo function for one *configuration* (version tuple, magic, opcode,
folded table ...) in which every quantity derived from input bytes stays a symbol.  Branches whose condition folds are
resolved; branches on input data are not explored path by path for satisfiability -- both arms are summarised and joined
as a guarded term (phi); loops over symbolic data are summarised by one iteration with loop-carried variables havocked.
Values are kept in small normal forms: affine forms over atoms (Lin), bit slices (bits(x, shift, width)), opaque
operator terms (Op).  No solver, no path-condition satisfiability, no input generation, no repo code is run: the
interpreter below works on the *syntax tree* and on constants produced by the folder.
"""
import ast
import struct

from .fold import (BoundMethod, ClassRef, FoldError, Folder, FuncRef, Instance, ModuleNS, Opaque, PURE_BUILTINS, PyExc)


# ----------------------------------------------------------------------------------------------- value domain
class Sym(object):
    __slots__ = ("name", "kind", "info")

    def __init__(self, name, kind=None, info=None):
        self.name, self.kind, self.info = name, kind, info

    def __repr__(self):
        return self.name

    def __hash__(self):
        return hash(("sym", self.name))

    def __eq__(self, o):
        return isinstance(o, Sym) and o.name == self.name

    def __ne__(self, o):
        return not self.__eq__(o)


class Op(object):
    """Operator term, compared structurally."""
    __slots__ = ("op", "args", "_h")

    def __init__(self, op, *args):
        self.op, self.args = op, tuple(args)
        self._h = None

    def __repr__(self):
        return "%s(%s)" % (self.op, ", ".join(map(show, self.args)))

    def __hash__(self):
        if self._h is None:
            self._h = hash((self.op, repr(self.args)))
        return self._h

    def __eq__(self, o):
        return isinstance(o, Op) and o.op == self.op and repr(o.args) == repr(self.args)

    def __ne__(self, o):
        return not self.__eq__(o)


class Lin(object):
    """Affine form  sum(coef*atom) + const  over Sym/Op atoms."""
    __slots__ = ("terms", "const")

    def __init__(self, terms, const=0):
        self.terms = {a: c for a, c in terms.items() if c != 0}
        self.const = const

    def key(self):
        return (tuple(sorted(((repr(a), c) for a, c in self.terms.items()))), self.const)

    def __hash__(self):
        return hash(self.key())

    def __eq__(self, o):
        return isinstance(o, Lin) and o.key() == self.key()

    def __ne__(self, o):
        return not self.__eq__(o)

    def __repr__(self):
        parts = []
        for a, c in sorted(self.terms.items(), key=lambda t: repr(t[0])):
            parts.append(("%r" % (a,)) if c == 1 else ("%d*%r" % (c, a)))
        if self.const or not parts:
            parts.append(str(self.const))
        return " + ".join(parts)


class Top(object):
    def __init__(self, why=""):
        self.why = why

    def __repr__(self):
        return "TOP(%s)" % self.why


class Guard(object):
    """phi: value is a if cond else b"""
    __slots__ = ("cond", "a", "b")

    def __init__(self, cond, a, b):
        self.cond, self.a, self.b = cond, a, b

    def __repr__(self):
        return "(%s ? %s : %s)" % (show(self.cond), show(self.a), show(self.b))

    def __hash__(self):
        return hash(("guard", repr(self)))

    def __eq__(self, o):
        return isinstance(o, Guard) and repr(o) == repr(self)

    def __ne__(self, o):
        return not self.__eq__(o)


SYMBOLIC = (Sym, Op, Lin, Top, Guard)


def is_sym(v):
    return isinstance(v, SYMBOLIC)


def has_sym(v, depth=0):
    if isinstance(v, SYMBOLIC) or isinstance(v, Opaque):
        return True
    if depth < 3 and isinstance(v, (tuple, list)):
        return any(has_sym(x, depth + 1) for x in v)
    return False


def show(v):
    if isinstance(v, str):
        return repr(v)
    if isinstance(v, FuncRef):
        return "<fn %s>" % v.qualname
    if isinstance(v, ModuleNS):
        return "<module %s>" % v.name
    if isinstance(v, (tuple, list)) and len(v) > 12:
        return "%s[...%d]" % (type(v).__name__, len(v))
    if isinstance(v, dict) and len(v) > 6:
        return "dict[...%d]" % len(v)
    if isinstance(v, (set, frozenset)) and len(v) > 8:
        return "%s[...%d]" % (type(v).__name__, len(v))
    return repr(v)


def lin(v):
    if isinstance(v, Lin):
        return v
    if isinstance(v, (Sym, Op)):
        return Lin({v: 1})
    if isinstance(v, bool):
        return Lin({}, int(v))
    if isinstance(v, int):
        return Lin({}, v)
    return None


def simp(l):
    if not l.terms:
        return l.const
    if l.const == 0 and len(l.terms) == 1:
        (a, c), = l.terms.items()
        if c == 1:
            return a
    return l


def add(a, b, sign=1):
    la, lb = lin(a), lin(b)
    if la is None or lb is None:
        return Op("add" if sign == 1 else "sub", a, b)
    t = dict(la.terms)
    for k, c in lb.terms.items():
        t[k] = t.get(k, 0) + sign * c
    return simp(Lin(t, la.const + sign * lb.const))


def mul(a, b):
    if not is_sym(a) and not is_sym(b):
        return a * b
    if is_sym(b) and not is_sym(a):
        a, b = b, a
    if isinstance(b, int) and not isinstance(b, bool) and lin(a) is not None:
        la = lin(a)
        return simp(Lin({k: c * b for k, c in la.terms.items()}, la.const * b))
    return Op("mul", a, b)


def _is_mask(m):
    return isinstance(m, int) and m > 0 and (m & (m + 1)) == 0


def bitparts(x):
    """decompose a non-negative term into disjoint bit fields: [(lo, width, atom or int)] or None"""
    if isinstance(x, bool):
        return None
    if isinstance(x, int):
        return [(0, max(x.bit_length(), 1), x)] if x >= 0 else None
    w = width_of(x)
    if not isinstance(x, Lin):
        return [(0, w, x)] if w is not None else None
    parts = []
    if x.const < 0:
        return None
    if x.const:
        parts.append((0, x.const.bit_length(), x.const))
    for a, c in x.terms.items():
        wa = width_of(a)
        if wa is None or not isinstance(c, int) or c <= 0 or (c & (c - 1)) != 0:
            return None
        parts.append((c.bit_length() - 1, wa, a))
    # disjointness (constants: their set bits must not overlap any field)
    for i, (lo, w_, v) in enumerate(parts):
        for j, (lo2, w2, v2) in enumerate(parts):
            if i < j:
                if isinstance(v, int) and not isinstance(v2, int):
                    if (v >> lo2) & ((1 << w2) - 1):
                        return None
                elif isinstance(v2, int) and not isinstance(v, int):
                    if (v2 >> lo) & ((1 << w_) - 1):
                        return None
                elif not isinstance(v, int) and not isinstance(v2, int):
                    if lo < lo2 + w2 and lo2 < lo + w_:
                        return None
    return parts


def bits(x, shift, width):
    """Normal form of ((x >> shift) & (2**width - 1)); nested slices compose."""
    if isinstance(x, Lin):
        parts = bitparts(x)
        if parts is not None:
            total = 0
            hi = shift + width
            for lo, w_, v in parts:
                if isinstance(v, int):
                    total = add(total, ((v >> shift) & ((1 << width) - 1)) if shift < lo + w_ + 64 else 0)
                    continue
                a, b = max(lo, shift), min(lo + w_, hi)
                if a >= b:
                    continue
                piece = v if (a == lo and b == lo + w_) else bits(v, a - lo, b - a)
                total = add(total, mul(piece, 1 << (a - shift)))
            return total
    if isinstance(x, Op) and x.op == "bits":
        x0, s0, w0 = x.args
        if shift >= w0:
            return 0
        return bits(x0, s0 + shift, min(width, w0 - shift))
    if isinstance(x, Sym) and x.kind == "byte" and shift == 0 and width >= 8:
        return x
    if isinstance(x, Op) and x.op == "byte" and shift == 0 and width >= 8:
        return x
    if isinstance(x, Op) and x.op == "shr" and isinstance(x.args[1], int):
        return Op("bits", x.args[0], x.args[1] + shift, width)
    wx = width_of(x)
    if wx is not None:
        if shift >= wx:
            return 0
        if shift == 0 and width >= wx:
            return x
        width = min(width, wx - shift)
    return Op("bits", x, shift, width)


def width_of(x):
    """Upper bound on the bit width of a non-negative term, or None."""
    if isinstance(x, Sym) and x.info and isinstance(x.info, dict) and "width" in x.info:
        return x.info["width"]
    if isinstance(x, Op) and x.op == "bits":
        return x.args[2]
    if isinstance(x, Op) and x.op == "byte":
        return 8
    if isinstance(x, Sym) and x.kind == "byte":
        return 8
    return None


SEQ_ATTRS = ("co_cellvars", "co_freevars", "co_varnames", "co_names", "co_consts", "co_code", "co_lnotab", "co_linetable", "co_filename", "co_name")


def seq_like(x):
    if isinstance(x, Sym) and x.kind in ("tuple", "list", "str", "bytes"):
        return True
    if isinstance(x, Op) and x.op in ("concat", "slice", "comp", "fstring", "strformat", "bytesof", "Mult"):
        return True
    if isinstance(x, Op) and x.op == "attr" and x.args[1] in SEQ_ATTRS:
        return True
    if isinstance(x, Op) and x.op == "call" and x.args and x.args[0] in ("tuple", "list", "str", "bytes", "repr", "sorted", "chr", "hex", "oct", "bin", "format", "bytearray", "unichr"):
        return True
    return False


def lin_width(l):
    """bit width of a Lin whose atoms have known widths and power-of-two coefficients with disjoint ranges, else None"""
    hi = 0
    if l.const != 0:
        return None
    for t, c in l.terms.items():
        w = width_of(t)
        if w is None or not isinstance(c, int) or c <= 0 or (c & (c - 1)) != 0:
            return None
        hi = max(hi, w + c.bit_length() - 1)
    return hi


def binop(op, a, b):
    t = type(op)
    if isinstance(a, Instance) and hasattr(a, "prim"):
        a = a.prim
    if isinstance(b, Instance) and hasattr(b, "prim"):
        b = b.prim
    if not is_sym(a) and not is_sym(b):
        return {ast.Add: lambda: a + b, ast.Sub: lambda: a - b, ast.Mult: lambda: a * b, ast.Mod: lambda: a % b,
                ast.BitOr: lambda: a | b, ast.BitAnd: lambda: a & b, ast.LShift: lambda: a << b, ast.RShift: lambda: a >> b,
                ast.FloorDiv: lambda: a // b, ast.BitXor: lambda: a ^ b, ast.Div: lambda: a / b, ast.Pow: lambda: a ** b}[t]()
    if isinstance(a, Top) or isinstance(b, Top):
        return Top("binop")
    if isinstance(a, Guard) and not isinstance(b, Guard):
        return phi(a.cond, binop(op, a.a, b), binop(op, a.b, b))
    if isinstance(b, Guard) and not isinstance(a, Guard):
        return phi(b.cond, binop(op, a, b.a), binop(op, a, b.b))
    if isinstance(a, Guard) and isinstance(b, Guard):
        if repr(a.cond) == repr(b.cond):
            return phi(a.cond, binop(op, a.a, b.a), binop(op, a.b, b.b))
        return Op(t.__name__, a, b)
    if isinstance(a, (str, bytes, bytearray, tuple, list)) or isinstance(b, (str, bytes, bytearray, tuple, list)):
        if t is ast.Add and isinstance(a, tuple) and isinstance(b, tuple):
            return a + b
        return Op("concat" if t is ast.Add else t.__name__, a, b)
    if t is ast.Add:
        if seq_like(a) or seq_like(b):
            return Op("concat", a, b)  # ordered: sequences do not commute
        return add(a, b)
    if t is ast.Sub:
        return add(a, b, -1)
    if t is ast.Mult:
        if seq_like(a) or seq_like(b):
            return Op("Mult", a, b)  # sequence repetition
        return mul(a, b)
    if t is ast.LShift and isinstance(b, int):
        return mul(a, 1 << b)
    if t is ast.BitOr:
        if isinstance(a, int) and a == 0: return b
        if isinstance(b, int) and b == 0: return a
        # x | (y << k) where x < 2**k  ==  x + y*2**k   (disjoint bit ranges)
        for x, y in ((a, b), (b, a)):
            wx = width_of(x) if not isinstance(x, Lin) else lin_width(x)
            if wx is not None and isinstance(y, int) and not isinstance(y, bool) and y >= 0 and y % (1 << wx) == 0:
                return add(x, y)
            ly = lin(y)
            if wx is not None and ly is not None and ly.terms and ly.const % (1 << wx) == 0 and \
                    all(isinstance(c, int) and c % (1 << wx) == 0 for c in ly.terms.values()) and \
                    all(width_of(t) is not None for t in ly.terms):
                return add(x, y)
        return Op("or", *sorted((a, b), key=repr))
    if t is ast.BitAnd:
        if isinstance(a, int) and not isinstance(b, int):
            a, b = b, a
        if isinstance(b, int) and isinstance(a, Lin) and b > 0 and bitparts(a) is not None:
            s_ = (b & -b).bit_length() - 1
            if _is_mask(b >> s_):
                return mul(bits(a, s_, (b >> s_).bit_length()), 1 << s_)
        if isinstance(b, int):
            if b == 0:
                return 0
            if _is_mask(b):
                w = b.bit_length()
                wa = width_of(a)
                if wa is not None and wa <= w and not (isinstance(a, Op) and a.op == "bits"):
                    return a
                return bits(a, 0, w)
            # contiguous mask  ((2**w-1) << s)
            s = (b & -b).bit_length() - 1
            if _is_mask(b >> s):
                return mul(bits(a, s, (b >> s).bit_length()), 1 << s)
        return Op("and", a, b)
    if t is ast.RShift:
        if isinstance(b, int) and isinstance(a, Lin) and len(a.terms) > 1 or (isinstance(b, int) and isinstance(a, Lin) and a.const):
            parts = bitparts(a)
            if parts is not None:
                top = max(lo + w_ for lo, w_, v in parts)
                return bits(a, b, max(top - b, 1)) if top > b else 0
        if isinstance(b, int):
            if b == 0:
                return a
            # (bits(x,s,w) * 2**s) >> s
            la = lin(a)
            if la is not None and la.const == 0 and len(la.terms) == 1:
                (atom, c), = la.terms.items()
                if c == (1 << b):
                    return atom
            wa = width_of(a)
            if isinstance(a, Op) and a.op == "bits":
                return bits(a, b, max(a.args[2] - b, 0)) if a.args[2] > b else 0
            if wa is not None:
                return bits(a, b, wa - b) if wa > b else 0
            if isinstance(a, Op) and a.op == "shr" and isinstance(a.args[1], int):
                return Op("shr", a.args[0], a.args[1] + b)
            return Op("shr", a, b)
        return Op("shr", a, b)
    if t is ast.Mod:
        if isinstance(b, int) and b > 0 and (b & (b - 1)) == 0:
            return binop(ast.BitAnd(), a, b - 1)
        if isinstance(a, str):
            return Op("strformat", a, b)
        return Op("mod", a, b)
    if t is ast.FloorDiv:
        if isinstance(b, int) and b > 0 and (b & (b - 1)) == 0:
            return binop(ast.RShift(), a, b.bit_length() - 1)
        return Op("floordiv", a, b)
    return Op(t.__name__, a, b)


def phi(cond, a, b):
    if a is b:
        return a
    if type(a) == type(b) or (is_sym(a) and is_sym(b)):
        try:
            if not isinstance(a, Top) and repr(a) == repr(b) and type(a) == type(b):
                return a
        except Exception:
            pass
    if isinstance(a, tuple) and isinstance(b, tuple) and len(a) == len(b) and len(a) <= 8:
        return tuple(phi(cond, x, y) for x, y in zip(a, b))
    return Guard(cond, a, b)


def conjuncts(t):
    """flatten  a and b  (represented as Guard(a, b, a) / and*(...)) into its conjunct terms"""
    if isinstance(t, Guard) and repr(t.b) == repr(t.cond):
        return conjuncts(t.cond) + conjuncts(t.a)
    if isinstance(t, Op) and t.op == "and*":
        out = []
        for a in t.args:
            out.extend(conjuncts(a))
        return out
    return [t]


def disjuncts(t):
    if isinstance(t, Guard) and repr(t.a) == repr(t.cond):
        return disjuncts(t.cond) + disjuncts(t.b)
    if isinstance(t, Op) and t.op == "or*":
        out = []
        for a in t.args:
            out.extend(disjuncts(a))
        return out
    return [t]


def neg(c):
    if isinstance(c, Op) and c.op == "not":
        return c.args[0]
    if not is_sym(c):
        return not c
    return Op("not", c)


# ----------------------------------------------------------------------------------------------- outcomes
class SpecRaise(Exception):
    """A modelled Python exception raised unconditionally while evaluating an expression (concrete KeyError of a folded
    dict, callee that always raises ...); converted to a Raise outcome at statement level."""

    def __init__(self, name, node=None):
        Exception.__init__(self, name)
        self.name, self.node = name, node


class Fall(object):
    def __init__(self, env):
        self.env = env


class Ret(object):
    def __init__(self, value, env=None):
        self.value, self.env = value, env


class Raise(object):
    def __init__(self, exc, node=None, env=None):
        self.exc, self.node, self.env = exc, node, env


class Brk(object):
    def __init__(self, env):
        self.env = env


class Cont(object):
    def __init__(self, env):
        self.env = env


class RecordReplace(object):
    """record._replace of a record object built by the specialiser (Spec.record_classes): a new record with the named fields replaced"""
    def __init__(self, inst):
        self.inst = inst


class NeedSplit(Exception):
    """a comparison over a ranged atom is not decided by its current range: the driver splits the range at `point` (cases <= point and > point)"""
    def __init__(self, atom, point):
        Exception.__init__(self, "split %s at %s" % (atom, point))
        self.atom, self.point = atom, point


class Split(object):
    def __init__(self, cond, a, b):
        self.cond, self.a, self.b = cond, a, b


def leaves(out, guards=()):
    """[(guard tuple, leaf outcome)]"""
    if isinstance(out, Split):
        return leaves(out.a, guards + (out.cond,)) + leaves(out.b, guards + (neg(out.cond),))
    return [(guards, out)]


class SuperProxy(object):
    def __init__(self, cls, inst):
        self.cls, self.inst = cls, inst

    def __repr__(self):
        return "<super of %s>" % self.cls.qualname


class Effect(object):
    __slots__ = ("kind", "args", "guards", "line", "fn")

    def __init__(self, kind, args, guards, line, fn):
        self.kind, self.args, self.guards, self.line, self.fn = kind, args, tuple(guards), line, fn

    def __repr__(self):
        g = (" if " + " and ".join(show(x) for x in self.guards)) if self.guards else ""
        return "%s%s%s" % (self.kind, tuple(show(a) for a in self.args) if len(self.args) != 1 else "(%s)" % show(self.args[0]), g)


CONCRETE_CALLABLE_OK = set(v for v in PURE_BUILTINS.values() if callable(v))

KIND_TYPES = {"int": int, "byte": int, "bytes": bytes, "str": str, "float": float, "tuple": tuple, "dict": dict, "list": list,
              "bool": bool}


class Spec(object):
    """One specialisation run.  hooks: callables (spec, fname, fvalue, args, kw, node) -> value or NotImplemented."""

    def __init__(self, folder, inline_depth=8, opaque_funcs=(), hooks=(), assume=None, max_steps=400000):
        self.F = folder
        self.yields = []  # (guards, value)
        self.effects = []
        self.guards = []
        self.depth = 0
        self.inline_depth = inline_depth
        self.opaque_funcs = set(opaque_funcs)
        self.hooks = list(hooks)
        self.assume = assume or {}  # repr(term) -> value
        self.ranges = {}  # repr(atom) -> (lo, hi): integer ranges that decide comparisons (interval reasoning); undecided ones raise NeedSplit
        self.unroll_overflow = []  # loops whose concretely-decided test stayed true for more than the unrolling bound
        self.nsym = 0
        self.fnstack = []
        self.steps = 0
        self.max_steps = max_steps
        self.callstack = []
        self.notes = []
        self.returns_seen = []
        self.frames = []
        self.gen_elem_hook = None
        self.byte_hook = None
        self.eager_generators = False
        self.summarise_constant_loops = False
        self.tainted = {}  # id(container) -> Sym standing for "this container after symbolic mutation"

    # ------------------------------------------------------------------ helpers
    def fresh(self, prefix, kind=None, info=None):
        self.nsym += 1
        return Sym("%s#%d" % (prefix, self.nsym), kind, info)

    def effect(self, kind, *args, **kw):
        node = kw.get("node")
        e = Effect(kind, args, self.guards, getattr(node, "lineno", 0), self.fnstack[-1] if self.fnstack else "")
        self.effects.append(e)
        return e

    def assumed(self, term):
        r = repr(term)
        if r in self.assume:
            return self.assume[r]
        return term

    # ------------------------------------------------------------------ expressions
    def ev(self, e, env, g):
        self.steps += 1
        if self.steps > self.max_steps:
            raise FoldError("specialiser step bound")
        m = getattr(self, "ev_" + type(e).__name__, None)
        if m is None:
            return Top(type(e).__name__)
        return m(e, env, g)

    def ev_Constant(self, e, env, g):
        return e.value

    def lookup(self, name, env, g):
        sc = env
        while sc is not None:
            if name in sc:
                return sc[name]
            sc = sc.get("__closure__")
        if name in g:
            v = g[name]
            if isinstance(v, Opaque):
                return Sym("opaque:" + v.what)
            return v
        if name in PURE_BUILTINS:
            return PURE_BUILTINS[name]
        return Top("unbound " + name)

    def ev_Name(self, e, env, g):
        return self.lookup(e.id, env, g)

    def ev_Tuple(self, e, env, g):
        out = []
        for x in e.elts:
            if isinstance(x, ast.Starred):
                v = self.ev(x.value, env, g)
                if isinstance(v, (tuple, list)):
                    out.extend(v)
                else:
                    return Op("tuple*", *[self.ev(y, env, g) if not isinstance(y, ast.Starred) else self.ev(y.value, env, g) for y in e.elts])
            else:
                out.append(self.ev(x, env, g))
        return tuple(out)

    def ev_List(self, e, env, g):
        r = self.ev_Tuple(e, env, g)
        return list(r) if not isinstance(r, Op) else r

    def ev_Set(self, e, env, g):
        vs = [self.ev(x, env, g) for x in e.elts]
        if any(is_sym(v) for v in vs):
            return Op("set", *vs)
        return set(vs)

    def ev_Dict(self, e, env, g):
        d = {}
        for k, v in zip(e.keys, e.values):
            if k is None:
                vv = self.ev(v, env, g)
                if isinstance(vv, dict):
                    d.update(vv)
                else:
                    return Op("dict**", vv)
            else:
                kk = self.ev(k, env, g)
                if is_sym(kk):
                    return Op("dict", kk)
                d[kk] = self.ev(v, env, g)
        return d

    def ev_BinOp(self, e, env, g):
        a = self.ev(e.left, env, g)
        b = self.ev(e.right, env, g)
        try:
            return self.assumed(binop(e.op, a, b))
        except (TypeError, ValueError, ZeroDivisionError, KeyError) as x:
            return Top("binop %s" % type(x).__name__)

    def ev_UnaryOp(self, e, env, g):
        v = self.ev(e.operand, env, g)
        if isinstance(v, Instance) and hasattr(v, "prim") and not isinstance(e.op, ast.Not):
            v = v.prim  # -x, +x, ~x of an int-subclass instance act on its value
        if isinstance(e.op, ast.USub):
            try:
                return mul(v, -1) if is_sym(v) else -v
            except TypeError:
                return Top("neg")
        if isinstance(e.op, ast.Not):
            v = self.vis(v)
            if is_sym(v):
                return neg(v)
            return not self.truthy(v)
        if isinstance(e.op, ast.Invert) and not is_sym(v):
            return ~v
        return Op(type(e.op).__name__, v)

    def truthy(self, v):
        if isinstance(v, (FuncRef, ClassRef, ModuleNS, Instance, BoundMethod)):
            return True
        return bool(v)

    def ev_BoolOp(self, e, env, g):
        is_and = isinstance(e.op, ast.And)
        return self.boolop(is_and, list(e.values), env, g)

    def boolop(self, is_and, values, env, g):
        v = self.ev(values[0], env, g)
        if len(values) == 1:
            return v
        t = self.truth_of(v)
        if t is None:
            # symbolic: later operands are evaluated under the assumption that this one did not decide
            self.guards.append(v if is_and else neg(v))
            try:
                rest = self.boolop(is_and, values[1:], env, g)
            finally:
                self.guards.pop()
            if is_and:
                if rest is True:
                    return v
                if rest is False:
                    return False
                return Guard(v, rest, v)
            if rest is False:
                return v
            return Guard(v, v, rest)
        if is_and:
            return self.boolop(is_and, values[1:], env, g) if t else v
        return v if t else self.boolop(is_and, values[1:], env, g)

    def truth_of(self, v):
        """True / False when the truthiness of v is known, else None."""
        v = self.vis(v)
        if isinstance(v, Guard):
            ta = True if (v.a is v.cond or repr(v.a) == repr(v.cond)) else self.truth_of(v.a)
            tb = False if (v.b is v.cond or repr(v.b) == repr(v.cond)) else self.truth_of(v.b)
            if ta is not None and ta == tb:
                return ta
            return None
        if is_sym(v):
            if self.ranges and isinstance(v, (Sym, Lin, Op)):
                # truthiness of a ranged integer: decided when the range excludes 0 or is exactly 0; otherwise the range is split at 0
                r = self.interval(v) if not (isinstance(v, Op) and v.op in ("Gt", "GtE", "Lt", "LtE", "Eq", "NotEq", "and*", "not", "In", "NotIn", "Is", "IsNot")) else None
                if r is not None:
                    if r == (0, 0):
                        return False
                    if r[0] > 0 or r[1] < 0:
                        return True
                    lv = lin(v)
                    if lv is not None and len(lv.terms) == 1:
                        (a_, k_), = lv.terms.items()
                        if k_ in (1, -1) and repr(a_) in self.ranges:
                            ar = self.ranges[repr(a_)]
                            zero_at = -lv.const if k_ == 1 else lv.const
                            point = zero_at - 1 if ar[0] < zero_at else zero_at
                            if ar[0] <= point < ar[1]:
                                raise NeedSplit(repr(a_), point)
            return None
        return self.truthy(v)

    CMP = {ast.Eq: lambda a, b: a == b, ast.NotEq: lambda a, b: a != b, ast.Lt: lambda a, b: a < b,
           ast.LtE: lambda a, b: a <= b, ast.Gt: lambda a, b: a > b, ast.GtE: lambda a, b: a >= b,
           ast.In: lambda a, b: a in b, ast.NotIn: lambda a, b: a not in b, ast.Is: lambda a, b: a is b,
           ast.IsNot: lambda a, b: a is not b}

    def ev_Compare(self, e, env, g):
        left = self.ev(e.left, env, g)
        res = []
        for op, r in zip(e.ops, e.comparators):
            rv = self.ev(r, env, g)
            c = self.compare(op, left, rv)
            if is_sym(c):
                res.append(c)
            elif not c:
                return False
            left = rv
        if not res:
            return True
        return res[0] if len(res) == 1 else Op("and*", *res)

    def interval(self, t):
        """(lo, hi) of an integer term under self.ranges (atoms with a declared range), or None"""
        if isinstance(t, bool):
            return None
        if isinstance(t, int):
            return (t, t)
        if isinstance(t, (Sym, Op)) and repr(t) in self.ranges:
            return self.ranges[repr(t)]
        if isinstance(t, Lin):
            lo = hi = t.const
            for a, c in t.terms.items():
                r = self.ranges.get(repr(a))
                if r is None:
                    return None
                lo += min(c * r[0], c * r[1])
                hi += max(c * r[0], c * r[1])
            return (lo, hi)
        if isinstance(t, Op) and t.op == "bits" and t.args[1] == 0 and isinstance(t.args[2], int):
            r = self.interval(t.args[0])
            if r is not None and 0 <= r[0] and r[1] < (1 << t.args[2]):
                return r
            return (0, (1 << t.args[2]) - 1)
        return None

    def quotient_by_range(self, x, c):
        """x // c as a constant when the declared ranges put x inside one quotient class; NeedSplit at the class boundary when x is one ranged atom"""
        if not self.ranges:
            return None
        r = self.interval(x)
        if r is None:
            return None
        if r[0] // c == r[1] // c:
            return r[0] // c
        lx = lin(x)
        if lx is not None and len(lx.terms) == 1:
            (a, k), = lx.terms.items()
            if k in (1, -1) and repr(a) in self.ranges:
                boundary = (r[0] // c + 1) * c - 1  # last value of x in the lowest quotient class
                ar = self.ranges[repr(a)]
                # x = k*a + const  ->  a value at the boundary
                av = (boundary - lx.const) if k == 1 else (lx.const - boundary - 1)
                raise NeedSplit(repr(a), max(ar[0], min(ar[1] - 1, av)))
        return None

    def decide_by_range(self, t, left, rv):
        """decide an ordering/equality between integer terms from the declared ranges; raise NeedSplit when one ranged atom straddles the boundary"""
        d = add(left, rv, -1)
        r = self.interval(d)
        if r is None:
            return None
        lo, hi = r
        verdict = {ast.Gt: (lo > 0, hi <= 0), ast.GtE: (lo >= 0, hi < 0), ast.Lt: (hi < 0, lo >= 0), ast.LtE: (hi <= 0, lo > 0),
                   ast.Eq: (lo == hi == 0, lo > 0 or hi < 0), ast.NotEq: (lo > 0 or hi < 0, lo == hi == 0)}[t]
        if verdict[0]:
            return True
        if verdict[1]:
            return False
        d = lin(d) if not isinstance(d, Lin) else d
        if isinstance(d, Lin) and len(d.terms) == 1 and repr(next(iter(d.terms))) in self.ranges:
            (a, c), = d.terms.items()
            ar = self.ranges[repr(a)]
            # boundary on the atom: c*x + k crosses zero (for == / != : the point itself is split off in two steps)
            k = d.const
            x0 = -k / c
            import math
            if t in (ast.Eq, ast.NotEq):
                xi = int(round(x0))
                point = xi - 1 if ar[0] < xi else xi
            elif (t in (ast.Gt, ast.LtE)) == (c > 0):
                point = math.floor(x0)      # c*x + k > 0  <=>  x > x0 (c > 0): cases x <= floor(x0), x >= floor(x0)+1
            else:
                point = math.ceil(x0) - 1   # c*x + k >= 0 <=> x >= x0 (c > 0): cases x <= ceil(x0)-1, x >= ceil(x0)
            point = max(ar[0], min(ar[1] - 1, int(point)))
            raise NeedSplit(repr(a), point)
        if isinstance(d, Lin) and len(d.terms) > 1 and all(repr(a_) in self.ranges for a_ in d.terms):
            # several ranged atoms: split one of them where the sign of the whole becomes independent of the others; failing that, halve the widest
            import math
            items = sorted(d.terms.items(), key=lambda kv: -(self.ranges[repr(kv[0])][1] - self.ranges[repr(kv[0])][0]))
            for a, c in items:
                ar = self.ranges[repr(a)]
                if ar[0] == ar[1]:
                    continue
                rlo = rhi = d.const
                for b, cb in d.terms.items():
                    if b is a:
                        continue
                    br = self.ranges[repr(b)]
                    rlo += min(cb * br[0], cb * br[1])
                    rhi += max(cb * br[0], cb * br[1])
                cands = [math.ceil(-rhi / c) - 1, math.floor(-rlo / c)] if c > 0 else [math.ceil(-rlo / c) - 1, math.floor(-rhi / c)]
                for pt in cands:
                    if ar[0] <= pt < ar[1]:
                        raise NeedSplit(repr(a), int(pt))
            for a, c in items:
                ar = self.ranges[repr(a)]
                if ar[0] < ar[1]:
                    raise NeedSplit(repr(a), (ar[0] + ar[1]) // 2)
        return None

    def compare(self, op, left, rv):
        t = type(op)
        if self.ranges and t in (ast.Is, ast.IsNot) and isinstance(left, (Sym, Lin, int)) and isinstance(rv, (Sym, Lin, int)) and not isinstance(left, bool) \
                and not isinstance(rv, bool) and (is_sym(left) or is_sym(rv)) and self.interval(left) is not None and self.interval(rv) is not None:
            # identity of two integer values whose ranges are declared: the same value or not (what `x is not y` on line numbers means)
            known = self.decide_by_range(ast.Eq if t is ast.Is else ast.NotEq, left, rv)
            if known is not None:
                return known
        if self.ranges and t in (ast.Is, ast.IsNot):
            for x_, y_ in ((left, rv), (rv, left)):
                if isinstance(x_, (Sym, Lin)) and self.interval(x_) is not None and (y_ is None or isinstance(y_, (bool, str, bytes, tuple))):
                    return t is ast.IsNot  # a line number is never the object None / False / a string
        if self.ranges and t in (ast.Gt, ast.GtE, ast.Lt, ast.LtE, ast.Eq, ast.NotEq) and (is_sym(left) or is_sym(rv)) \
                and isinstance(left, (int, Sym, Lin, Op)) and isinstance(rv, (int, Sym, Lin, Op)) and not isinstance(left, bool) and not isinstance(rv, bool):
            known = self.decide_by_range(t, left, rv)
            if known is not None:
                return known
        symbolic = is_sym(left) or is_sym(rv)
        if not symbolic and t in (ast.In, ast.NotIn) and isinstance(rv, (tuple, list)) and any(is_sym(x) for x in rv):
            symbolic = True
        if not symbolic and t in (ast.Eq, ast.NotEq) and (has_sym(left) or has_sym(rv)):
            symbolic = True
        if symbolic:
            # None-ness of a symbolic value
            if t in (ast.Is, ast.IsNot) and rv is None and isinstance(left, (Sym, Op, Lin, Guard)):
                known = self.nonnull(left)
                if known is not None:
                    return (not known) if t is ast.Is else known
            if t in (ast.Is, ast.IsNot) and left is None and isinstance(rv, (Sym, Op, Lin, Guard)):
                known = self.nonnull(rv)
                if known is not None:
                    return (not known) if t is ast.Is else known
            # x == None / x != None for a value known not to be None (or known to be None)
            if t in (ast.Eq, ast.NotEq) and (rv is None or left is None):
                other = left if rv is None else rv
                if isinstance(other, (Sym, Op, Lin, Guard)):
                    known = self.nonnull(other)
                    if known is not None:
                        return (not known) if t is ast.Eq else known
            # membership of a symbolic in an empty container
            if t is ast.In and not is_sym(rv) and hasattr(rv, "__len__") and len(rv) == 0:
                return False
            if t is ast.NotIn and not is_sym(rv) and hasattr(rv, "__len__") and len(rv) == 0:
                return True
            term = Op(t.__name__, left, rv)
            return self.assumed(term)
        try:
            return self.CMP[t](left, rv)
        except TypeError:
            return Top("cmp")
        except FoldError:
            return Top("cmp-opaque")

    def nonnull(self, v):
        """True if the symbolic value is known not to be None (numbers, reads, arithmetic)."""
        if isinstance(v, Lin):
            return True
        if isinstance(v, Guard):
            # a guarded value is non-None when both arms are (an arm that is a concrete non-None constant counts)
            arms = []
            for x in (v.a, v.b):
                arms.append(True if (not is_sym(x) and x is not None) else (False if x is None else self.nonnull(x)))
            if all(a is True for a in arms):
                return True
            if all(a is False for a in arms):
                return False
            return None
        if isinstance(v, Sym) and v.kind in ("int", "byte", "bytes", "str", "stream", "tuple", "float", "list", "dict", "obj!", "bool"):
            return True
        if isinstance(v, Op) and v.op in ("bits", "byte", "or", "and", "shr", "mul", "add", "sub", "mod", "floordiv", "ord", "len", "concat", "new"):
            return True
        if isinstance(v, Op) and v.op == "call" and v.args and v.args[0] in ("list", "tuple", "dict", "set", "frozenset", "bytes", "bytearray", "str", "int", "sorted", "len", "repr"):
            return True  # constructors and total builtins never return None
        return None

    def ev_IfExp(self, e, env, g):
        c = self.ev(e.test, env, g)
        tc = self.truth_of(c)
        if tc is not None:
            return self.ev(e.body if tc else e.orelse, env, g)
        if is_sym(c):
            if isinstance(c, Top):
                return Top("ifexp")
            self.guards.append(c)
            a = self.ev(e.body, env, g)
            self.guards[-1] = neg(c)
            b = self.ev(e.orelse, env, g)
            self.guards.pop()
            return phi(c, a, b)
        return self.ev(e.body if self.truthy(c) else e.orelse, env, g)

    def ev_Subscript(self, e, env, g):
        v = self.ev(e.value, env, g)
        if isinstance(e.slice, ast.Slice):
            lo = self.ev(e.slice.lower, env, g) if e.slice.lower else None
            hi = self.ev(e.slice.upper, env, g) if e.slice.upper else None
            st = self.ev(e.slice.step, env, g) if e.slice.step else None
            if is_sym(v) or is_sym(lo) or is_sym(hi) or is_sym(st):
                return self.assumed(Op("slice", v, lo, hi, st))
            try:
                return v[lo:hi:st]
            except Exception as ex:
                return Top("slice %s" % type(ex).__name__)
        i = self.ev(e.slice, env, g)
        return self.index(self.vis(v), i)

    def index(self, v, i):
        if isinstance(v, Guard) and not is_sym(i):
            return phi(v.cond, self.index(v.a, i), self.index(v.b, i))
        if is_sym(v) or is_sym(i):
            if self.byte_hook is not None and isinstance(v, Sym) and v.kind == "bytes":
                r = self.byte_hook(self, v, i)
                if r is not NotImplemented:
                    return r
            if isinstance(v, Sym) and v.kind == "bytes":
                n = v.info.get("n") if v.info else None
                if isinstance(i, int) and not isinstance(i, bool) and i < 0 and isinstance(n, int):
                    i = i + n
                return self.assumed(Op("byte", v, i))
            if isinstance(v, Op) and v.op == "slice" and isinstance(v.args[0], Sym) and v.args[0].kind == "bytes":
                return self.assumed(Op("byte", v, i))
            if isinstance(v, (tuple, list)) and isinstance(i, Guard) and not is_sym(i.a) and not is_sym(i.b):
                return phi(i.cond, self.index(v, i.a), self.index(v, i.b))
            return self.assumed(Op("index", v, i))
        if isinstance(v, (FuncRef, ClassRef, ModuleNS, Instance)):
            return Top("subscript of %r" % (v,))
        try:
            return v[i]
        except (KeyError, IndexError, TypeError) as ex:
            raise SpecRaise(type(ex).__name__)
        except Exception as ex:
            return Top("subscript %s" % type(ex).__name__)

    def ev_Attribute(self, e, env, g):
        v = self.ev(e.value, env, g)
        return self.getattr(v, e.attr, env)

    def getattr(self, v, attr, env=None):
        if isinstance(v, Instance):
            k = ("@", id(v), attr)
            sc = env
            while sc is not None:
                if k in sc:
                    return sc[k]
                sc = sc.get("__closure__")
            if attr in v.attrs:
                return v.attrs[attr]
            if attr == "__class__":
                return v.cls
            m = v.cls.lookup(attr)
            if isinstance(m, FuncRef):
                decos = getattr(m, "decorators", [])
                if "staticmethod" in decos:
                    return m
                if "property" in decos:
                    return self.call(BoundMethod(m, v), [], {}, None, env)
                return BoundMethod(m, v)
            if m is not None:
                return m
            if attr == "_replace" and v.cls.name in getattr(self, "record_classes", ()):
                return RecordReplace(v)
            return Top("noattr %s.%s" % (v.cls.qualname, attr))
        if isinstance(v, SuperProxy):
            mro = v.inst.cls.mro()
            if v.cls in mro:
                for c in mro[mro.index(v.cls) + 1:]:
                    if attr in c.ns:
                        m = c.ns[attr]
                        return BoundMethod(m, v.inst) if isinstance(m, FuncRef) else m
            return Top("super has no %s" % attr)
        if isinstance(v, Guard):
            return phi(v.cond, self.getattr(v.a, attr, env), self.getattr(v.b, attr, env))
        if is_sym(v):
            if isinstance(v, Op) and v.op == "call" and len(v.args) == 2 and isinstance(v.args[0], Op) and v.args[0].op == "attr" and v.args[0].args[1] == "_replace" \
                    and isinstance(v.args[1], tuple) and all(isinstance(p_, tuple) and len(p_) == 2 and isinstance(p_[0], str) for p_ in v.args[1]):
                # record._replace(field=value, ...): the replaced fields are the given values, every other field is the original record's
                for k_, val_ in v.args[1]:
                    if k_ == attr:
                        return val_
                return self.getattr(v.args[0].args[0], attr, env)
            if isinstance(v, Op) and v.op == "new" and isinstance(v.args[1], tuple):
                for k, val in v.args[1]:
                    if k == attr:
                        return val
            return self.assumed(Op("attr", v, attr))
        if isinstance(v, ModuleNS):
            try:
                r = self.F.getattr(v, attr)
            except (PyExc, FoldError) as ex:
                return Top("noattr %s.%s" % (v.name, attr))
            if isinstance(r, Opaque):
                return Sym("opaque:" + r.what)
            return r
        if isinstance(v, ClassRef):
            r = v.lookup(attr)
            if r is None:
                if attr == "__name__":
                    return v.name
                if attr == "mro":
                    def full_mro(cls=v):
                        out = list(cls.mro())
                        for c in cls.mro():
                            for b in c.bases:
                                if isinstance(b, type):
                                    out.extend(x for x in b.__mro__ if x not in out)
                        if object not in out:
                            out.append(object)
                        return out
                    return full_mro
                return Top("noattr %s.%s" % (v.qualname, attr))
            return r
        if isinstance(v, FuncRef):
            if attr == "__name__":
                return v.name
            return Top("fn attr")
        if isinstance(v, Opaque):
            return Sym("opaque:%s.%s" % (v.what, attr))
        try:
            return getattr(v, attr)
        except AttributeError:
            return Top("noattr %s" % attr)

    def ev_JoinedStr(self, e, env, g):
        parts = []
        for v in e.values:
            if isinstance(v, ast.Constant):
                parts.append(v.value)
            else:
                parts.append(self.ev(v.value, env, g))
        if all(isinstance(p, str) for p in parts):
            return "".join(parts)
        return Op("fstring", *parts)

    def ev_FormattedValue(self, e, env, g):
        return self.ev(e.value, env, g)

    def ev_Lambda(self, e, env, g):
        f = FuncRef("<lambda>", e, self.cur_module(g), closure=env)
        f.defaults, f.kw_defaults, f.decorators = [], [], []
        return f

    def cur_module(self, g):
        n = g.get("__name__")
        return self.F.modules.get(n)

    def ev_ListComp(self, e, env, g):
        return self.comp(e, env, g)

    ev_GeneratorExp = ev_ListComp
    ev_SetComp = ev_ListComp
    ev_DictComp = ev_ListComp

    def comp(self, e, env, g):
        out = []
        scope = {"__closure__": env}
        symbolic = [False]
        entries = []  # (element value, condition term) when every iterable is concrete
        opaque_iter = [False]

        def rec(i, conds):
            if i == len(e.generators):
                if isinstance(e, ast.DictComp):
                    v = (self.ev(e.key, scope, g), self.ev(e.value, scope, g))
                else:
                    v = self.ev(e.elt, scope, g)
                if is_sym(v) or (isinstance(v, tuple) and any(is_sym(x) for x in v)):
                    pass
                out.append(v)
                c = True if not conds else (conds[0] if len(conds) == 1 else Op("and*", *conds))
                entries.append((v, c))
                return
            gen = e.generators[i]
            it = self.ev(gen.iter, scope, g)
            if is_sym(it) or not hasattr(it, "__iter__"):
                symbolic[0] = True
                opaque_iter[0] = True
                # a comprehension over symbolic data is a loop: summarise one iteration (its effects are kept as a loop effect)
                tag = "comp%d_%d" % (getattr(e, "lineno", 0), i)
                mark = len(self.effects)
                self.guards.append(Op("in-loop", tag))
                try:
                    self.assign(gen.target, self.elem_of(it, tag), scope, g)
                    for c in gen.ifs:
                        self.ev(c, scope, g)
                    rec(i + 1, conds)
                finally:
                    self.guards.pop()
                eff = self.effects[mark:]
                del self.effects[mark:]
                cond = Op("iter-more", it if is_sym(it) else show(it)[:40])
                self.effect("loop", tag, ast.unparse(gen.iter)[:80], cond, LoopSummary(tag, {}, Fall(scope), eff, dict(scope), cond), node=e)
                return
            for x in list(it):
                self.assign(gen.target, x, scope, g)
                ok = True
                cs = list(conds)
                for c in gen.ifs:
                    cv = self.ev(c, scope, g)
                    if is_sym(cv):
                        symbolic[0] = True
                        cs.append(cv)
                    elif not self.truthy(cv):
                        ok = False
                        break
                if ok:
                    rec(i + 1, cs)

        try:
            rec(0, [])
        except TypeError:
            return Top("comp")
        cond_entries = None if opaque_iter[0] else entries
        if symbolic[0]:
            if cond_entries is not None and not isinstance(e, ast.DictComp):
                return Op("complist", *cond_entries)
            kind = {ast.ListComp: "list", ast.SetComp: "set", ast.DictComp: "dict", ast.GeneratorExp: "gen"}[type(e)]
            return Sym("comp#%d:%s" % (len(self.effects), kind), kind if kind != "gen" else "gen", {"comp": ast.unparse(e)[:80], "elt": out[0] if out else None})
        if isinstance(e, ast.SetComp):
            return set(out)
        if isinstance(e, ast.DictComp):
            return dict(out)
        return out

    def ev_Starred(self, e, env, g):
        return Top("starred")

    def ev_Yield(self, e, env, g):
        v = self.ev(e.value, env, g) if e.value else None
        self.yields.append((tuple(self.guards), v, getattr(e, "lineno", 0)))
        self.effect("yield", v, node=e)
        return None

    def ev_YieldFrom(self, e, env, g):
        """`yield from it`: every item of a known sequence (an inner generator that was run eagerly gives its list of values) is yielded here in order;
        anything else is recorded as one delegation"""
        v = self.ev(e.value, env, g)
        if isinstance(v, (list, tuple)):
            for item in v:
                self.yields.append((tuple(self.guards), item, getattr(e, "lineno", 0)))
                self.effect("yield", item, node=e)
            return None
        self.yields.append((tuple(self.guards), Op("each", v), getattr(e, "lineno", 0)))
        self.effect("yield-from", v, node=e)
        return None

    def ev_NamedExpr(self, e, env, g):
        v = self.ev(e.value, env, g)
        self.assign(e.target, v, env, g)
        return v

    def ev_Call(self, e, env, g):
        if isinstance(e.func, ast.Name) and e.func.id in ("locals", "globals") and not e.args:
            return g if e.func.id == "globals" else env
        f = self.ev(e.func, env, g)
        args = []
        for a in e.args:
            if isinstance(a, ast.Starred):
                v = self.ev(a.value, env, g)
                if isinstance(v, (tuple, list)):
                    args.extend(v)
                else:
                    args.append(Op("*", v))
            else:
                args.append(self.ev(a, env, g))
        kw = {}
        for k in e.keywords:
            if k.arg is None:
                v = self.ev(k.value, env, g)
                if isinstance(v, dict):
                    kw.update(v)
                else:
                    kw["**"] = v
            else:
                kw[k.arg] = self.ev(k.value, env, g)
        return self.call(f, args, kw, e, env)

    # ------------------------------------------------------------------ calls
    def fname(self, f):
        if isinstance(f, FuncRef):
            return f.qualname
        if isinstance(f, BoundMethod):
            return f.func.qualname
        if isinstance(f, ClassRef):
            return f.qualname
        if isinstance(f, Op) and f.op == "attr":
            return "%s.%s" % (show(f.args[0]), f.args[1])
        return getattr(f, "__name__", None) or show(f)

    def vis(self, v):
        """a concrete container that was mutated under a symbolic guard / inside a summarised loop is no longer known"""
        if self.tainted and isinstance(v, (list, dict, set, bytearray)) and id(v) in self.tainted:
            return self.tainted[id(v)]
        return v

    def taint(self, obj):
        if id(obj) not in self.tainted:
            kind = "list" if isinstance(obj, (list, bytearray)) else ("dict" if isinstance(obj, dict) else "set")
            self.tainted[id(obj)] = Sym("mutated#%d" % (len(self.tainted) + 1), kind, {"identity": obj})
            self._keep = getattr(self, "_keep", [])
            self._keep.append(obj)

    def call(self, f, args, kw, node=None, env=None):
        if self.tainted:
            args = [self.vis(a) for a in args]
            kw = {k: self.vis(v) for k, v in kw.items()}
        name = self.fname(f)
        for h in self.hooks:
            r = h(self, name, f, args, kw, node)
            if r is not NotImplemented:
                return r
        if isinstance(f, Guard):
            self.guards.append(f.cond)
            a = self.call(f.a, args, kw, node, env)
            self.guards[-1] = neg(f.cond)
            b = self.call(f.b, args, kw, node, env)
            self.guards.pop()
            return phi(f.cond, a, b)
        if isinstance(f, RecordReplace):
            new_ = Instance(f.inst.cls)
            new_.attrs.update(f.inst.attrs)
            new_.attrs.update(kw)
            return new_
        if isinstance(f, BoundMethod):
            return self.call_func(f.func, [f.self] + list(args), kw, node)
        if isinstance(f, FuncRef):
            return self.call_func(f, args, kw, node)
        if isinstance(f, ClassRef):
            init = f.lookup("__init__")
            if f.name in getattr(self, "record_classes", ()) and not isinstance(init, FuncRef):
                # a NamedTuple-style record class (annotated fields, no __init__), on request built as an object whose attributes are the fields
                inst = Instance(f)
                fields_ = [(a_.target.id, a_.value) for a_ in f.node.body if isinstance(a_, ast.AnnAssign) and isinstance(a_.target, ast.Name)]
                for i_, (fn_, dv_) in enumerate(fields_):
                    if i_ < len(args):
                        inst.attrs[fn_] = args[i_]
                    elif fn_ in kw:
                        inst.attrs[fn_] = kw[fn_]
                    else:
                        try:
                            inst.attrs[fn_] = ast.literal_eval(dv_) if dv_ is not None else Top("unset field %s" % fn_)
                        except Exception:
                            inst.attrs[fn_] = Top("default of %s" % fn_)
                return inst
            if f.qualname in self.opaque_funcs or not isinstance(init, FuncRef):
                self.effect("new", f.qualname, tuple(args), tuple(sorted(kw.items())), node=node)
                return Op("new", f.name, tuple(sorted(kw.items(), key=lambda t: t[0])), *args)
            inst = Instance(f)
            # a subclass of a builtin number/text type carries the primitive value its constructor was given (int.__new__(cls, v)): arithmetic on the
            # instance is arithmetic on that value
            prims = [b for c in f.mro() for b in c.bases if b in (int, float, str, bytes)]
            if prims and not isinstance(f.lookup("__new__"), FuncRef):
                inst.prim = args[0] if args else prims[0]()
            self.call_func(init, [inst] + list(args), kw, node)
            return inst
        # stream model
        if isinstance(f, Op) and f.op == "attr" and isinstance(f.args[0], Sym) and f.args[0].kind == "stream":
            return self.stream_call(f.args[0], f.args[1], args, kw, node)
        if is_sym(f):
            t = Op("call", f, *args) if not kw else Op("call", f, *(list(args) + [tuple(sorted(kw.items()))]))
            self.effect("call", name, tuple(args), tuple(sorted(kw.items())), node=node)
            return self.assumed(t)
        return self.call_builtin(f, args, kw, node)

    def stream_call(self, fp, meth, args, kw, node):
        if meth == "read":
            n = args[0] if args else None
            r = self.fresh("rd", "bytes", {"n": n, "stream": fp.name})
            self.effect("read", fp.name, n, r, node=node)
            return r
        self.effect("stream." + meth, fp.name, tuple(args), node=node)
        if meth == "tell":
            return self.fresh("pos", "int")
        return None

    def call_builtin(self, f, args, kw, node):
        symbolic_args = any(is_sym(a) for a in list(args) + list(kw.values()))
        name = getattr(f, "__name__", repr(f))
        if f is None:
            self.effect("print-or-open", tuple(args), tuple(sorted(kw.items())), node=node)
            return Top("print/open")
        if f is dict and not args:
            return dict(kw)  # dict(a=x, b=y): a concrete mapping whose values may be symbolic
        if f is struct.unpack or name == "unpack" and getattr(f, "__module__", "") in ("_struct", "struct"):
            return self.model_unpack(args, node)
        if f is struct.iter_unpack and len(args) == 2 and not is_sym(args[0]) and is_sym(args[1]):
            self.effect("iter_unpack", args[0], args[1], node=node)
            return Sym("iter_unpack(%s,%s)" % (args[0], show(args[1])), "iterunpack", {"fmt": args[0], "data": args[1]})
        if f is isinstance and len(args) == 2:
            v, t = args
            if isinstance(v, (Instance, FuncRef, ClassRef, ModuleNS, BoundMethod)):
                if isinstance(v, Instance):
                    # repo classes by identity in the MRO; builtin types through the builtin bases of the MRO (class X(int): isinstance(X(..), int))
                    bb = tuple(b for c in v.cls.mro() for b in c.bases if isinstance(b, type))
                    for x in (t if isinstance(t, tuple) else (t,)):
                        if isinstance(x, ClassRef) and x in v.cls.mro():
                            return True
                        if isinstance(x, type) and (x is object or any(issubclass(b, x) for b in bb)):
                            return True
                    return False
                return False
            if isinstance(v, Sym) and v.kind in KIND_TYPES and not is_sym(t):
                ts = t if isinstance(t, tuple) else (t,)
                if all(isinstance(x, type) for x in ts):
                    return issubclass(KIND_TYPES[v.kind], tuple(ts))
            if isinstance(v, (Lin,)) or (isinstance(v, Op) and v.op in ("bits", "byte", "or", "and", "shr", "mul")):
                ts = t if isinstance(t, tuple) else (t,)
                if all(isinstance(x, type) for x in ts):
                    return issubclass(int, tuple(ts))
            if not is_sym(v) and isinstance(t, (ClassRef,)):
                return False
            if not is_sym(v) and isinstance(t, tuple) and any(isinstance(x, ClassRef) for x in t):
                ts = tuple(x for x in t if isinstance(x, type))
                return isinstance(v, ts) if ts else False
        if f is hasattr and len(args) == 2 and not is_sym(args[1]):
            v = args[0]
            if isinstance(v, (ModuleNS, ClassRef, Instance)):
                r = self.getattr(v, args[1])
                return not isinstance(r, Top)
            if is_sym(v):
                return self.assumed(Op("hasattr", v, args[1]))
        if f is setattr and len(args) == 3 and isinstance(args[0], Instance) and isinstance(args[1], str):
            # setattr(obj, "name", value) on a repo object: the same store as obj.name = value
            if self.guards:
                c_ = self.guards[-1] if len(self.guards) == 1 else Op("and*", *self.guards)
                args[0].attrs[args[1]] = phi(c_, args[2], args[0].attrs.get(args[1], Top("unset")))
            else:
                args[0].attrs[args[1]] = args[2]
            self.effect("store-attr", args[0].cls.name, args[1], args[2], node=node)
            return None
        if getattr(f, "__name__", "") in ("deepcopy", "copy") and getattr(f, "__module__", "") == "copy" and len(args) >= 1 and isinstance(args[0], Instance):
            # a copy of a repo object: a new object of the same class whose attributes are copies (containers one level deep; symbolic values are immutable terms)
            src = args[0]
            new = Instance(src.cls)
            deep = getattr(f, "__name__", "") == "deepcopy"
            for k_, v_ in src.attrs.items():
                # copy.copy shares every attribute value with the original; deepcopy gives the copy its own containers
                new.attrs[k_] = v_ if not deep else list(v_) if isinstance(v_, list) else dict(v_) if isinstance(v_, dict) else set(v_) if isinstance(v_, set) else v_
            if hasattr(src, "prim"):
                new.prim = src.prim
            return new
        if f is getattr and len(args) >= 2 and not is_sym(args[1]):
            v = args[0]
            if isinstance(v, (ModuleNS, ClassRef, Instance)) or is_sym(v):
                r = self.getattr(v, args[1])
                if isinstance(r, Top) and len(args) == 3:
                    return args[2]
                return r
        if isinstance(f, type) and issubclass(f, tuple) and hasattr(f, "_fields"):
            # a namedtuple class: a plain record, safe to build with symbolic field values
            try:
                return f(*args, **kw)
            except TypeError:
                raise SpecRaise("TypeError", node)
        if f is type and len(args) == 1 and isinstance(args[0], Instance):
            return args[0].cls
        if f is super:
            if len(args) == 2 and isinstance(args[0], ClassRef) and isinstance(args[1], Instance):
                return SuperProxy(args[0], args[1])
            if not args and self.frames:
                fr, fenv = self.frames[-1]
                params = fr.node.args.args
                if fr.cls is not None and params and isinstance(fenv.get(params[0].arg), Instance):
                    return SuperProxy(fr.cls, fenv[params[0].arg])
            return Top("super")
        if f is len and len(args) == 1:
            v = args[0]
            if isinstance(v, (tuple, list, dict, set, frozenset, str, bytes)):
                return len(v)
            if isinstance(v, Sym) and v.kind == "bytes" and v.info and v.info.get("n") is not None and not is_sym(v.info["n"]):
                return v.info["n"]
            return self.assumed(Op("len", v))
        if f is int and len(args) == 1 and not kw:
            v = args[0]
            if isinstance(v, Lin) or (isinstance(v, Sym) and v.kind in ("int", "byte")) or (isinstance(v, Op) and v.op in ("bits", "byte", "or", "and", "shr", "mul", "mod", "floordiv", "ord")):
                return v
        if f is bool and len(args) == 1 and is_sym(args[0]):
            return Op("bool", args[0])
        if f in (bytearray, bytes) and len(args) == 1 and not kw and isinstance(args[0], (list, tuple)) and any(is_sym(x) for x in args[0]) \
                and not any(isinstance(x, Top) for x in args[0]):
            return Op("bytesof", *args[0])  # a bytes object built from (partly symbolic) byte values
        if f is divmod and len(args) == 2 and is_sym(args[0]) and isinstance(args[1], int) and not isinstance(args[1], bool) and args[1] > 0 \
                and not isinstance(args[0], Top):
            q = self.quotient_by_range(args[0], args[1])
            if q is None:
                q = Op("floordiv", args[0], args[1])
            return (q, add(args[0], mul(q, -args[1])))
        if f is ord and len(args) == 1 and is_sym(args[0]):
            v = args[0]
            if isinstance(v, Sym) and v.kind == "bytes" and v.info and v.info.get("n") == 1:
                return Op("byte", v, 0)
            return Op("ord", v)
        if f in (tuple, list) and len(args) == 1 and isinstance(args[0], (tuple, list)):
            return f(args[0])
        if f is tuple and not args:
            return ()
        if f is range and symbolic_args:
            return Op("range", *args)
        if f is zip and any(is_sym(a) for a in args):
            return Op("zip", *args)
        if f is iter and len(args) == 1 and is_sym(args[0]):
            return Sym("iter(%s)" % show(args[0]), "iter", {"of": args[0]})
        if f is next and len(args) >= 1 and isinstance(args[0], Sym) and args[0].kind == "iter":
            r = self.fresh("next", "byte" if isinstance(args[0].info.get("of"), Sym) and args[0].info["of"].kind == "bytes" else None,
                           {"iter": args[0].name})
            self.effect("next", args[0].name, r, node=node)
            return r
        if symbolic_args or any(isinstance(a, Opaque) for a in args):
            # method of a concrete container with symbolic argument
            self_obj = getattr(f, "__self__", None)
            if not self.guards and isinstance(self_obj, list) and name in ("append", "extend", "insert") and id(self_obj) not in self.tainted \
                    and not any(isinstance(a, (Top, Opaque)) for a in args):
                # straight-line code: a list may hold symbolic elements
                try:
                    return f(*args)
                except Exception:
                    pass
            if self_obj is not None and isinstance(self_obj, (list, dict, set)) and name in (
                    "append", "extend", "add", "update", "insert", "remove", "pop", "clear", "setdefault"):
                self.effect("mutate", name, show(self_obj)[:40], tuple(args), node=node)
                self.taint(self_obj)
                return None
            if self_obj is not None and isinstance(self_obj, dict) and name == "get" and not is_sym(args[0]):
                return self_obj.get(*args)
            if self_obj is not None and isinstance(self_obj, (dict,)) and name == "get":
                return self.assumed(Op("index?", self_obj if len(self_obj) < 40 else Sym("dict%d" % len(self_obj)), *args))
            if self_obj is not None and isinstance(self_obj, (str, bytes)) and name in ("join", "format", "__mod__"):
                return Op("str." + name, self_obj, *args)
            t = Op("call", name, *args) if not kw else Op("call", name, *(list(args) + [tuple(sorted(kw.items()))]))
            if name not in ("repr", "str", "format", "type", "id", "abs", "min", "max", "sorted", "float", "complex", "chr", "hex",
                            "bytes", "bytearray", "frozenset", "set", "dict", "enumerate", "reversed", "sum", "divmod", "round",
                            "int", "long", "any", "all", "list", "tuple", "isinstance", "hasattr", "getattr", "copy", "deepcopy"):
                self.effect("call", name, tuple(args), tuple(sorted(kw.items())), node=node)
            return self.assumed(t)
        self_obj = getattr(f, "__self__", None)
        if name == "join" and isinstance(self_obj, (str, bytes)) and len(self_obj) == 0 and len(args) == 1 and isinstance(args[0], (list, tuple)) \
                and any(is_sym(x) or has_sym(x) for x in args[0]):
            # "".join(pieces) with symbolic pieces: the concatenation of the pieces, in order
            return Op("concat", self_obj, *args[0])
        if self.guards and self_obj is not None and isinstance(self_obj, (list, dict, set, bytearray)) and name in (
                "append", "extend", "add", "update", "insert", "remove", "pop", "clear", "setdefault", "sort", "reverse"):
            self.effect("mutate", name, show(self_obj)[:40], tuple(args), node=node)
            self.taint(self_obj)
            return None
        if f is sorted and len(args) == 1 and set(kw) <= {"key", "reverse"} and "key" in kw and not isinstance(kw["key"], FuncRef) and callable(kw["key"]) and not is_sym(args[0]):
            # sorted(items, key=operator.itemgetter(0)) and the like: a host callable applied to each element; usable when every key comes out concrete
            try:
                items = list(args[0])
                keys = [kw["key"](it) for it in items]
                if not any(has_sym(k) or is_sym(k) for k in keys):
                    order = sorted(range(len(items)), key=lambda i: keys[i], reverse=bool(kw.get("reverse", False)))
                    return [items[i] for i in order]
            except Exception:
                pass
        if f is sorted and len(args) == 1 and set(kw) <= {"key", "reverse"} and isinstance(kw.get("key"), FuncRef) and not is_sym(args[0]):
            # sorted(items, key=<repo function>): the key function is inlined per element; a concrete order exists when every key is concrete
            try:
                items = list(args[0])
            except TypeError:
                items = None
            if items is not None:
                keys = [self.call(kw["key"], [it], {}, node, {}) for it in items]
                if not any(has_sym(k) or is_sym(k) for k in keys):
                    order = sorted(range(len(items)), key=lambda i: keys[i], reverse=bool(kw.get("reverse", False)))
                    return [items[i] for i in order]
        if any(isinstance(a, (FuncRef, BoundMethod, ClassRef, Instance, ModuleNS)) for a in list(args) + list(kw.values())):
            if f in (isinstance, hasattr, getattr, callable, id, type, repr, str):
                pass
            elif isinstance(self_obj, dict) and name in ("get", "__contains__", "__getitem__"):
                pass  # lookups keyed by a repo class / function (dispatch tables)
            else:
                self.effect("call", name, tuple(args), tuple(sorted(kw.items())), node=node)
                return Top("builtin on repo object")
        if callable(f):
            try:
                r = f(*args, **kw)
            except FoldError:
                raise
            except Exception as ex:
                self.effect("raises", name, type(ex).__name__, node=node)
                raise SpecRaise(type(ex).__name__, node)
            if type(r).__name__ in ("generator", "map", "filter", "zip", "enumerate", "reversed") and \
                    not any(hasattr(a, "__next__") for a in args):
                try:
                    r = list(r)
                except Exception:
                    return Top("iter")
            return r
        return Top("call %r" % (f,))

    def model_unpack(self, args, node):
        if len(args) != 2:
            return Top("unpack arity")
        fmt, data = args
        if is_sym(fmt):
            return Top("unpack fmt")
        if isinstance(data, (bytes, bytearray)):
            try:
                return struct.unpack(fmt, data)
            except struct.error:
                self.effect("raises", "unpack", "struct.error", node=node)
                raise SpecRaise("error", node)
        try:
            size = struct.calcsize(fmt)
            nf = len(struct.unpack(fmt, bytes(size)))
        except struct.error:
            return Top("bad struct fmt")
        n = None
        if isinstance(data, Sym) and data.info:
            n = data.info.get("n")
        self.effect("unpack", fmt, size, n, data, node=node)
        return tuple(self.assumed(Sym("fld(%s,%s,%d)" % (data if isinstance(data, Sym) else show(data), fmt, i), "int",
                                      {"read": data, "fmt": fmt, "idx": i})) for i in range(nf))

    def call_func(self, f, args, kw, node):
        q = f.qualname
        if q in self.opaque_funcs or f.name in self.opaque_funcs or self.depth >= self.inline_depth or q in self.callstack:
            self.effect("call", q, tuple(args), tuple(sorted(kw.items())), node=node)
            t = Op("call", q, *args) if not kw else Op("call", q, *(list(args) + [tuple(sorted(kw.items()))]))
            return self.assumed(t)
        fa = f.node
        from .fold import is_generator
        is_gen = is_generator(fa)
        if is_gen:
            if self.eager_generators and self.depth < self.inline_depth:
                r = self.try_eager_generator(f, args, kw)
                if r is not None:
                    return r
            self.effect("gen", q, tuple(args), tuple(sorted(kw.items())), node=node)
            return Sym("gen:%s#%d" % (f.name, len(self.effects)), "gen", {"func": f, "args": args, "kw": kw})
        return self.inline(f, args, kw, node)

    def try_eager_generator(self, f, args, kw):
        """run a generator body now and return the list of yielded values, if every yield is unconditional
        (no data-dependent control flow decides what is yielded); otherwise undo and return None"""
        my, me_, ms = len(self.yields), len(self.effects), self.nsym
        g0 = tuple(repr(g) for g in self.guards)
        env = self.bind(f, args, kw)
        self.depth += 1
        self.fnstack.append(f.qualname)
        self.callstack.append(f.qualname)
        self.frames.append((f, env))
        try:
            out = self.block(f.node.body, env, f.module.ns)
        except FoldError:
            out = None
        finally:
            self.depth -= 1
            self.fnstack.pop()
            self.callstack.pop()
            self.frames.pop()
        ys = self.yields[my:]
        ok = out is not None and isinstance(out, (Fall, Ret)) and all(tuple(repr(g) for g in y[0]) == g0 for y in ys) and \
            not any(e.kind == "loop" for e in self.effects[me_:])
        if not ok:
            del self.yields[my:]
            del self.effects[me_:]
            return None
        vals = [y[1] for y in ys]
        del self.yields[my:]
        self.effects[me_:] = [e for e in self.effects[me_:] if e.kind != "yield"]
        return vals

    def bind(self, f, args, kw):
        fa = f.node
        a = fa.args
        env = {"__closure__": f.closure, "__qualname__": f.qualname}
        params = list(a.posonlyargs) + list(a.args)
        d = getattr(f, "defaults", None)
        if d is None:
            d = [self.ev(x, {}, f.module.ns) for x in a.defaults]
        nd = len(params) - len(d)
        kw = dict(kw)
        for i, p in enumerate(params):
            if i < len(args):
                env[p.arg] = args[i]
            elif p.arg in kw:
                env[p.arg] = kw.pop(p.arg)
            elif i >= nd:
                dv = d[i - nd]
                env[p.arg] = Sym("opaque:" + dv.what) if isinstance(dv, Opaque) else dv
            else:
                env[p.arg] = Top("missing " + p.arg)
        if a.vararg:
            env[a.vararg.arg] = tuple(args[len(params):])
        kd = getattr(f, "kw_defaults", [])
        for i, p in enumerate(a.kwonlyargs):
            if p.arg in kw:
                env[p.arg] = kw.pop(p.arg)
            elif i < len(kd) and kd[i] is not None:
                env[p.arg] = kd[i]
        if a.kwarg:
            env[a.kwarg.arg] = kw
        return env

    def inline(self, f, args, kw, node=None):
        env = self.bind(f, args, kw)
        fa = f.node
        g = f.module.ns
        self.depth += 1
        self.fnstack.append(f.qualname)
        self.callstack.append(f.qualname)
        self.frames.append((f, env))
        try:
            if isinstance(fa, ast.Lambda):
                return self.ev(fa.body, env, g)
            out = self.block(fa.body, env, g)
        finally:
            self.depth -= 1
            self.fnstack.pop()
            self.callstack.pop()
            self.frames.pop()
        return self.outcome_value(out)

    def outcome_value(self, out, top=True):
        if isinstance(out, Ret):
            return out.value
        if isinstance(out, Fall):
            return None
        if isinstance(out, Raise):
            if top:
                name = out.exc.args[0] if isinstance(out.exc, Op) and out.exc.args else "Exception"
                raise SpecRaise(name, out.node)
            self.effect("raise", out.exc, node=out.node)
            return Top("raises %s" % show(out.exc))
        if isinstance(out, Split):
            self.guards.append(out.cond)
            a = self.outcome_value(out.a, False)
            self.guards[-1] = neg(out.cond)
            b = self.outcome_value(out.b, False)
            self.guards.pop()
            if isinstance(a, Top) and a.why.startswith("raises"):
                return b
            if isinstance(b, Top) and b.why.startswith("raises"):
                return a
            return phi(out.cond, a, b)
        return Top("outcome")

    # ------------------------------------------------------------------ statements
    def block(self, stmts, env, g):
        for i, s in enumerate(stmts):
            out = self.stmt(s, env, g)
            if isinstance(out, Fall):
                env = out.env
                continue
            if isinstance(out, (Ret, Raise, Brk, Cont)):
                return out
            return self.cont(out, stmts[i + 1:], g)
        return Fall(env)

    def cont(self, out, rest, g):
        if isinstance(out, Fall):
            return self.block(rest, out.env, g)
        if not isinstance(out, Split):
            return out
        self.guards.append(out.cond)
        a = self.cont(out.a, rest, g)
        self.guards[-1] = neg(out.cond)
        b = self.cont(out.b, rest, g)
        self.guards.pop()
        if isinstance(a, Fall) and isinstance(b, Fall):
            return Fall(self.merge(out.cond, a.env, b.env))
        return Split(out.cond, a, b)

    def merge(self, cond, ea, eb):
        env = {}
        for k in set(ea) | set(eb):
            if k in ea and k in eb:
                va, vb = ea[k], eb[k]
                env[k] = va if va is vb else phi(cond, va, vb)
            else:
                env[k] = phi(cond, ea.get(k, Top("undef")), eb.get(k, Top("undef")))
        return env

    def assign(self, t, v, env, g, node=None):
        if isinstance(t, ast.Name):
            if t.id in env.get("__globals__", ()):
                g[t.id] = v
            else:
                env[t.id] = v
        elif isinstance(t, (ast.Tuple, ast.List)):
            v = self.vis(v)
            if is_sym(v) and any(isinstance(x, ast.Starred) for x in t.elts):
                # head, *rest = <symbolic sequence>
                for k, x in enumerate(t.elts):
                    if isinstance(x, ast.Starred):
                        self.assign(x.value, Sym("rest(%s)" % show(v)[:40], "list", {"of": v, "from": k}), env, g)
                    else:
                        self.assign(x, self.assumed(Op("item", v, k)), env, g)
            elif isinstance(v, (tuple, list)) and len(v) == len(t.elts):
                for x, y in zip(t.elts, v):
                    self.assign(x, y, env, g)
            elif isinstance(v, Guard) and isinstance(v.a, tuple) and isinstance(v.b, tuple) and len(v.a) == len(v.b) == len(t.elts):
                for k, x in enumerate(t.elts):
                    self.assign(x, phi(v.cond, v.a[k], v.b[k]), env, g)
            else:
                for k, x in enumerate(t.elts):
                    self.assign(x, self.assumed(Op("item", v, k)) if not isinstance(v, Top) else Top("unpack"), env, g)
        elif isinstance(t, ast.Subscript):
            obj = self.ev(t.value, env, g)
            key = self.ev(t.slice, env, g) if not isinstance(t.slice, ast.Slice) else Top("slice")
            if not self.guards and isinstance(obj, (list, dict)) and not is_sym(key) and not isinstance(key, Top):
                try:
                    obj[key] = v
                    return
                except Exception:
                    pass
            self.effect("store-sub", obj if is_sym(obj) else show(obj)[:60], key, v, node=t)
        elif isinstance(t, ast.Attribute):
            obj = self.ev(t.value, env, g)
            if isinstance(obj, Instance):
                env[("@", id(obj), t.attr)] = v
                top = env
                # make instance state visible to callers: write through to the outermost frame too
                self.effect("store-attr", obj.cls.name, t.attr, v, node=t)
                obj_attrs_shadow = obj.attrs
                if not self.guards:
                    obj_attrs_shadow[t.attr] = v
                else:
                    old = obj_attrs_shadow.get(t.attr, Top("unset"))
                    c = self.guards[-1] if len(self.guards) == 1 else Op("and*", *self.guards)
                    obj_attrs_shadow[t.attr] = phi(c, v, old)
            else:
                self.effect("store-attr", obj if is_sym(obj) else show(obj)[:60], t.attr, v, node=t)
        elif isinstance(t, ast.Starred):
            self.assign(t.value, Top("starred"), env, g)

    def stmt(self, s, env, g):
        try:
            return self.stmt_(s, env, g)
        except SpecRaise as ex:
            return Raise(Op("exc", ex.name), ex.node or s, env)

    def stmt_(self, s, env, g):
        self.steps += 1
        if self.steps > self.max_steps:
            raise FoldError("specialiser step bound")
        t = type(s)
        if t is ast.Assign:
            v = self.ev(s.value, env, g)
            for tg in s.targets:
                self.assign(tg, v, env, g)
            return Fall(env)
        if t is ast.AugAssign:
            cur = self.ev(s.target, env, g)
            rhs = self.ev(s.value, env, g)
            if isinstance(cur, list) and isinstance(s.op, ast.Add) and isinstance(rhs, (list, tuple)) and not self.guards:
                cur.extend(rhs)
                return Fall(env)
            try:
                v = binop(s.op, cur, rhs)
            except Exception as ex:
                v = Top("augassign %s" % type(ex).__name__)
            self.assign(s.target, v, env, g)
            return Fall(env)
        if t is ast.AnnAssign:
            if s.value is not None:
                self.assign(s.target, self.ev(s.value, env, g), env, g)
            return Fall(env)
        if t is ast.Expr:
            if isinstance(s.value, ast.Constant):
                return Fall(env)
            self.ev(s.value, env, g)
            return Fall(env)
        if t is ast.Return:
            v = self.ev(s.value, env, g) if s.value else None
            self.returns_seen.append((tuple(self.guards), v, s.lineno))
            return Ret(v, env)
        if t in (ast.Pass, ast.Global, ast.Nonlocal):
            if t is ast.Global:
                env.setdefault("__globals__", set()).update(s.names)
            return Fall(env)
        if t is ast.Assert:
            c = self.ev(s.test, env, g)
            if not is_sym(c) and not self.truthy(c):
                return Raise(Op("exc", "AssertionError"), s, env)
            return Fall(env)
        if t in (ast.Import, ast.ImportFrom):
            try:
                self.F.exec_stmt(s, g, self.cur_module(g), env)
            except (FoldError, PyExc):
                for a in s.names:
                    env[(a.asname or a.name).split(".")[0]] = Sym("opaque:import " + a.name)
            return Fall(env)
        if t is ast.If:
            return self.stmt_if(s, env, g)
        if t is ast.For:
            return self.stmt_for(s, env, g)
        if t is ast.While:
            return self.stmt_while(s, env, g)
        if t is ast.Try:
            return self.stmt_try(s, env, g)
        if t is ast.With:
            for it in s.items:
                v = self.ev(it.context_expr, env, g)
                if it.optional_vars is not None:
                    self.assign(it.optional_vars, v, env, g)
            return self.block(s.body, env, g)
        if t is ast.Raise:
            exc = None
            if s.exc is not None:
                if isinstance(s.exc, ast.Call):
                    fn = self.ev(s.exc.func, env, g)
                    exc = Op("exc", getattr(fn, "__name__", None) or getattr(fn, "name", None) or show(fn))
                else:
                    v = self.ev(s.exc, env, g)
                    exc = Op("exc", getattr(v, "__name__", None) or show(v))
            else:
                exc = Op("exc", "reraise")
            return Raise(exc, s, env)
        if t in (ast.FunctionDef, ast.AsyncFunctionDef):
            f = FuncRef(env.get("__qualname__", "?") + "." + s.name, s, self.cur_module(g), closure=env)
            f.defaults = [self.ev(d, env, g) for d in s.args.defaults]
            f.kw_defaults = [self.ev(d, env, g) if d is not None else None for d in s.args.kw_defaults]
            f.decorators = [ast.unparse(d) for d in s.decorator_list]
            env[s.name] = f
            return Fall(env)
        if t is ast.ClassDef:
            try:
                self.F.exec_stmt(s, g, self.cur_module(g), env)
            except (FoldError, PyExc):
                env[s.name] = Sym("opaque:class " + s.name)
            return Fall(env)
        if t is ast.Break:
            return Brk(env)
        if t is ast.Continue:
            return Cont(env)
        if t is ast.Delete:
            self.effect("del", ast.unparse(s)[:60], node=s)
            return Fall(env)
        self.effect("stmt?", t.__name__, node=s)
        return Fall(env)

    def fork(self, env):
        return dict(env)

    def stmt_if(self, s, env, g):
        c = self.ev(s.test, env, g)
        tc = self.truth_of(c)
        if tc is not None:
            return self.block(s.body if tc else s.orelse, env, g)
        if isinstance(c, Top):
            self.effect("top-branch", ast.unparse(s.test)[:80], c.why, node=s)
        self.guards.append(c)
        a = self.block(s.body, self.fork(env), g)
        self.guards[-1] = neg(c)
        b = self.block(s.orelse, self.fork(env), g)
        self.guards.pop()
        if isinstance(a, Fall) and isinstance(b, Fall):
            return Fall(self.merge(c, a.env, b.env))
        return Split(c, a, b)

    def assigned_names(self, nodes):
        names = set()
        attrs = set()
        for node in nodes:
            for n in ast.walk(node):
                if isinstance(n, (ast.Assign, ast.AugAssign, ast.AnnAssign, ast.For, ast.NamedExpr, ast.comprehension)):
                    ts = n.targets if isinstance(n, ast.Assign) else [n.target]
                    for tg in ts:
                        for x in ast.walk(tg):
                            if isinstance(x, ast.Name) and isinstance(x.ctx, ast.Store):
                                names.add(x.id)
                            elif isinstance(x, ast.Attribute) and isinstance(x.ctx, ast.Store):
                                attrs.add(ast.unparse(x))
        return names, attrs

    def loop_body(self, body, env, g, label):
        """Summarise one iteration: returns (outcome, effects-of-iteration)."""
        mark = len(self.effects)
        out = self.block(body, env, g)
        eff = self.effects[mark:]
        del self.effects[mark:]
        return out, eff

    def havoc(self, nodes, env, tag):
        names, attrs = self.assigned_names(nodes)
        carried = {}
        inplace_only = self.inplace_only_names(nodes)
        for n in sorted(names):
            old = env.get(n)
            if n in env:
                carried[n] = old
            info = None
            if isinstance(old, (list, dict, set, bytearray)) and n in inplace_only:
                info = {"identity": old}  # only augmented in place: still the same object after the loop
            elif isinstance(old, Sym) and old.info and "identity" in old.info and n in inplace_only:
                info = {"identity": old.info["identity"]}
            env[n] = Sym("%s:%s" % (tag, n), self.kind_of(old), info)
        return names

    def inplace_only_names(self, nodes):
        """names whose every binding inside `nodes` is an augmented assignment (in place for mutable containers)"""
        aug, other = set(), set()
        for node in nodes:
            for n in ast.walk(node):
                if isinstance(n, ast.AugAssign) and isinstance(n.target, ast.Name):
                    aug.add(n.target.id)
                elif isinstance(n, (ast.Assign, ast.AnnAssign, ast.For, ast.NamedExpr, ast.comprehension)):
                    ts = n.targets if isinstance(n, ast.Assign) else [n.target]
                    for tg in ts:
                        for x in ast.walk(tg):
                            if isinstance(x, ast.Name) and isinstance(x.ctx, ast.Store):
                                other.add(x.id)
        return aug - other

    def kind_of(self, v):
        if isinstance(v, bool):
            return None
        if isinstance(v, int) or isinstance(v, Lin):
            return "int"
        if isinstance(v, Sym):
            return v.kind
        if isinstance(v, Instance):
            for c in v.cls.mro():
                for b in c.bases:
                    if b is int:
                        return "int"
                    if b is str:
                        return "str"
            return None
        for t, k in ((tuple, "tuple"), (list, "list"), (dict, "dict"), (bytes, "bytes"), (str, "str"), (float, "float"), (set, "set")):
            if isinstance(v, t):
                return k
        return None

    def stmt_for(self, s, env, g):
        it = self.vis(self.ev(s.iter, env, g))
        concrete = not is_sym(it) and hasattr(it, "__iter__") and not isinstance(it, (Instance, FuncRef, ClassRef, ModuleNS))
        if concrete and isinstance(it, (dict, set, frozenset)) and len(it) > 64:
            concrete = False
        if concrete and hasattr(it, "__next__"):
            # a stateful iterator (iter(...), enumerate(iterator)): consume lazily, one element per iteration
            n_it = 0
            while True:
                try:
                    x = next(it)
                except StopIteration:
                    break
                except Exception:
                    return self.summarise_loop(s, env, g, it)
                n_it += 1
                if n_it > 300:
                    return self.summarise_loop(s, env, g, it)
                self.assign(s.target, x, env, g)
                out = self.block(s.body, env, g)
                if isinstance(out, (Fall, Cont)):
                    env = out.env
                elif isinstance(out, Brk):
                    return Fall(out.env)
                elif isinstance(out, (Ret, Raise)):
                    return out
                else:
                    # data-dependent exit: continue the remaining iterations on the falling side only is unsound; summarise
                    return self.continue_lazy(s, out, it, g)
            if s.orelse:
                return self.block(s.orelse, env, g)
            return Fall(env)
        if concrete:
            try:
                items = list(it)
            except Exception:
                items = None
            if items is not None and len(items) <= 300:
                for x in items:
                    self.assign(s.target, x, env, g)
                    out = self.block(s.body, env, g)
                    if isinstance(out, Fall):
                        env = out.env
                    elif isinstance(out, Cont):
                        env = out.env
                    elif isinstance(out, Brk):
                        return Fall(out.env)
                    elif isinstance(out, (Ret, Raise)):
                        return out
                    else:
                        # data-dependent exit inside an unrolled loop: summarise the rest
                        return self.summarise_loop(s, env, g, it)
                if s.orelse:
                    return self.block(s.orelse, env, g)
                return Fall(env)
        return self.summarise_loop(s, env, g, it)

    def continue_lazy(self, s, out, it, g):
        """an iteration over a stateful iterator ended in a data-dependent split: every leaf that would continue the loop is
        joined into one summary of the remaining iterations (sound but imprecise); leaves that left the loop are kept"""
        def fix(o):
            if isinstance(o, Split):
                return Split(o.cond, fix(o.a), fix(o.b))
            if isinstance(o, (Fall, Cont)):
                return self.summarise_loop(s, o.env, g, it)
            if isinstance(o, Brk):
                return Fall(o.env)
            return o
        return fix(out)

    def summarise_loop(self, s, env, g, it=None):
        tag = "loop%d" % s.lineno
        pre = dict(env)
        self.havoc([s], env, tag)
        head = dict(env)
        if isinstance(s, ast.For):
            elem = self.elem_of(it, tag)
            self.assign(s.target, elem, env, g)
            cond = Op("iter-more", it if is_sym(it) else show(it)[:40])
        else:
            cond = self.ev(s.test, env, g)
        self.guards.append(Op("in-loop", tag))
        out, eff = self.loop_body(s.body, self.fork(env), g, tag)
        self.guards.pop()
        self.effect("loop", tag, ast.unparse(s.iter if isinstance(s, ast.For) else s.test)[:80], cond, LoopSummary(tag, head, out, eff, pre, cond), node=s)
        # returns inside the loop body are possible exits of the function
        exits = [(gd, lf) for gd, lf in leaves(out) if isinstance(lf, (Ret, Raise))]
        post = dict(head)
        for k in list(post):
            if isinstance(post[k], Sym) and post[k].name.startswith(tag + ":"):
                post[k] = Sym("after-" + post[k].name, post[k].kind, post[k].info)
        if exits:
            # join: the function may return from inside the loop
            res = Fall(post)
            for gd, lf in exits:
                c = Op("loop-exit", tag, *gd)
                res = Split(c, lf, res)
            return res
        return Fall(post)

    def elem_of(self, it, tag):
        if isinstance(it, Op) and it.op == "zip":
            return tuple(self.elem_of(a, tag + ".%d" % k) for k, a in enumerate(it.args))
        if isinstance(it, Op) and it.op == "range":
            return Sym("%s:idx" % tag, "int", {"range": it.args})
        if isinstance(it, Op) and it.op == "call" and it.args and it.args[0] == "enumerate" and len(it.args) == 2:
            return (Sym("%s:idx" % tag, "int"), self.elem_of(it.args[1], tag + ".e"))
        if isinstance(it, Sym) and it.kind == "bytes":
            return Sym("%s:elem" % tag, "byte", {"of": it})
        if isinstance(it, Sym) and it.kind == "iterunpack":
            fmt = it.info["fmt"]
            codes = [c for c in fmt if c not in "<>=@!"]
            return tuple(Sym("%s:fld%d(%s)" % (tag, i, c), "int", {"fmt": c, "iter_unpack": fmt, "idx": i}) for i, c in enumerate(codes))
        if isinstance(it, Sym) and it.kind == "gen":
            if self.gen_elem_hook is not None:
                r = self.gen_elem_hook(self, it, tag)
                if r is not NotImplemented:
                    return r
            return Sym("%s:elem" % tag, "genitem", {"gen": it})
        return Sym("%s:elem" % tag, None, {"of": it})

    def stmt_while(self, s, env, g):
        # concrete loops are executed (bounded); symbolic ones summarised
        n = 0
        if isinstance(s.test, ast.Constant) and s.test.value and self.summarise_constant_loops:
            # `while True:` leaves only through data-dependent break/return/exception: summarise one iteration
            return self.summarise_loop(s, env, g)
        while True:
            c = self.ev(s.test, env, g)
            if is_sym(c):
                break
            if not self.truthy(c):
                if s.orelse:
                    return self.block(s.orelse, env, g)
                return Fall(env)
            n += 1
            if n > 300:
                self.unroll_overflow.append(ast.unparse(s.test)[:60])
                break
            snapshot = dict(env)
            mark = len(self.effects)
            out = self.block(s.body, env, g)
            if isinstance(out, (Fall, Cont)):
                env = out.env
            elif isinstance(out, Brk):
                return Fall(out.env)
            elif isinstance(out, (Ret, Raise)):
                return out
            else:
                # data-dependent control inside an iteration whose test was concrete (while True: ... break)
                del self.effects[mark:]
                env.clear()
                env.update(snapshot)
                break
        return self.summarise_loop(s, env, g)

    def stmt_try(self, s, env, g):
        mark = len(self.effects)
        out = self.block(s.body, env, g)
        handled_any = False
        res = self.try_handlers(s, out, env, g)
        if s.finalbody:
            # run finally on every falling leaf
            res = self.cont_all(res, s.finalbody, g)
        if s.orelse:
            pass
        return res

    def cont_all(self, out, stmts, g):
        if isinstance(out, Fall):
            return self.block(stmts, out.env, g)
        if isinstance(out, Split):
            self.guards.append(out.cond)
            a = self.cont_all(out.a, stmts, g)
            self.guards[-1] = neg(out.cond)
            b = self.cont_all(out.b, stmts, g)
            self.guards.pop()
            if isinstance(a, Fall) and isinstance(b, Fall):
                return Fall(self.merge(out.cond, a.env, b.env))
            return Split(out.cond, a, b)
        if isinstance(out, (Ret, Raise, Brk, Cont)):
            # finally body runs, then the transfer continues
            env = getattr(out, "env", None)
            self.block(stmts, dict(env) if env is not None else {}, g)
            return out
        return out

    def try_handlers(self, s, out, env, g):
        if isinstance(out, Split):
            self.guards.append(out.cond)
            a = self.try_handlers(s, out.a, env, g)
            self.guards[-1] = neg(out.cond)
            b = self.try_handlers(s, out.b, env, g)
            self.guards.pop()
            if isinstance(a, Fall) and isinstance(b, Fall):
                return Fall(self.merge(out.cond, a.env, b.env))
            return Split(out.cond, a, b)
        if isinstance(out, Raise):
            name = out.exc.args[0] if isinstance(out.exc, Op) and out.exc.args else None
            for h in s.handlers:
                if self.handler_catches(h, name, env, g):
                    henv = dict(out.env if out.env is not None else env)
                    if h.name:
                        henv[h.name] = Sym("exc:%s" % name, "obj!")
                    return self.block(h.body, henv, g)
            return out
        if isinstance(out, Fall) and s.orelse:
            return self.block(s.orelse, out.env, g)
        return out

    def handler_catches(self, h, name, env, g):
        if h.type is None:
            return True
        ht = self.ev(h.type, env, g)
        hts = ht if isinstance(ht, tuple) else (ht,)
        exc = PURE_BUILTINS.get(name) if isinstance(name, str) else None
        for x in hts:
            if isinstance(x, type) and issubclass(x, BaseException):
                if exc is not None and isinstance(exc, type) and issubclass(exc, x):
                    return True
                if x in (Exception, BaseException) and name != "reraise":
                    return True
        return False

    # ------------------------------------------------------------------ entry points
    def run(self, f, args=(), kw=None):
        """Specialise FuncRef f; returns the outcome tree (generators: statements are analysed, yields recorded)."""
        kw = kw or {}
        env = self.bind(f, list(args), kw)
        self.fnstack.append(f.qualname)
        self.callstack.append(f.qualname)
        self.frames.append((f, env))
        try:
            out = self.block(f.node.body, env, f.module.ns)
        finally:
            self.fnstack.pop()
            self.callstack.pop()
            self.frames.pop()
        return out


class LoopSummary(object):
    def __init__(self, tag, head, out, effects, pre, cond):
        self.tag, self.head, self.out, self.effects, self.pre, self.cond = tag, head, out, effects, pre, cond

    def __repr__(self):
        return "<loop %s: %d effects>" % (self.tag, len(self.effects))


def flatten_effects(effects, depth=0):
    """Effects with loop bodies expanded inline (marked by ('loop-begin', tag) / ('loop-end', tag))."""
    out = []
    for e in effects:
        if e.kind == "loop":
            ls = e.args[3]
            out.append(("loop-begin", e))
            out.extend(flatten_effects(ls.effects, depth + 1))
            out.append(("loop-end", e))
        else:
            out.append((e.kind, e))
    return out


# ----------------------------------------------------------------------------------------------- term evaluation
def eval_term(t, valuation):
    """Evaluate one of the analysis's own terms under an assignment {repr(atom): int}.  Used to decide equality of two
    extracted terms over a small finite domain (e.g. one input byte) or on a hitting set -- never on repo code."""
    if isinstance(t, bool):
        return t
    if isinstance(t, (int, float, str)) or t is None:
        return t
    if isinstance(t, (Sym, Op)) and repr(t) in valuation:
        return valuation[repr(t)]
    if isinstance(t, Lin):
        s = t.const
        for a, c in t.terms.items():
            s += c * eval_term(a, valuation)
        return s
    if isinstance(t, Guard):
        return eval_term(t.a, valuation) if eval_term(t.cond, valuation) else eval_term(t.b, valuation)
    if isinstance(t, tuple):
        return tuple(eval_term(x, valuation) for x in t)
    if isinstance(t, list):
        return [eval_term(x, valuation) for x in t]
    if isinstance(t, Op) and t.op == "complist":
        return [eval_term(v, valuation) for (v, c) in t.args if eval_term(c, valuation)]
    if isinstance(t, Op):
        a = [eval_term(x, valuation) for x in t.args]
        o = t.op
        if o == "bits":
            return (a[0] >> a[1]) & ((1 << a[2]) - 1)
        if o == "or":
            return a[0] | a[1]
        if o == "and":
            return a[0] & a[1]
        if o == "shr":
            return a[0] >> a[1]
        if o in ("LShift", "shl"):
            return a[0] << a[1]
        if o == "call" and a and a[0] == "abs" and len(a) == 2:
            return abs(a[1])
        if o == "call" and a and a[0] in ("int", "long") and len(a) == 2:
            return int(a[1])
        if o == "RShift":
            return a[0] >> a[1]
        if o == "mul":
            return a[0] * a[1]
        if o == "add":
            return a[0] + a[1]
        if o == "sub":
            return a[0] - a[1]
        if o == "mod":
            return a[0] % a[1]
        if o == "floordiv":
            return a[0] // a[1]
        if o == "BitXor":
            return a[0] ^ a[1]
        if o == "not":
            return not a[0]
        if o == "bool":
            return bool(a[0])
        if o == "and*":
            return all(a)
        if o == "or*":
            r = False
            for x in a:
                if x:
                    return x
            return a[-1]
        if o in ("Eq", "NotEq", "Lt", "LtE", "Gt", "GtE", "In", "NotIn", "Is", "IsNot"):
            return Spec.CMP[getattr(ast, o)](a[0], a[1])
        if o == "index":
            return a[0][a[1]]
        if o == "USub":
            return -a[0]
        if o == "Invert":
            return ~a[0]
        if o == "Pow":
            return a[0] ** a[1]
        if o == "call" and a and a[0] in ("abs", "min", "max", "int", "bool", "sum", "len", "any", "all"):
            return {"abs": abs, "min": min, "max": max, "int": int, "bool": bool, "sum": sum, "len": len, "any": any, "all": all}[a[0]](*a[1:])
        raise ValueError("cannot evaluate %s" % o)
    if isinstance(t, Top):
        raise ValueError("TOP")
    return t


def atoms_of(t, acc=None):
    acc = acc if acc is not None else {}
    if isinstance(t, Sym):
        acc[repr(t)] = t
    elif isinstance(t, Lin):
        for a in t.terms:
            atoms_of(a, acc)
    elif isinstance(t, Op):
        if t.op in ("byte",):
            acc[repr(t)] = t
        else:
            for a in t.args:
                atoms_of(a, acc)
    elif isinstance(t, Guard):
        atoms_of(t.cond, acc); atoms_of(t.a, acc); atoms_of(t.b, acc)
    elif isinstance(t, (tuple, list)):
        for a in t:
            atoms_of(a, acc)
    return acc
