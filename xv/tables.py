"""Shared access to the folded tables: which opcode modules a user can get (reachable from op_imports), the accepted
magics, reference JSON loaders."""
import json
import os

from .fold import folded, FuncRef, ModuleNS
from .report import AnalysisError

REF = os.path.join(os.path.dirname(os.path.dirname(os.path.abspath(__file__))), "reference")

REF_VERSIONS = ["2.7", "3.6", "3.7", "3.8", "3.9", "3.10", "3.11", "3.12", "3.13"]
CATEGORIES = ("hasjrel", "hasjabs", "hasconst", "hasname", "haslocal", "hasfree", "hascompare")


def ref_json(*parts):
    p = os.path.join(REF, *parts)
    if not os.path.exists(p):
        raise AnalysisError("reference file missing: %s" % p)
    with open(p) as f:
        return json.load(f)


def ref_opcodes(v):
    d = ref_json("opcodes", v + ".json")
    d["opmap_norm"] = {k.replace("+", "_"): n for k, n in d["opmap"].items()}
    return d


def vt(s):
    return tuple(int(x) for x in s.split("."))


class Tables:
    def __init__(self, host=(3, 12)):
        self.F = folded(host=host)
        F = self.F
        for need in ("xdis.op_imports", "xdis.magics", "xdis.opcodes.base"):
            if need not in F.modules:
                raise AnalysisError("anchor vanished: module %s" % need)
        self.magics = F.modules["xdis.magics"].ns
        self.op_imports = F.modules["xdis.op_imports"].ns.get("op_imports")
        if not isinstance(self.op_imports, dict):
            raise AnalysisError("anchor vanished: xdis.op_imports.op_imports is not a folded dict")
        for k in ("magicint2version", "versions", "magics", "canonic_python_version"):
            if not isinstance(self.magics.get(k), dict):
                raise AnalysisError("anchor vanished: xdis.magics.%s" % k)
        # distinct table modules reachable through op_imports
        self.reachable = {}
        for key, m in self.op_imports.items():
            if not isinstance(m, ModuleNS):
                raise AnalysisError("op_imports[%r] is not a module" % (key,))
            self.reachable.setdefault(m.name, m)
        self.all_tables = {n: m for n, m in F.modules.items() if n.startswith("xdis.opcodes.opcode_")}

    def table_for_version(self, vstr, variant=""):
        cpv = self.magics["canonic_python_version"]
        key = vstr + variant
        if key not in cpv:
            return None
        c = cpv[key]
        return self.op_imports.get(c)

    def is_defined(self, m, op):
        names = m.ns["opname"]
        return 0 <= op < len(names) and names[op] != "<%s>" % op and names[op] != "<%r>" % (op,) and names[op] != ""


_T = {}


def tables(host=(3, 12)):
    if host not in _T:
        _T[host] = Tables(host)
    return _T[host]
